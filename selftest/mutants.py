#!/usr/bin/env python3
"""Registry of hand-written mutants (realistic property-breaking edits of pdf-rs/pdf).

Each entry: name, properties expected to fire, list of (file, old, new) exact replacements
(each `old` must occur exactly once).  `./selftest/mutants.py gen` writes
selftest/mutants/<name>.patch (unified diff against /repo's current tree);
`./selftest/mutants.py run [name-prefix]` applies each to a scratch copy and runs the expected
checks (bin/mutant); `./selftest/mutants.py build [prefix]` additionally verifies that each
mutant compiles and passes the 34 baseline tests in a scratch copy.
"""
import difflib
import json
import os
import subprocess
import sys

VERIF = os.path.dirname(os.path.dirname(os.path.abspath(__file__)))
REPO = os.environ.get("VERIF_REPO", "/repo")
OUT = os.path.join(VERIF, "selftest", "mutants")

M = []


def m(name, props, edits, expect=None, note=""):
    M.append({"name": name, "props": props, "edits": edits, "expect": expect, "note": note})


# ------------------------------------------------------------------ C02
m("M02a_ge", ["C02"], [("pdf/src/xref.rs", "=> entry.get_gen_nr() > gen,", "=> entry.get_gen_nr() >= gen,")],
  expect="C02-TABLE", note="older section with equal generation overwrites the newer entry")
m("M02b_always", ["C02"], [("pdf/src/xref.rs", "=> entry.get_gen_nr() > gen,", "=> true,")], expect="C02-TABLE")
m("M02c_last_trailer", ["C02"], [
    ("pdf/src/backend.rs", "let (xref_sections, trailer) = t!(read_xref_and_trailer_at(&mut lexer, resolve));\n        \n        let highest_id",
     "let (xref_sections, mut trailer) = t!(read_xref_and_trailer_at(&mut lexer, resolve));\n        \n        let highest_id"),
    ("pdf/src/backend.rs", "let (xref_sections, trailer) = t!(read_xref_and_trailer_at(&mut lexer, resolve));\n            \n            for section",
     "let (xref_sections, trailer2) = t!(read_xref_and_trailer_at(&mut lexer, resolve));\n            \n            for section"),
    ("pdf/src/backend.rs", "                match trailer.get(\"Prev\") {\n                    Some(p) => {\n                        let prev = t!(p.as_usize());\n                        Some(prev)\n                    }\n                    None => None\n                }\n            };",
     "                match trailer2.get(\"Prev\") {\n                    Some(p) => {\n                        let prev = t!(p.as_usize());\n                        Some(prev)\n                    }\n                    None => None\n                }\n            };\n            trailer = trailer2;"),
], expect="C02-G2", note="returns the oldest trailer")
m("M02d_swap_types", ["C02"], [
    ("pdf/src/parser/parse_xref.rs", "1 => XRef::Raw {pos: field1 as usize, gen_nr: field2 as GenNr},\n            2 => XRef::Stream {stream_id: field1 as ObjNr, index: field2 as usize},",
     "2 => XRef::Raw {pos: field1 as usize, gen_nr: field2 as GenNr},\n            1 => XRef::Stream {stream_id: field1 as ObjNr, index: field2 as usize},")],
  expect="C02-SIB")
m("M02e_swap_fields", ["C02"], [
    ("pdf/src/parser/parse_xref.rs", "2 => XRef::Stream {stream_id: field1 as ObjNr, index: field2 as usize},",
     "2 => XRef::Stream {stream_id: field2 as ObjNr, index: field1 as usize},")], expect="C02-SIB")
m("M02f_writer_types", ["C02"], [
    ("pdf/src/xref.rs", "XRef::Stream { stream_id, index } => (2, stream_id, index as u64),\n                x => bail!",
     "XRef::Stream { stream_id, index } => (2, index as u64, stream_id),\n                x => bail!")], expect="C02-SIB")
m("M02g_free_resolves", ["C02"], [
    ("pdf/src/file.rs", "XRef::Free {..} => err!(PdfError::FreeObject {obj_nr: r.id}),",
     "XRef::Free {next_obj_nr, ..} => {\n                    let mut lexer = Lexer::with_offset(t!(self.backend.read(self.start_offset + next_obj_nr as usize ..)), 0);\n                    Ok(t!(parse_indirect_object(&mut lexer, resolve, self.decoder.as_ref(), flags)).1)\n                }")],
  expect="C02-G3")
m("M02h_prev_from_first", ["C02"], [
    ("pdf/src/backend.rs", "            prev_trailer = {\n                match trailer.get(\"Prev\") {\n                    Some(p) => {\n                        let prev = t!(p.as_usize());\n                        Some(prev)\n                    }\n                    None => None\n                }\n            };",
     "            prev_trailer = {\n                match trailer.get(\"XRefStm\") {\n                    Some(p) => {\n                        let prev = t!(p.as_usize());\n                        Some(prev)\n                    }\n                    None => None\n                }\n            };")],
  expect="C02-G1", note="follows the wrong key for older sections")
m("M02i_invalid_kept", ["C02"], [
    ("pdf/src/xref.rs", "XRef::Invalid => true,", "XRef::Invalid => entry.get_gen_nr() > 0,")], expect="C02-TABLE")

# ------------------------------------------------------------------ C18
m("M18a_no_shared", ["C18"], [("pdf/src/error.rs", "            PdfError::Shared { ref source } => source.is_missing_object(),\n", "")],
  expect="C18-ERR", note="errors that went through the object cache are no longer recognised")
m("M18b_options_first", ["C18"], [("pdf/src/object/mod.rs",
   "                Err(e) if e.is_missing_object() => Ok(None),\n                Err(e) if resolve.options().allow_error_in_option => {",
   "                Err(e) if !resolve.options().allow_error_in_option && !matches!(e, PdfError::NullRef {..}) => Err(e),\n                Err(e) if e.is_missing_object() => Ok(None),\n                Err(e) if resolve.options().allow_error_in_option => {")],
  expect="C18-ERR", note="strict mode fails before the missing-object test")
m("M18c_absent_missing", ["C18"], [("pdf_derive/src/lib.rs",
   "                        None =>  // Try to construct T from Primitive::Null\n                            match <#ty as pdf::object::Object>::from_primitive(pdf::primitive::Primitive::Null, resolve) {\n                                Ok(obj) => obj,\n                                Err(_) => return Err(pdf::error::PdfError::MissingEntry {\n                                    typ: #typ,\n                                    field: String::from(stringify!(#name)),\n                                })\n                            },",
   "                        None => return Err(pdf::error::PdfError::MissingEntry {\n                                    typ: #typ,\n                                    field: String::from(stringify!(#name)),\n                                }),")],
  expect="C18-ABSENT", note="(does not pass the baseline: kept only as extractor regression)")
m("M18d_unspecified", ["C18"], [("pdf/src/error.rs", "PdfError::NullRef { .. } | PdfError::FreeObject { .. } | PdfError::UnspecifiedXRefEntry { .. } => true,",
   "PdfError::NullRef { .. } | PdfError::FreeObject { .. } => true,")], expect="C18-ERR", note="object number beyond /Size")
m("M18e_vec_null", ["C18"], [("pdf/src/object/mod.rs", "            Primitive::Null => {\n                Vec::new()\n            }\n            Primitive::Reference(id) => Self::from_primitive(r.resolve(id)?, r)?,\n            _ => vec![T::from_primitive(p, r)?]",
   "            Primitive::Reference(id) => Self::from_primitive(r.resolve(id)?, r)?,\n            _ => vec![T::from_primitive(p, r)?]")], expect="C18-ABSENT")
m("M18f_try_only_direct", ["C18"], [("pdf/src/error.rs", "PdfError::Try { ref source, .. } | PdfError::FromPrimitive { ref source, .. } => source.is_missing_object(),",
   "PdfError::Try { ref source, .. } | PdfError::FromPrimitive { ref source, .. } => matches!(**source, PdfError::NullRef { .. } | PdfError::FreeObject { .. } | PdfError::UnspecifiedXRefEntry { .. }),")],
  expect="C18-ERR", note="looks through one level of wrapping only; needs a doubly wrapped error (t! inside a derived reader)")

# ------------------------------------------------------------------ C06
m("M06a_key16", ["C06"], [("pdf/src/crypt.rs", "t!(Aes256CbcDec::new_from_slices(&self.key, iv)", "t!(Aes256CbcDec::new_from_slices(&self.key[..self.key_size.min(16)], iv)")],
  expect="C06-TS")
m("M06b_decrypt_after", ["C06"], [("pdf/src/file.rs",
   "        if let Some(ref decoder) = self.decoder {\n            data = Vec::from(t!(decoder.decrypt(id, &mut data)));\n        }\n        for filter in filters {\n            data = t!(decode(&data, filter), filter);\n        }",
   "        for filter in filters {\n            data = t!(decode(&data, filter), filter);\n        }\n        if let Some(ref decoder) = self.decoder {\n            data = Vec::from(t!(decoder.decrypt(id, &mut data)));\n        }")],
  expect="C06-G1")
m("M06c_no_encrypt_exempt", ["C06"], [("pdf/src/crypt.rs",
   "        if self.encrypt_indirect_object == Some(id) {\n            // Strings inside the /Encrypt dictionary are not encrypted\n            return Ok(data);\n        }\n", "")],
  expect="C06-G2")
m("M06d_r5_other_error", ["C06"], [("pdf/src/crypt.rs",
   "                        (intermediate_kdf_hash.finalize(), oe)\n                    } else {\n                        err!(PdfError::InvalidPassword);",
   "                        (intermediate_kdf_hash.finalize(), oe)\n                    } else {\n                        err!(PdfError::DecryptionFailure);")],
  expect="C06-G3")
m("M06e_metadata_always", ["C06"], [("pdf/src/crypt.rs", "if !self.encrypt_metadata && self.metadata_indirect_object == Some(id) {", "if self.metadata_indirect_object == Some(id) {")],
  expect="C06-G2", note="metadata stream returned undecrypted although EncryptMetadata is true")
m("M06f_wrong_id", ["C06"], [("pdf/src/parser/parse_object.rs",
   "    let ctx = Context {\n        decoder,\n        id,\n    };\n    let obj = t!(parse_with_lexer_ctx",
   "    let ctx = Context {\n        decoder,\n        id: PlainRef { id: id.id, gen: 0 },\n    };\n    let obj = t!(parse_with_lexer_ctx")],
  expect="C06-PROV", note="needs an object with non-zero generation")
m("M06g_xref_decoder", ["C06"], [("pdf/src/parser/parse_xref.rs", "let xref_stream = t!(parse_indirect_stream(lexer, resolve, None)).1;", "let xref_stream = t!(parse_indirect_stream(lexer, resolve, resolve.options().allow_xref_error.then(|| unreachable!()))).1;")],
  expect="C06-G2", note="(artificial) decoder argument no longer the constant None")
m("M06h_accept_fallthrough", ["C06"], [("pdf/src/crypt.rs",
   "                if check_password_rc4(level, dict.u.as_bytes(), id, &key[..key_size]) {\n                    let decoder = Decoder::new(key, key_size, method, dict.encrypt_metadata);\n                    Ok(decoder)\n                } else {\n                    Err(PdfError::InvalidPassword)\n                }",
   "                let _ = check_password_rc4(level, dict.u.as_bytes(), id, &key[..key_size]);\n                let decoder = Decoder::new(key, key_size, method, dict.encrypt_metadata);\n                Ok(decoder)")],
  expect="C06-G3", note="any owner password accepted for RC4 documents")
m("M06i_aesv2_rc4", ["C06"], [("pdf/src/crypt.rs", "                    CryptMethod::V2 | CryptMethod::AESV2 => (\n                        default.length.map(|n| n.saturating_mul(8)).unwrap_or(dict.bits),\n                        default.method,\n                    ),",
   "                    CryptMethod::V2 | CryptMethod::AESV2 => (\n                        default.length.map(|n| n.saturating_mul(8)).unwrap_or(dict.bits),\n                        CryptMethod::V2,\n                    ),")],
  expect=None, note="AESV2 documents decrypted with RC4 — value-level method selection; expected to be missed by structure rules unless TABLE covers from_password")

# ------------------------------------------------------------------ C05
m("M05a_swap_pred", ["C05"], [("pdf/src/enc.rs", "            1 => Ok(PredictorType::Sub),\n            2 => Ok(PredictorType::Up),", "            2 => Ok(PredictorType::Sub),\n            1 => Ok(PredictorType::Up),")], expect="C05-TABLE")
m("M05b_rl_256", ["C05"], [("pdf/src/enc.rs", "let copy = 257 - length as usize;", "let copy = 256 - length as usize;")], expect="C05-TABLE")
m("M05c_lzw_as_flate", ["C05"], [("pdf/src/enc.rs", '"LZWDecode" => StreamFilter::LZWDecode (LZWFlateParams::from_primitive(params, r)?),', '"LZWDecode" => StreamFilter::FlateDecode (LZWFlateParams::from_primitive(params, r)?),')], expect="C05-SIB")
m("M05d_params_get0", ["C05"], [("pdf/src/object/stream.rs", "let params = match decode_params.get(i) {\n                Some(Some(params))", "let params = match decode_params.get(0) {\n                Some(Some(params))")], expect="C05-G-pair")
m("M05e_a85_alphabet", ["C05"], [("pdf/src/enc.rs", "b @ 0x21 ..= 0x75 => Some(b - 0x21),", "b @ 0x21 ..= 0x74 => Some(b - 0x21),")], expect="C05-TABLE")
m("M05f_chain_rev", ["C05"], [("pdf/src/file.rs", "        for filter in filters {\n            data = t!(decode(&data, filter), filter);", "        for filter in filters.iter().rev() {\n            data = t!(decode(&data, filter), filter);")], expect="C05-G-chain")
m("M05g_rl_eod", ["C05"], [("pdf/src/enc.rs", "        } else if length >= 129 {", "        } else if length >= 128 {")], expect="C05-TABLE", note="128 no longer ends the data")
m("M05h_avg_reads_upleft", ["C05"], [("pdf/src/enc.rs", "((out[i - bpp] as i16 + prev[i] as i16) / 2) as u8", "((out[i - bpp] as i16 + prev[i - bpp] as i16) / 2) as u8")], expect="C05-TABLE-pred")
m("M05i_dispatch_hex85", ["C05"], [("pdf/src/enc.rs", "        StreamFilter::ASCII85Decode => decode_85(data),\n        StreamFilter::LZWDecode(ref params) => lzw_decode", "        StreamFilter::ASCII85Decode => decode_hex(data),\n        StreamFilter::LZWDecode(ref params) => lzw_decode")], expect="C05-TABLE-dec")
m("M05j_writer_name", ["C05"], [("pdf/src/object/stream.rs", 'StreamFilter::ASCII85Decode => "ASCII85Decode",', 'StreamFilter::ASCII85Decode => "ASCII85",')], expect="C05-SIB")
m("M05k_stream_data_first_only", ["C05"], [("pdf/src/object/stream.rs", "                    for filter in filters {\n                        data = t!(decode(&data, filter), filter).into();", "                    for filter in filters {\n                        data = t!(decode(&**self_data, filter), filter).into();"),
   ("pdf/src/object/stream.rs", "                    let mut data: Cow<[u8]> = (&**data).into();", "                    let self_data = data;\n                    let mut data: Cow<[u8]> = (&**data).into();")], expect="C05-G-chain", note="every filter applied to the original bytes")
m("M05l_hex_ws", ["C05"], [("pdf/src/enc.rs", ".filter(|&b| !matches!(b, 0 | 9 | 10 | 12 | 13 | 32))", ".filter(|&b| !matches!(b, 9 | 10 | 12 | 13 | 32))")], expect="C05-TABLE")

# ------------------------------------------------------------------ C16
m("M16a_no_finish", ["C16"], [("pdf/src/enc.rs", "    let mut encoder = Encoder::new(Vec::new()).unwrap();\n    encoder.write_all(data).unwrap();\n    encoder.finish().into_result().unwrap()",
   "    let mut encoder = Encoder::new(Vec::new()).unwrap();\n    encoder.write_all(data).unwrap();\n    encoder.into_inner()")], expect="C16-TS")
m("M16b_a85_as_hex", ["C16"], [("pdf/src/enc.rs", "StreamFilter::ASCII85Decode => Ok(encode_85(data)),", "StreamFilter::ASCII85Decode => Ok(encode_hex(data)),")], expect="C16-SIB")
m("M16c_lzw_lsb", ["C16"], [("pdf/src/enc.rs", "    Encoder::new(BitOrder::Msb, 9)\n        .into_stream(&mut compressed)", "    Encoder::new(BitOrder::Lsb, 9)\n        .into_stream(&mut compressed)")], expect="C16-SIB-lzw")
m("M16d_lzw_early", ["C16"], [("pdf/src/enc.rs", "    if params.early_change != 0 {\n        bail!(\"encoding early_change != 0 is not supported\");\n    }", "    if params.early_change == 0 {\n        bail!(\"encoding early_change == 0 is not supported\");\n    }")],
  expect="C16-SIB-lzw", note="encoder without early change used for EarlyChange=1 streams")
m("M16e_hex_upper_g", ["C16"], [("pdf/src/enc.rs", "        10 ..= 15 => b'a' - 10 + c,", "        10 ..= 15 => b'b' - 10 + c,")], expect="C16-SIB-hex")
m("M16f_a85_z_tail", ["C16"], [("pdf/src/enc.rs", "        c[.. r.len()].copy_from_slice(r);\n        let out = base85_chunk(c);\n        buf.extend_from_slice(&out[.. r.len() + 1]);",
   "        c[.. r.len()].copy_from_slice(r);\n        if c == [0; 4] { buf.push(b'z'); } else {\n        let out = base85_chunk(c);\n        buf.extend_from_slice(&out[.. r.len() + 1]); }")], expect="C16-SIB-a85", note="z for a partial zero tail")
m("M16g_deflate_raw", ["C16"], [("pdf/src/enc.rs", "    use libflate::zlib::Encoder;\n    let mut encoder = Encoder::new(Vec::new()).unwrap();", "    use libflate::deflate::Encoder;\n    let mut encoder = Ok::<_, std::io::Error>(Encoder::new(Vec::new())).unwrap();")], expect="C16-TS")
m("M16h_a85_no_eod", ["C16"], [("pdf/src/enc.rs", "    buf.extend_from_slice(b\"~>\");\n    buf", "    if data.len() > 0 { buf.extend_from_slice(b\"~>\"); }\n    buf")], expect="C16-SIB-a85")
m("M16i_hex_low_first", ["C16"], [("pdf/src/enc.rs", "        buf.push(encode_nibble(b >> 4));\n        buf.push(encode_nibble(b & 0xf));", "        buf.push(encode_nibble(b & 0xf));\n        buf.push(encode_nibble(b >> 4));")], expect="C16-SIB-hex")

# ------------------------------------------------------------------ C12
m("M12a_filters_tail", ["C12"], [("pdf/src/object/stream.rs", "resolve.get_data_or_decode(id, file_range.clone(), &self.info.filters)", "resolve.get_data_or_decode(id, file_range.clone(), &self.info.filters[self.info.filters.len().min(1) - self.info.filters.len().min(1) ..])")],
  expect="C12-PROV", note="(artificial slice expression) filters no longer the whole list")
m("M12b_skip_downcast", ["C12"], [("pdf/src/any.rs", "        if TypeId::of::<T>() == self.0.type_id() {\n            unsafe {\n                let raw: *const (dyn AnyObject+Sync+Send) = Arc::into_raw(self.0);",
   "        if TypeId::of::<T>() == self.0.type_id() || std::mem::size_of::<T>() == self.0.size() {\n            unsafe {\n                let raw: *const (dyn AnyObject+Sync+Send) = Arc::into_raw(self.0);")],
  expect="C12-G3", note="type confusion for equally sized types")
m("M12c_nocache_memo", ["C12"], [("pdf/src/file.rs", "    fn get_or_compute(&self, _key: PlainRef, compute: impl FnOnce() -> T) -> T {\n        compute()\n    }",
   "    fn get_or_compute(&self, _key: PlainRef, compute: impl FnOnce() -> T) -> T {\n        let v = compute();\n        if _key.id == u64::MAX { return v.clone(); }\n        v\n    }")],
  expect=None, note="behaviour-preserving variant: must stay SILENT (false-alarm control)")
m("M12d_adapter_key", ["C12"], [("pdf/src/file.rs", "        self.get(key, compute)\n", "        self.get(PlainRef { id: key.id, gen: 0 }, compute)\n")], expect="C12-G2", note="generation dropped from the cache key")
m("M12e_update_no_clear", ["C12", "C09"], [("pdf/src/file.rs", "        // objects loaded before the write must not be served from the cache any more\n        self.cache.clear();\n", "")], expect="PAIR")
m("M12f_mismatch_is_error", ["C12"], [("pdf/src/file.rs", "                    Err(_) => {\n                        let p = self.resolve(key)?;\n                        Ok(RcRef::new(key, T::from_primitive(p, self)?.into()))\n                    }",
   "                    Err(e) => Err(e),")], expect="C12-G1", note="needs two typed loads of one reference as different types, cached")

# ------------------------------------------------------------------ C13
m("M13a_lock_across_load", ["C13"], [("pdf/src/file.rs", "        {\n            debug!(\"get {key:?} as {}\", std::any::type_name::<T>());\n            let mut chain = self.chain.lock().unwrap();\n            if chain.contains(&key) {\n                bail!(\"Recursive reference\");\n            }\n            if chain.len() >= MAX_LOAD_DEPTH {\n                bail!(\"objects nested too deeply\");\n            }\n            chain.push(key);\n        }\n        let _defer = Defer(|| {\n            let mut chain = self.chain.lock().unwrap();\n            assert_eq!(chain.pop(), Some(key));\n        });",
   "        debug!(\"get {key:?} as {}\", std::any::type_name::<T>());\n        let mut chain = self.chain.lock().unwrap();\n        if chain.contains(&key) {\n            bail!(\"Recursive reference\");\n        }\n        if chain.len() >= MAX_LOAD_DEPTH {\n            bail!(\"objects nested too deeply\");\n        }\n        chain.push(key);\n        let _defer = Defer(|| {\n            if let Ok(mut chain) = self.chain.try_lock() { chain.pop(); }\n        });")],
  expect="C13-LOCK1", note="guard lock held while loading: nested load self-deadlocks (does not pass tests that load nested objects)")
m("M13b_pop_after_only", ["C13"], [("pdf/src/file.rs", "        let _defer = Defer(|| {\n            let mut chain = self.chain.lock().unwrap();\n            assert_eq!(chain.pop(), Some(key));\n        });\n        \n        let mut computed = false;",
   "        let pop = || {\n            let mut chain = self.chain.lock().unwrap();\n            assert_eq!(chain.pop(), Some(key));\n        };\n        \n        let mut computed = false;"),
   ("pdf/src/file.rs", "        });\n        match res {\n            Ok(any) => {", "        });\n        pop();\n        match res {\n            Ok(any) => {")],
  expect="C13-PAIR", note="entry leaks when the reader panics inside a caught unwind; later loads of that reference report recursion")
m("M13c_object_not_sync", ["C13"], [("pdf/src/object/mod.rs", "pub trait Object: Sized + Sync + Send + 'static {", "pub trait Object: Sized + 'static {")], expect=None,
  note="does not compile (AnySync::new needs Sync+Send): engine failure expected, kept as fail-closed control")

# ------------------------------------------------------------------ C17
m("M17a_resolve_no_base", ["C17"], [("pdf/src/file.rs", "let pos = t!(self.start_offset.checked_add(pos).ok_or(PdfError::Invalid));\n                    let mut lexer",
   "let mut lexer")], expect="C17-UNITS")
m("M17b_prev_no_base", ["C17"], [("pdf/src/backend.rs", "            let pos = t!(start_offset.checked_add(prev_xref_offset).ok_or(PdfError::Invalid));\n            let mut lexer = Lexer::with_offset(t!(self.read(pos..)), pos);",
   "            let pos = prev_xref_offset;\n            let mut lexer = Lexer::with_offset(t!(self.read(pos..)), pos);")], expect="C17-UNITS", note="needs a prefixed file with an incremental update")
m("M17c_window16", ["C17"], [("pdf/src/backend.rs", "let buf = t!(self.read(..std::cmp::min(1024, self.len())));", "let buf = t!(self.read(..std::cmp::min(16, self.len())));")], expect="C17-TABLE")
m("M17d_lexer_offset0", ["C17"], [("pdf/src/file.rs", "let pos = t!(self.start_offset.checked_add(pos).ok_or(PdfError::Invalid));\n                    let mut lexer = Lexer::with_offset(t!(self.backend.read(pos ..)), pos);",
   "let abs = t!(self.start_offset.checked_add(pos).ok_or(PdfError::Invalid));\n                    let mut lexer = Lexer::with_offset(t!(self.backend.read(abs ..)), pos);")], expect="C17-UNITS", note="stream ranges of a prefixed file are shifted by the prefix length")
m("M17e_decode_rebase", ["C17"], [("pdf/src/file.rs", "        let data = self.backend.read(range)?;\n", "        let data = self.backend.read(self.start_offset + range.start .. self.start_offset + range.end)?;\n")], expect="C17-UNITS", note="absolute stream range rebased twice")
m("M17f_last_marker", ["C17"], [("pdf/src/backend.rs", "            .position(|window| window == HEADER)", "            .rposition(|window| window == HEADER)")], expect="C17-TABLE")
m("M17g_version_abs", ["C17"], [("pdf/src/file.rs", "self.backend.read(self.start_offset+1..self.start_offset+8)", "self.backend.read(1..8)")], expect="C17-UNITS", note="version string of a prefixed file read from the junk")

# ------------------------------------------------------------------ C09
m("M09a_refs_first", ["C09"], [("pdf/src/file.rs", "        match self.changes.get(&r.id) {\n            Some((p, _)) => Ok((*p).clone()),\n            None => match t!(self.refs.get(r.id)) {",
   "        match self.changes.get(&r.id) {\n            Some((p, _)) if !matches!(self.refs.get(r.id), Ok(XRef::Raw {..})) => Ok((*p).clone()),\n            _ => match t!(self.refs.get(r.id)) {")],
  expect="C09-G1", note="pending update of a directly stored object is ignored by reads until saved")
m("M09b_truncate", ["C09"], [("pdf/src/file.rs", "        let mut changes: Vec<_> = self.changes.iter().collect();\n        changes.sort_unstable_by_key(|&(id, _)| id);",
   "        if self.backend.ends_with(b\"%%EOF\") { let l = self.backend.len() - 5; self.backend.truncate(l); }\n        let mut changes: Vec<_> = self.changes.iter().collect();\n        changes.sort_unstable_by_key(|&(id, _)| id);")],
  expect="C09-G3", note="previous revision no longer an unmodified prefix")
m("M09c_no_space_after_obj", ["C09", "C04"], [("pdf/src/file.rs", "            writeln!(self.backend, \"{} {} obj\", id, gen)?;\n            primitive.serialize", "            write!(self.backend, \"{} {} obj\", id, gen)?;\n            primitive.serialize")],
  expect="ADJ", note="`1 0 obj42`: fuses for bodies starting with a regular byte")
m("M09d_startxref_abs", ["C09"], [("pdf/src/file.rs", "write!(self.backend, \"\\nstartxref\\n{}\\n%%EOF\", xref_pos).unwrap();", "write!(self.backend, \"\\nstartxref\\n{}\\n%%EOF\", xref_pos + self.start_offset).unwrap();")],
  expect="C09-UNITS", note="only wrong for files with junk before the header")
m("M09e_update_free_creates", ["C09"], [("pdf/src/file.rs", "            XRef::Promised => PlainRef { id: old.id, gen: 0 },\n            XRef::Invalid => panic!()", "            XRef::Promised => return self.create(obj),\n            XRef::Invalid => panic!()")],
  expect="C09-G2", note="fulfil of a promise returns a different reference than promised")

m("M09f_abs_positions", ["C09"], [("pdf/src/file.rs", "            let pos = self.backend.len() - self.start_offset;", "            let pos = self.backend.len();")], expect="C09-UNITS",
  note="(= defect repaired by cdfe09a) needs a source file with bytes before the header")

# ------------------------------------------------------------------ C03
m("M03a_no_tab", ["C03"], [("pdf/src/parser/lexer/mod.rs", "matches!(b, 0 | b' ' | b'\\r' | b'\\n' | b'\\t' | b'\\x0c')", "matches!(b, 0 | b' ' | b'\\r' | b'\\n' | b'\\x0c')")], expect="C03-TABLE")
m("M03b_no_f_escape", ["C03"], [("pdf/src/parser/lexer/str.rs", "                    b'f' => Some(b'\\x0c'),\n", "")], expect="C03-TABLE-str")
m("M03c_octal_2", ["C03"], [("pdf/src/parser/lexer/str.rs", "                        for _ in 0..3 {", "                        for _ in 0..2 {")], expect="C03-TABLE-str")
m("M03d_no_restore", ["C03"], [("pdf/src/parser/mod.rs", "        Err(e) => {\n            lexer.set_pos(pos);\n            Err(e)\n        }", "        Err(e) => {\n            let _ = pos;\n            Err(e)\n        }")], expect="C03-G1")
m("M03e_hex_odd", ["C03"], [("pdf/src/parser/lexer/str.rs", "            b'>' => {\n                self.back()?;\n                0\n            }", "            b'>' => return Ok(None),")], expect="C03-TABLE-hex", note="odd final digit dropped")
m("M03f_delim", ["C03"], [("pdf/src/parser/lexer/mod.rs", 'b"()<>[]{}/%".contains(b)', 'b"()<>[]/%".contains(b)')], expect="C03-TABLE", note="braces no longer delimiters")
m("M03g_string_one_more", ["C03"], [("pdf/src/parser/mod.rs", "            string_lexer.get_offset()\n        };\n        // Advance to end of string\n        lexer.offset_pos(bytes_traversed);\n        // decrypt it", "            string_lexer.get_offset() + 1\n        };\n        // Advance to end of string\n        lexer.offset_pos(bytes_traversed);\n        // decrypt it")],
  expect="C03-G3", note="swallows the byte after a literal string: only visible when no white-space follows")
m("M03h_integer_no_rollback", ["C03"], [("pdf/src/parser/mod.rs", "                check(flags, ParseFlags::INTEGER)?;\n                // We are probably in an array of numbers - it's not a reference anyway\n                lexer.set_pos(pos_bk); // (roll back the lexer first)", "                check(flags, ParseFlags::INTEGER)?;\n                // We are probably in an array of numbers - it's not a reference anyway")],
  expect="C03-G1", note="`[1 2 3]`: two integers followed by a non-R token lose the tokens")
m("M03i_key_not_decoded", ["C03"], [("pdf/src/parser/mod.rs", "let key = Name(decode_name(&token.reslice(1..))?);", "let key = token.reslice(1..).to_name()?;")], expect="C03-TABLE-tok")
m("M03j_minus_only", ["C03"], [("pdf/src/parser/lexer/mod.rs", "        if slice[0] == b'-' || slice[0] == b'+' {\n            if slice.len() < 2 {\n                return None;", "        if slice[0] == b'-' {\n            if slice.len() < 2 {\n                return None;")], expect="C03-TABLE-tok", note="+1.5 rejected as real")
m("M03k_comment_lf_only", ["C03"], [("pdf/src/parser/lexer/mod.rs", ".position(|&b| b == b'\\n' || b == b'\\r')", ".position(|&b| b == b'\\n')")], expect="C03-TABLE")

# ------------------------------------------------------------------ C04
m("M04a_list_no_space", ["C04"], [("pdf/src/primitive.rs", "    for p in parts {\n        write!(out, \" \")?;\n        p.serialize(out)?;", "    for p in parts {\n        p.serialize(out)?;")], expect="C04-ADJ")
m("M04b_no_paren_escape", ["C04"], [("pdf/src/primitive.rs", "                    b'\\\\' | b'(' | b')' => write!(out, r\"\\\")?,\n                    // a raw CR", "                    b'\\\\' | b'(' => write!(out, r\"\\\")?,\n                    // a raw CR")], expect="C04-ESC-str", note="string ending in an unbalanced ')'")
m("M04c_dict_no_space", ["C04"], [("pdf/src/primitive.rs", "            serialize_name(key, out)?;\n            write!(out, \" \")?;\n            val.serialize(out)?;", "            serialize_name(key, out)?;\n            val.serialize(out)?;")], expect="C04-ADJ", note="/Key42 fuses key and value")
m("M04d_name_hash_raw", ["C04"], [("pdf/src/primitive.rs", "b'!' ..= b'~' if b != b'#' && !b\"()<>[]{}/%\".contains(&b) =>", "b'!' ..= b'~' if !b\"()<>[]{}/%\".contains(&b) =>")], expect="C04-ESC-name", note="name containing '#'")
m("M04e_name_panic", ["C04"], [("pdf/src/primitive.rs", "            _ => write!(out, \"#{:02x}\", b)?,\n        }\n    }\n    Ok(())", "            b if b < 0x80 => write!(out, \"#{:02x}\", b)?,\n            _ => panic!(\"only ASCII\"),\n        }\n    }\n    Ok(())")], expect="C04", note="non-ASCII name panics")
m("M04f_keys_display", ["C04"], [("pdf/src/primitive.rs", "            serialize_name(key, out)?;\n            write!(out, \" \")?;", "            write!(out, \"{} \", key)?;")], expect="C04-ESC-name")
m("M04g_cr_raw", ["C04"], [("pdf/src/primitive.rs", "                    b'\\r' => {\n                        write!(out, r\"\\r\")?;\n                        continue;\n                    }\n", "")], expect="C04-ESC-str", note="string containing CR is read back with LF")
m("M04h_ref_no_space", ["C04"], [("pdf/src/primitive.rs", 'Primitive::Reference(r) =>  write!(out, "{} {} R", r.id, r.gen)?,', 'Primitive::Reference(r) =>  write!(out, "{} {}R", r.id, r.gen)?,')], expect="C04-ADJ", note="`1 0R`")

# ------------------------------------------------------------------ C08
m("M08a_tf_order", ["C08"], [("pdf/src/content.rs", '"Tf"  => push(Op::TextFont { name: name(&mut args)?, size: number(&mut args)? }),', '"Tf"  => push(Op::TextFont { size: number(&mut args)?, name: name(&mut args)? }),')], expect="C08-TABLE")
m("M08b_s_fill", ["C08"], [("pdf/src/content.rs", "                Some(Op::Stroke) => {\n                    writeln!(f, \"s\")?;", "                Some(Op::Fill { winding: Winding::NonZero }) => {\n                    writeln!(f, \"s\")?;")], expect="C08-SIB")
m("M08c_l_no_last", ["C08"], [("pdf/src/content.rs", "                push(Op::LineTo { p });\n                self.last = p;", "                push(Op::LineTo { p });")], expect="C08-G1", note="m l v sequence: v expands with the point before the line")
m("M08d_no_drain", ["C08"], [("pdf/src/content.rs", "match self.add(operator, buffer.drain(..), &mut lexer, resolve) {", "match self.add(operator, buffer.clone().into_iter(), &mut lexer, resolve) {")], expect="C08-G2", note="operands leak to the next operator")
m("M08e_td_x", ["C08"], [("pdf/src/content.rs", "[Op::MoveTextPosition { translation }, ..] if leading == -translation.y => {", "[Op::MoveTextPosition { translation }, ..] if leading == -translation.x => {")], expect="C08-SIB")
m("M08f_quote_order", ["C08"], [("pdf/src/content.rs", '                push(Op::WordSpacing { word_space: number(&mut args)? });\n                push(Op::CharSpacing { char_space: number(&mut args)? });\n                push(Op::TextNewline);',
   '                push(Op::CharSpacing { char_space: number(&mut args)? });\n                push(Op::WordSpacing { word_space: number(&mut args)? });\n                push(Op::TextNewline);')], expect="C08", note="aw ac swapped for the \" operator")
m("M08g_fstar_nonzero", ["C08"], [("pdf/src/content.rs", '"f*"  => push(Op::Fill { winding: EvenOdd }),', '"f*"  => push(Op::Fill { winding: NonZero }),')], expect="C08-TABLE")
m("M08h_do_no_space", ["C08"], [("pdf/src/content.rs", '                serialize_name(name, f)?;\n                writeln!(f, " Do")?;', '                serialize_name(name, f)?;\n                writeln!(f, "Do")?;')], expect="C08-ADJ", note="/Im1Do")
m("M08i_rg_wrong_kw", ["C08"], [("pdf/src/content.rs", 'Op::FillColor { color: Color::Rgb(rgb) } => writeln!(f, "{} rg", rgb)?,', 'Op::FillColor { color: Color::Rgb(rgb) } => writeln!(f, "{} RG", rgb)?,')], expect="C08-SIB", note="fill colour written as stroke colour")
m("M08j_linecap", ["C08"], [("pdf/src/content.rs", "                    1 => LineCap::Round,\n                    2 => LineCap::Square,", "                    2 => LineCap::Round,\n                    1 => LineCap::Square,")], expect="C08-TABLE")
m("M08k_y_c2", ["C08"], [("pdf/src/content.rs", "push(Op::CurveTo { c1, c2: p, p });", "push(Op::CurveTo { c1, c2: c1, p });")], expect="C08-TABLE", note="y's second control point")

# ------------------------------------------------------------------ C10
m("M10a_fulfil_skip_last", ["C10"], [("pdf/src/build.rs", "        for (page, promise) in self.pages.into_iter().zip(kids_promise) {", "        let n = kids_promise.len();\n        for (page, promise) in self.pages.into_iter().zip(kids_promise).take(n.saturating_sub(1).max(1)) {")],
  expect="C10-PAIR", note="documents with two or more pages lose the last page: /Kids points at an undefined object")
m("M10b_w_mismatch", ["C10"], [("pdf/src/xref.rs", "            w: vec![1, a_w, b_w],", "            w: vec![1, a_w.max(2), b_w],")], expect="C10-SIB", note="only wrong when offsets fit one byte")
m("M10c_length_other", ["C10"], [("pdf/src/object/stream.rs", '                info.insert("Length", Primitive::Integer(data.len() as _));\n                StreamInner::Pending { data: data.clone() }', '                info.insert("Length", Primitive::Integer(data.len() as i32 + self.info.filters.len() as i32));\n                StreamInner::Pending { data: data.clone() }')],
  expect="C10-PROV", note="wrong /Length only for filtered streams")
m("M10d_index_one", ["C10"], [("pdf/src/xref.rs", "            index: vec![0, size as u32],", "            index: vec![1, size as u32],")], expect="C10-SIB")
m("M10e_entries_unbounded", ["C10"], [("pdf/src/xref.rs", "        for &x in self.entries.iter().take(size) {", "        for &x in self.entries.iter() {")], expect="C10-SIB", note="more entries than /Size when promises exist beyond the xref id")
m("M10f_header", ["C10"], [("pdf/src/file.rs", 'backend: Vec::from(&b"%PDF-1.7\\n"[..]),', 'backend: Vec::from(&b"\\n%PDF-1.7\\n"[..]),')], expect="C10-G1")

# ------------------------------------------------------------------ C11
m("M11a_slice_end", ["C11"], [("pdf/src/object/stream.rs", "            first.checked_add(self.offsets[index + 1]).ok_or(PdfError::Invalid)?\n        };", "            first.checked_add(self.offsets[index]).ok_or(PdfError::Invalid)?\n        };")], expect="C11-G2")
m("M11b_stream_any_flags", ["C11"], [("pdf/src/file.rs", "                    parse(slice, resolve, flags)\n", "                    parse(slice, resolve, ParseFlags::ANY)\n")], expect="C11-SIB", note="compressed objects bypass the caller's type filter")
m("M11c_last_member", ["C11"], [("pdf/src/object/stream.rs", "let end = if index == self.offsets.len() - 1 {", "let end = if index + 1 >= self.offsets.len() - 1 {")], expect="C11-G2", note="second-to-last member extends to the end of the data")
m("M11d_length_any", ["C11"], [("pdf/src/parser/mod.rs", "t!(t!(r.resolve_flags(reference, ParseFlags::INTEGER, 1)).as_usize())", "t!(t!(r.resolve_flags(reference, ParseFlags::ANY, 1)).as_usize())")], expect="C11-G3", note="filter widened: a /Length pointing at a stream object makes the resolver parse that stream (recursion)")
m("M11e_first_dropped", ["C11"], [("pdf/src/object/stream.rs", "        let start = first.checked_add(self.offsets[index]).ok_or(PdfError::Invalid)?;", "        let start = self.offsets[index];")], expect="C11-G2")

# ------------------------------------------------------------------ C07
m("M07a_no_pos_incr", ["C07"], [("pdf/src/object/types.rs", "                    if pos == page_nr {\n                        return Ok(PageRc(node));\n                    }\n                    pos = try_opt!(pos.checked_add(1));", "                    if pos == page_nr {\n                        return Ok(PageRc(node));\n                    }")], expect="C07-G1", note="(changes single-level documents too) leaf not counted")
m("M07b_depth_not_decremented", ["C07"], [("pdf/src/object/types.rs", "return tree.page_limited(resolve, page_nr - pos, depth - 1);", "return tree.page_limited(resolve, page_nr - pos, depth);")], expect="C07-REC", note="cyclic /Kids -> stack overflow")
m("M07c_crop_field", ["C07"], [("pdf/src/object/types.rs", "                Some(b) => Ok(b),\n                None => self.media_box()\n            }", "                Some(b) => Ok(b),\n                None => self.media_box.ok_or_else(|| PdfError::MissingEntry { typ: \"Page\", field: \"MediaBox\".into() })\n            }")],
  expect="C07-G2", note="page without own boxes, media box only on an ancestor")
m("M07d_inherit_farthest", ["C07"], [("pdf/src/object/types.rs", "            (_, Some(t)) => return Ok(Some(t)),\n            (Some(ref p), None) => parent = p,\n            (None, None) => return Ok(None)",
   "            (Some(ref p), _) => parent = p,\n            (None, Some(t)) => return Ok(Some(t)),\n            (None, None) => return Ok(None)")], expect="C07-G2", note="attribute taken from the root instead of the nearest ancestor")
m("M07e_subtree_skip_no_count", ["C07"], [("pdf/src/object/types.rs", "                    let end = match pos.checked_add(tree.count) {", "                    let end = match pos.checked_add(1) {")], expect="C07-G1", note="subtrees counted as one page: only nested trees are affected")
m("M07f_num_pages_kids", ["C07"], [("pdf/src/file.rs", "        self.trailer.root.pages.count\n", "        self.trailer.root.pages.kids.len() as u32\n")], expect="C07-G3", note="nested trees")
m("M07g_cropbox_from_media", ["C07"], [("pdf/src/object/types.rs", "            None => match inherit(&self.parent, |pt| pt.crop_box)? {", "            None => match inherit(&self.parent, |pt| pt.media_box)? {")], expect="C07-G2")

# ------------------------------------------------------------------ C15
m("M15a_no_type_insert", ["C15"], [("pdf_derive/src/lib.rs", "        Some(ref name) => quote! {\n            dict.insert(\"Type\", pdf::primitive::Primitive::Name(#name.into()));\n        },", "        Some(ref name) if name.ends_with(\"__never\") => quote! {\n            dict.insert(\"Type\", pdf::primitive::Primitive::Name(#name.into()));\n        },\n        Some(_) => quote! {},")],
  expect="C15-KEYS", note="derived writers stop writing /Type")
m("M15b_other_not_base", ["C15"], [("pdf_derive/src/lib.rs", "    let init_dict = if let Some(other) = other {\n        quote! {\n            let mut dict = self.#other.clone();\n        }", "    let init_dict = if let Some(other) = other {\n        quote! {\n            let _ = &self.#other;\n            let mut dict = pdf::primitive::Dictionary::new();\n        }")],
  expect="C15-KEYS", note="catch-all entries dropped by every model that has one")
m("M15c_reader_get_not_remove", ["C15"], [("pdf_derive/src/lib.rs", "                    match dict.remove(#key) {\n                        Some(primitive) =>", "                    match dict.get(#key).cloned() {\n                        Some(primitive) =>")],
  expect="C15-KEYS", note="recognised keys stay in the catch-all and are written twice / shadow later edits")
m("M15d_enum_name_ignored", ["C15"], [("pdf_derive/src/lib.rs", "        let mut ser_code: Vec<_> = pairs\n            .iter()\n            .map(|(name, var)| {\n                quote! {\n                    #var => #name\n                }\n            })",
   "        let mut ser_code: Vec<_> = pairs\n            .iter()\n            .map(|(name, var)| {\n                let name = var.to_string().rsplit(\"::\").next().unwrap().trim().to_string();\n                let _ = name.len();\n                quote! {\n                    #var => #name\n                }\n            })")],
  expect="C15-ENUM", note="#[pdf(name=..)] ignored by the enum writer (Counter: D r R a A)")
m("M15e_action_no_s", ["C15"], [("pdf/src/object/types.rs", '                dict.insert("S", Name::from("GoTo"));\n', "")], expect="C15-KEYS-H")
m("M15f_xobject_subtype", ["C15"], [("pdf/src/object/types.rs", 'XObject::Form(s) => ("Form", s.stream.to_pdf_stream(update)?),', 'XObject::Form(s) => ("Frm", s.stream.to_pdf_stream(update)?),')], expect="C15-ENUM",
  note="form XObjects written with a /Subtype the reader does not know")
m("M15g_default_not_written", ["C15"], [("pdf_derive/src/lib.rs", "        if attrs.skip | attrs.other {\n            quote!()", "        if attrs.skip | attrs.other | attrs.default.is_some() {\n            quote!()")], expect="C15-KEYS", note="defaulted fields never written: non-default values are lost")

# ------------------------------------------------------------------ C20
m("M20a_no_xobject_arm", ["C20"], [("pdf/src/content.rs", "        Op::XObject { ref name } => {\n            if !resources.xobjects.contains_key(name) {\n                if let Some(xo) = old_resources.xobjects.get(name) {\n                    resources.xobjects.insert(name.clone(), xo.deep_clone(cloner)?);\n                }\n            }\n            Ok(Op::XObject { name: name.clone() })\n        }\n", "")], expect="C20-SIB")
m("M20b_ref_verbatim", ["C20"], [("pdf/src/object/mod.rs", "impl<T: DeepClone+Object+DataSize+ObjectWrite> DeepClone for Ref<T> {\n    fn deep_clone(&self, cloner: &mut impl Cloner) -> Result<Self> {\n        cloner.clone_ref(*self)", "impl<T: DeepClone+Object+DataSize+ObjectWrite> DeepClone for Ref<T> {\n    fn deep_clone(&self, cloner: &mut impl Cloner) -> Result<Self> {\n        let _ = &cloner;\n        Ok(*self)")],
  expect="C20-G1", note="typed references point into the source document's numbering")
m("M20c_stream_keeps_range", ["C20"], [("pdf/src/primitive.rs", "        let data = match self.inner {\n            StreamInner::InFile { id, ref file_range } => cloner.stream_data(id, file_range.clone())?,\n            StreamInner::Pending { ref data } => data.clone()\n        };\n        Ok(PdfStream {\n            info: self.info.deep_clone(cloner)?, inner: StreamInner::Pending { data }\n        })",
   "        Ok(PdfStream {\n            info: self.info.deep_clone(cloner)?, inner: self.inner.clone()\n        })")], expect="C20-G2", note="imported stream refers to a byte range of the source file")
m("M20d_memo_after", ["C20"], [("pdf/src/build.rs", "        let promise = self.updater.promise::<Primitive>();\n        let new = promise.get_inner();\n        self.map.insert(old, new);\n        let clone = obj.deep_clone(self)?;\n", "        let promise = self.updater.promise::<Primitive>();\n        let new = promise.get_inner();\n        let clone = obj.deep_clone(self)?;\n        self.map.insert(old, new);\n")],
  expect="C20-PAIR1", note="needs a reference cycle among untyped objects")
m("M20e_font_resources_from_new", ["C20"], [("pdf/src/content.rs", "                if let Some(f) = old_resources.fonts.get(name) {", "                if let Some(f) = resources.fonts.get(name).cloned().as_ref() {")], expect="C20-SIB", note="fonts never copied (looked up in the empty target)")
m("M20f_compare_inverted", ["C20"], [("pdf/src/build.rs", "        Ok(same && b_unvisited.is_empty())", "        Ok(same && !b_unvisited.is_empty())")], expect="C20-G3")
m("M20g_derive_skips_ref_fields", ["C20"], [("pdf_derive/src/lib.rs", "            quote! {\n                #field: self.#field.deep_clone(cloner)?,\n            }", "            if field.as_ref().map(|f| f == \"pattern\").unwrap_or(false) { quote! { #field: self.#field.clone(), } } else { quote! {\n                #field: self.#field.deep_clone(cloner)?,\n            } }")],
  expect="C20-G1", note="(targeted at one field) a Resources.pattern map copied verbatim keeps source references")

# ------------------------------------------------------------------ C01
m("M01a_no_depth_test", ["C01"], [
    ("pdf/src/parser/mod.rs", "        if max_depth == 0 {\n            return Err(PdfError::MaxDepth);\n        }\n        let dict = t!(parse_dictionary_object(lexer, r, ctx, max_depth-1));",
     "        let dict = t!(parse_dictionary_object(lexer, r, ctx, max_depth.saturating_sub(1)));"),
    ("pdf/src/parser/mod.rs", "        check(flags, ParseFlags::ARRAY)?;\n        if max_depth == 0 {\n            return Err(PdfError::MaxDepth);\n        }\n", "        check(flags, ParseFlags::ARRAY)?;\n"),
], expect="C01-G1", note="deeply nested [[[[...]]]] overflows the stack")
m("M01b_prev_no_seen", ["C01"], [("pdf/src/backend.rs", "            if seen.contains(&prev_xref_offset) {\n                bail!(\"xref offsets loop\");\n            }\n", "")], expect="C01-G3", note="two sections whose /Prev point at each other")
m("M01c_next_stream_index", ["C01"], [("pdf/src/parser/lexer/mod.rs", "let &b0 = self.buf.get(pos + 6).ok_or(PdfError::EOF)?;", "let b0 = self.buf[pos + 6];")], expect="C01-", note="`stream` keyword at the very end of the buffer")
m("M01d_set_pos_unclamped", ["C01"], [("pdf/src/parser/lexer/mod.rs", "let new_pos = wanted_pos.min(self.buf.len());", "let new_pos = wanted_pos;")], expect="C01-G6")
m("M01e_promised_panics", ["C01"], [("pdf/src/file.rs", "XRef::Promised => unimplemented!(),\n                XRef::Invalid => err!(PdfError::NullRef {obj_nr: r.id}),\n            }\n        }\n    }\n}\n\npub enum ScanItem",
                                      "XRef::Promised => panic!(\"promised\"),\n                XRef::Invalid => err!(PdfError::NullRef {obj_nr: r.id}),\n            }\n        }\n    }\n}\n\npub enum ScanItem")], expect="C01-PANIC")
m("M01f_to_range_end", ["C01"], [("pdf/src/backend.rs", "(None, Some(end)) if end <= len => Ok(0 .. end),", "(None, Some(end)) => Ok(0 .. end),")], expect="C01-G5")
m("M01g_pair_no_len_test", ["C01"], [("pdf/src/object/mod.rs", "        if arr.len() != 2 {\n            bail!(\"expected array of length 2 (found {})\", arr.len());\n        }\n        let [a, b]", "        let [a, b]")], expect="C01-PANIC")
m("M01h_read_n_no_clamp", ["C01"], [("pdf/src/parser/lexer/mod.rs", "        if self.pos >= self.buf.len() {\n            self.pos = self.buf.len() - 1;\n        }\n", "")], expect="C01-G6", note="stream /Length beyond the end of the file")
m("M01i_rle_index", ["C01"], [("pdf/src/enc.rs", "let b = *d.get(c + 1).ok_or(PdfError::EOF)?; // copied byte", "let b = d[c + 1]; // copied byte")], expect="C01-ACCESS", note="run-length data ending in a repeat marker")
m("M01j_unimplemented_std", ["C01"], [("pdf/src/error.rs", "macro_rules! unimplemented {\n    () => (bail!(\"Unimplemented @ {}:{}\", file!(), line!()))\n}", "macro_rules! unimplemented_ {\n    () => (bail!(\"Unimplemented @ {}:{}\", file!(), line!()))\n}")], expect="C01-PANIC", note="the crate's override is what turns unimplemented!() into Err")
m("M01k_skip_ws_no_eof", ["C01"], [("pdf/src/parser/lexer/mod.rs", "        if pos >= self.buf.len() {\n            Err(PdfError::EOF)\n        } else {\n            Ok(pos)\n        }", "        Ok(pos)")], expect=None, note="value-level: callers index buf[pos] after is_delimiter(pos) (get-based); expected to stay silent unless a caller indexes directly")

# ------------------------------------------------------------------ C14
m("M14a_get_no_chain_test", ["C14"], [("pdf/src/file.rs", "            if chain.contains(&key) {\n                bail!(\"Recursive reference\");\n            }\n", "")], expect="C14-GUARD")
m("M14b_no_max_id", ["C14"], [("pdf/src/backend.rs", "        if highest_id > MAX_ID {\n            bail!(\"too many objects\");\n        }\n", "")], expect="C14-TAINT", note="/Size 2000000000 allocates the table")
m("M14c_flate_no_row_test", ["C14"], [("pdf/src/enc.rs", "        if stride >= inp.len() {\n            // not even one complete row\n            return Ok(Vec::new());\n        }\n", "")], expect="C14-TAINT", note="vec![0; stride] for a huge /Columns")
m("M14d_widths_no_c2_test", ["C14"], [("pdf/src/font.rs", "                            if c2 < 0 || c2 as usize > MAX_CID {\n                                bail!(\"CID {} out of range\", c2);\n                            }\n", "")], expect="C14-K4", note="/W [0 2000000000 500]")
m("M14e_tree_depth_kept", ["C14"], [("pdf/src/object/types.rs", "            NameTreeNode::Intermediate(ref items) => {\n                for &tree_ref in items {\n                    let tree = r.get(tree_ref)?;\n                    tree.walk_limited(r, callback, depth - 1)?;", "            NameTreeNode::Intermediate(ref items) => {\n                for &tree_ref in items {\n                    let tree = r.get(tree_ref)?;\n                    tree.walk_limited(r, callback, depth)?;")], expect="C14-REC")
m("M14f_xref_width_test", ["C14"], [("pdf/src/parser/parse_xref.rs", "    if w0 > 8 || w1 > 8 || w2 > 8 || w0 + w1 + w2 == 0 {\n        bail!(\"invalid xref stream field widths [{} {} {}]\", w0, w1, w2);\n    }\n", "")], expect="C14-TAINT", note="division by the zero entry length")
m("M14g_keysize_unchecked", ["C14"], [("pdf/src/crypt.rs", "            if !(5..=16).contains(&key_size) {\n                err!(other!(\"invalid key length {}\", key_bits));\n            }\n", "")], expect="C14-TAINT")
m("M14h_colorspace_no_depth_test", ["C14"], [("pdf/src/object/color.rs", "        if depth == 0 {\n            bail!(\"ColorSpace base recursion\");\n        }\n", "")], expect="C14-REC", note="budget decremented but never tested")
m("M14i_page_depth_const", ["C14"], [("pdf/src/object/types.rs", "return tree.page_limited(resolve, page_nr - pos, depth - 1);", "return tree.page_limited(resolve, page_nr - pos, 16);")], expect="C14-REC", note="budget reset on every level")
m("M14j_objstm_first_unchecked", ["C14"], [("pdf/src/object/stream.rs", "let start = first.checked_add(self.offsets[index]).ok_or(PdfError::Invalid)?;", "let start = first + self.offsets[index];")], expect="C14-TAINT")

# ------------------------------------------------------------------ C19
m("M19a_hex2", ["C19"], [("pdf/src/font.rs", "write!(w, \"<{:04X}>\", cid).unwrap();", "write!(w, \"<{:02X}>\", cid).unwrap();")], expect="C19-SIB", note="codes below 256 are written with one byte and read as a different code length")
m("M19b_keyword", ["C19"], [("pdf/src/font.rs", "writeln!(buf, \"beginbfrange\").unwrap();", "writeln!(buf, \"beginbfranges\").unwrap();")], expect="C19-SIB")
m("M19c_simple_default", ["C19"], [("pdf/src/font.rs", "                    TFont { first_char: Some(first), ref widths, .. } => Ok(Some(Widths {\n                        default: 0.0,", "                    TFont { first_char: Some(first), ref widths, .. } => Ok(Some(Widths {\n                        default: 1000.0,")], expect="C19-PROV")
m("M19d_cid_default", ["C19"], [("pdf/src/font.rs", "let mut widths = Widths::new(cid.default_width);", "let mut widths = Widths::new(0.0);")], expect="C19-PROV", note="/DW ignored")
m("M19e_array_no_offset", ["C19"], [("pdf/src/font.rs", "                            for (i, w) in array.iter().enumerate() {\n                                widths.set(c1 + i, w.as_number()?);\n                            }\n                        },", "                            for (_i, w) in array.iter().enumerate() {\n                                widths.set(c1, w.as_number()?);\n                            }\n                        },")], expect="C19-PROV")
m("M19f_get_below", ["C19"], [("pdf/src/font.rs", "        if cid < self.first_char {\n            self.default\n        } else {", "        if cid < self.first_char {\n            0.0\n        } else {")], expect="C19-GET")
m("M19g_prepend_no_store", ["C19"], [("pdf/src/font.rs", "            self.first_char = cid;\n            self.values[0] = width;\n            return;", "            self.first_char = cid;\n            return;")], expect="C19-SET", note="a group below the current first code loses its own width")
m("M19h_string_form_no_step", ["C19"], [("pdf/src/font.rs", "                            if *last < 255 {\n                                *last += 1;\n                            } else {\n                                break;\n                            }", "                            if *last == 255 {\n                                break;\n                            }")], expect="C19-READ", note="every code of a string-form range maps to the first text")
m("M19i_range_exclusive", ["C19"], [("pdf/src/font.rs", "for c in c1 ..= (c2 as usize) {", "for c in c1 .. (c2 as usize) {")], expect="C19-PROV", note="`c1 c2 w` does not set c2")
m("M19j_pad_zero", ["C19"], [("pdf/src/font.rs", "self.values.extend(repeat(self.default).take(cid - self.first_char - self.values.len()));", "self.values.extend(repeat(0.0).take(cid - self.first_char - self.values.len()));")], expect="C19-SET", note="gaps read as 0 instead of /DW")


RESULTS = os.path.join(VERIF, "selftest", "results.json")


def load_results():
    try:
        return json.load(open(RESULTS))
    except Exception:
        return {}


def save_results(r):
    if os.environ.get("MUTANT_NO_SAVE"):
        return      # invoked from a registered check: nothing under /verif is rewritten except the evidence
    json.dump(r, open(RESULTS, "w"), indent=1, sort_keys=True)


def gen_patch(mu):
    files = {}
    for (fn, old, new) in mu["edits"]:
        p = os.path.join(REPO, fn)
        src = files.get(fn) or open(p).read()
        if src.count(old) != 1:
            raise SystemExit("mutant %s: pattern occurs %d times in %s: %r" % (mu["name"], src.count(old), fn, old[:60]))
        files[fn] = src.replace(old, new)
    out = ""
    for fn, newsrc in files.items():
        a = open(os.path.join(REPO, fn)).read().splitlines(keepends=True)
        b = newsrc.splitlines(keepends=True)
        out += "".join(difflib.unified_diff(a, b, "a/" + fn, "b/" + fn))
    return out


def main():
    cmd = sys.argv[1] if len(sys.argv) > 1 else "list"
    pre = sys.argv[2] if len(sys.argv) > 2 else ""
    sel = [x for x in M if x["name"].startswith(pre)]
    if cmd == "list":
        for x in sel:
            print(x["name"], x["props"], x["expect"])
    elif cmd == "gen":
        os.makedirs(OUT, exist_ok=True)
        nbad = 0
        for x in sel:
            try:
                txt = gen_patch(x)
            except SystemExit as e:
                print(e)
                nbad += 1
                continue
            with open(os.path.join(OUT, x["name"] + ".patch"), "w") as f:
                f.write(txt)
        if nbad:
            print("%d mutants no longer match the source" % nbad)
        with open(os.path.join(OUT, "index.json"), "w") as f:
            json.dump([{k: x[k] for k in ("name", "props", "expect", "note")} for x in M], f, indent=1)
        print("generated %d patches" % len(sel))
    elif cmd == "run":
        bad = 0
        res = load_results()
        from concurrent.futures import ThreadPoolExecutor

        def one(x):
            a = [os.path.join(VERIF, "bin", "mutant"), os.path.join(OUT, x["name"] + ".patch")] + x["props"]
            if x["expect"]:
                a += ["--expect-key", x["expect"]]
            r = subprocess.run(a, stdout=subprocess.PIPE, text=True)
            return x, r
        with ThreadPoolExecutor(max_workers=int(os.environ.get("MUTANT_JOBS", "6"))) as ex:
            for x, r in ex.map(one, sel):
                sys.stdout.write(r.stdout)
                bad += r.returncode != 0
                res[x["name"]] = {"props": x["props"], "expect": x["expect"], "note": x["note"], "fired": r.returncode == 0, "output": r.stdout.strip().splitlines()[-1][:400] if r.stdout.strip() else ""}
        save_results(res)
        print("mutants run=%d not-fired=%d" % (len(sel), bad))
        return 1 if bad else 0
    elif cmd == "reverts":
        fixes = json.load(open(os.path.join(VERIF, "selftest", "fixes.json")))
        res = load_results()
        bad = 0
        from concurrent.futures import ThreadPoolExecutor

        def one(e):
            pf = os.path.join(OUT, "revert_F%d.patch" % e["n"])
            if not os.path.exists(pf) or not e["revert_checks"] or not ("F%d" % e["n"]).startswith(pre or "F"):
                return e, None
            r = subprocess.run([os.path.join(VERIF, "bin", "mutant"), pf] + e["revert_checks"], stdout=subprocess.PIPE, text=True)
            return e, r
        with ThreadPoolExecutor(max_workers=int(os.environ.get("MUTANT_JOBS", "6"))) as ex:
            for e, r in ex.map(one, fixes):
                if r is None:
                    continue
                sys.stdout.write(r.stdout)
                bad += r.returncode != 0
                res["revert_F%d" % e["n"]] = {"props": e["revert_checks"], "expect": None, "note": "reverts " + e["commit"] + ": " + e["subject"], "fired": r.returncode == 0,
                                              "output": " / ".join(l[:200] for l in r.stdout.strip().splitlines())[:600]}
        save_results(res)
        print("reverts not-fired=%d" % bad)
        return 1 if bad else 0
    elif cmd == "build":
        import shutil
        import tempfile
        bad = 0
        for x in sel:
            scratch = tempfile.mkdtemp(prefix="verif-mb-")
            try:
                repo = os.path.join(scratch, "repo")
                subprocess.check_call(["rsync", "-a", "--exclude", "target", "--exclude", ".git", REPO + "/", repo + "/"])
                subprocess.check_call("find . -name '*.rs' -o -name 'Cargo.toml' | xargs touch", shell=True, cwd=repo)   # see bin/seedcheck: stale artifacts
                subprocess.check_call(["patch", "-p1", "-s", "-i", os.path.join(OUT, x["name"] + ".patch")], cwd=repo)
                env = dict(os.environ, CARGO_TARGET_DIR=os.path.join(VERIF, ".cache", "tgt-test"), CARGO_NET_OFFLINE="true")
                r = subprocess.run(["cargo", "test", "--workspace", "--no-fail-fast", "--offline"], cwd=repo, env=env,
                                   stdout=subprocess.PIPE, stderr=subprocess.STDOUT, text=True)
                passed = sum(int(l.split("ok. ")[1].split(" passed")[0]) for l in r.stdout.splitlines() if l.startswith("test result: ok."))
                failed = [l for l in r.stdout.splitlines() if l.startswith("test result: FAILED") or l.startswith("error")]
                ok = passed == 34 and not failed
                print("BUILD %s: %s (passed=%d)" % (x["name"], "ok" if ok else "NOT-OK " + "; ".join(failed[:3]), passed))
                bad += not ok
            finally:
                shutil.rmtree(scratch, ignore_errors=True)
        return 1 if bad else 0


if __name__ == "__main__":
    sys.exit(main() or 0)
