"""Flow-insensitive intraprocedural value provenance (A3).

`Flow(body)` indexes every definition of every local.  `origins(local)` is the backward closure
over copies, moves, borrows, casts, field / downcast projections and the transparent calls
listed in PASS (the `?` desugaring, Deref, clone, iterator adapters …): the set of *atoms*
(calls, constants, arguments, aggregates, binary operations) a value can derive from.
`reaches(local)` is the forward closure (which locals / call arguments a value flows into).
"""
from facts import calls, callee_name

# calls that hand their first argument (or receiver) through unchanged as far as provenance
# is concerned
PASS_LAST = (
    "clone", "deref", "deref_mut", "as_ref", "as_mut", "borrow", "borrow_mut", "into", "from",
    "as_slice", "as_mut_slice", "to_owned", "to_vec", "as_str", "as_bytes", "into_iter", "iter",
    "iter_mut", "unwrap", "expect", "unwrap_or", "unwrap_or_default", "unwrap_or_else", "copied",
    "cloned", "branch", "from_residual", "ok_or", "ok_or_else", "ok", "map_err", "as_deref",
    "as_deref_mut", "enumerate", "rev", "peekable", "by_ref", "take", "skip", "get", "get_mut",
    "must_use", "into_boxed_slice", "into_vec", "as_ptr", "to_string", "into_inner", "new_unchecked",
    "get_unchecked", "index", "index_mut", "first", "last", "and_then", "map", "filter", "zip",
    "chain", "next", "unwrap_unchecked", "try_into", "try_from", "as_array", "as_integer",
    "as_usize", "as_u32", "as_u8", "as_number", "as_name", "as_string", "as_dictionary",
    # arithmetic helpers: the result derives from both operands
    "checked_add", "checked_sub", "checked_mul", "checked_div", "wrapping_add", "wrapping_sub",
    "wrapping_mul", "saturating_add", "saturating_sub", "saturating_mul", "min", "max", "clamp",
    "overflowing_add", "overflowing_sub", "pow", "abs", "unsigned_abs",
    # lexeme -> number conversion of the lexer (Substr::to::<T>)
    "to",
    # collection building: the result derives from the elements
    "collect", "from_iter", "box_assume_init_into_vec_unsafe", "into_boxed_slice", "write", "new_uninit",
)


def last_seg(name):
    # strip generic args
    n = name
    if n.endswith(">") and "::<" in n:
        n = n[: n.rindex("::<")]
    return n.split("::")[-1]


class Flow:
    def __init__(self, body):
        self.body = body
        self.defs = {}      # local -> list of ("assign", bb, rv, proj) | ("call", bb, term)
        self.uses = {}      # local -> list of ("assign", bb, tgtlocal) | ("callarg", bb, term, k)
        for bi, bb in enumerate(body["blocks"]):
            for s in bb["stmts"]:
                if s[0] != "assign":
                    continue
                tgt, rv = s[1], s[2]
                self.defs.setdefault(tgt[0], []).append(("assign", bi, rv, tgt[1:]))
                for l in rv_locals(rv):
                    self.uses.setdefault(l, []).append(("assign", bi, tgt[0], rv))
            t = bb["term"]
            if t["k"] == "call":
                if t.get("dest"):
                    self.defs.setdefault(t["dest"][0], []).append(("call", bi, t, t["dest"][1:]))
                for k, a in enumerate(t["args"]):
                    if a[0] in ("copy", "move"):
                        self.uses.setdefault(a[1][0], []).append(("callarg", bi, t, k))
                        for e in a[1][1:]:
                            if e[0] == "index":
                                self.uses.setdefault(e[1], []).append(("callarg", bi, t, k))

        # `vec![a, b]` initialises a boxed array through a raw pointer cast from the Box:
        # attribute such stores to the Box they point into
        for l, ds in list(self.defs.items()):
            if body["locals"][l]["k"] != "ptr":
                continue
            stores = [d for d in ds if d[0] == "assign" and d[3] and d[3][0][0] == "deref"]
            if not stores:
                continue
            bases = set()
            st = [l]
            seen = set()
            while st:
                x = st.pop()
                if x in seen:
                    continue
                seen.add(x)
                for d in self.defs.get(x, []):
                    if d[0] == "assign" and not d[3] and d[2][0] in ("use", "cast", "rawptr", "ref"):
                        src = d[2][1] if d[2][0] != "cast" else d[2][2]
                        pl = src[1] if d[2][0] in ("use", "cast") and src[0] in ("copy", "move") else (src if d[2][0] in ("rawptr", "ref") else None)
                        if pl is not None:
                            st.append(pl[0])
                            if body["locals"][pl[0]]["s"].startswith("std::boxed::Box<"):
                                bases.add(pl[0])
            for bse in bases:
                for d in stores:
                    self.defs.setdefault(bse, []).append(("assign", d[1], d[2], [["deref"]]))

    # ---- backward ----------------------------------------------------------
    def origins(self, local, passthrough=PASS_LAST, fields=None, stop_calls=(), at=None, cfg=None, stores=False):
        """atoms the local can derive from: ("call", name, bb, term) / ("arg", n) /
        ("const", c) / ("agg", kinddict, bb) / ("binop", op, bb) / ("other", ...).
        `fields`, if given, is a set that collects the names of fields read on the way."""
        # with at=(block index) and cfg given, a definition is considered only if its block can
        # reach the point of use (kills the flow-insensitive mixing of a later re-assignment of
        # the same variable into an earlier use)
        seen = set()
        atoms = []
        st0 = [(local, at)]
        st = _Stack(st0)
        while st:
            l, here = st.pop()
            if (l, here) in seen:
                continue
            seen.add((l, here))
            st.here = here
            ds = self.defs.get(l, [])
            if not stores and not self.body["locals"][l]["s"].startswith("std::boxed::Box<"):
                # a store *through* a reference (`(*p)[i] = x`, `(*p).f = x`) changes the pointee,
                # it does not redefine the reference (a Box owns its pointee: `vec![a, b]` initialises
                # the boxed array through the Box, so those stores do define the value)
                ds = [d for d in ds if not (d[3] and d[3][0][0] == "deref")]
            if cfg is not None and here is not None:
                ds = [d for d in ds if d[1] == here or cfg.can_reach(d[1], here)]
            if not ds:
                if 1 <= l <= self.body["argc"]:
                    atoms.append(("arg", l))
                continue
            if 1 <= l <= self.body["argc"]:
                atoms.append(("arg", l))
            for d in ds:
                if cfg is not None and here is not None:
                    st.here = d[1]
                if d[0] == "call":
                    t = d[2]
                    name = callee_name(t)
                    seg = last_seg(name)
                    atoms.append(("call", name, d[1], t))
                    if seg in passthrough and name not in stop_calls:
                        for a in t["args"]:
                            if a[0] in ("copy", "move"):
                                st.append(a[1][0])
                                self._note_fields(a[1], fields)
                            elif a[0] == "const":
                                atoms.append(("const", a[1]))
                    continue
                rv = d[2]
                k = rv[0]
                if k == "use":
                    self._push_op(rv[1], st, atoms, fields)
                elif k in ("ref", "rawptr", "discr"):
                    st.append(rv[1][0])
                    self._note_fields(rv[1], fields)
                elif k == "cast":
                    self._push_op(rv[2], st, atoms, fields)
                elif k == "binop":
                    atoms.append(("binop", rv[1], d[1], rv))
                    self._push_op(rv[2], st, atoms, fields)
                    self._push_op(rv[3], st, atoms, fields)
                elif k == "unop":
                    atoms.append(("unop", rv[1], d[1], rv))
                    self._push_op(rv[2], st, atoms, fields)
                elif k == "aggregate":
                    atoms.append(("agg", rv[1], d[1], rv))
                    for o in rv[2]:
                        self._push_op(o, st, atoms, fields)
                elif k == "repeat":
                    self._push_op(rv[1], st, atoms, fields)
                else:
                    atoms.append(("other", str(rv)[:60]))
        return atoms

    def _push_op(self, op, st, atoms, fields):
        if op[0] in ("copy", "move"):
            st.append(op[1][0])
            self._note_fields(op[1], fields)
            for e in op[1][1:]:
                if e[0] == "index":
                    pass
        elif op[0] == "const":
            atoms.append(("const", op[1]))

    @staticmethod
    def _note_fields(place, fields):
        if fields is None:
            return
        for e in place[1:]:
            if e[0] == "field":
                fields.add(e[2])
            elif e[0] == "downcast":
                fields.add("as:" + e[1])

    def resolve(self, place, depth=0):
        """field-sensitive look-through of single-definition temporaries: `(a, b).1` is b, a copy of a place is that place, `&*p` is p.
        Returns the place (list) the given place stands for, as far as that can be told by reading definitions only."""
        place = list(place)
        while depth < 24:
            depth += 1
            base = place[0]
            ds = self.defs.get(base, [])
            proj = place[1:]
            if len(ds) > 1 and len(proj) >= 2 and proj[0][0] == "downcast" and not (1 <= base <= self.body["argc"]):
                # `_0 = Ok(x)` on one path, `_0 = Err(e)` on another: `(_0 as Ok).0` can only be the x
                vd = [d for d in ds if d[0] == "assign" and not d[3] and d[2][0] == "aggregate" and d[2][1].get("k") == "adt"]
                if len(vd) == len(ds):
                    ds = [d for d in vd if d[2][1].get("variant") == proj[0][1]]
            if len(ds) != 1 or (1 <= base <= self.body["argc"]) or ds[0][0] != "assign" or ds[0][3]:
                return place
            rv = ds[0][2]
            if rv[0] == "use" and rv[1][0] in ("copy", "move"):
                place = list(rv[1][1]) + proj
                continue
            if rv[0] == "ref" and proj and proj[0][0] == "deref":
                place = list(rv[1]) + proj[1:]
                continue
            if rv[0] == "cast" and rv[1] == "IntToInt" and not proj and rv[2][0] in ("copy", "move"):
                place = list(rv[2][1])          # `n as usize`: the same number as far as its role is concerned
                continue
            if rv[0] == "aggregate" and proj and proj[0][0] == "field" and rv[1].get("k") in ("tuple", "adt", "array", "closure") and proj[0][1] < len(rv[2]) \
                    and rv[2][proj[0][1]][0] in ("copy", "move"):
                place = list(rv[2][proj[0][1]][1]) + proj[1:]
                continue
            if rv[0] == "aggregate" and len(proj) >= 2 and proj[0][0] == "downcast" and proj[1][0] == "field" and rv[1].get("k") == "adt" and \
                    rv[1].get("variant") == proj[0][1] and proj[1][1] < len(rv[2]) and rv[2][proj[1][1]][0] in ("copy", "move"):
                place = list(rv[2][proj[1][1]][1]) + proj[2:]
                continue
            return place
        return place

    def root_call(self, place, through=("branch", "deref", "as_ref", "borrow", "clone", "as_bytes", "as_slice", "into", "from", "unwrap", "expect")):
        """the one call whose result the place (field-sensitively) stands for, looking through the transparent calls in `through`:
        -> (block, terminator) or None"""
        place = list(place)
        for _ in range(12):
            r = self.resolve(place)
            ds = self.defs.get(r[0], [])
            if len(ds) == 1 and ds[0][0] == "assign" and not ds[0][3] and ds[0][2][0] == "ref" and not (1 <= r[0] <= self.body["argc"]):
                # a reference stands for what it refers to
                place = list(ds[0][2][1]) + [e for e in r[1:] if e[0] != "deref"]
                continue
            if len(ds) != 1 or ds[0][0] != "call" or (1 <= r[0] <= self.body["argc"]):
                return None
            t = ds[0][2]
            if last_seg(callee_name(t)) in through and t["args"] and t["args"][0][0] in ("copy", "move"):
                rest = []
                if last_seg(callee_name(t)) == "branch" and len(r) >= 3 and r[1][0] == "downcast" and r[1][1] == "Continue" and r[2][0] == "field":
                    # `x?`: the Continue payload is the Ok / Some payload of x
                    aty = self.body["locals"][t["args"][0][1][0]]["s"]
                    vn = "Ok" if aty.startswith("std::result::Result<") else "Some"
                    rest = [["downcast", vn, 0 if vn == "Ok" else 1], ["field", 0, "0"]] + r[3:]
                place = list(t["args"][0][1]) + rest
                continue
            return ds[0][1], t
        return None

    def origin_calls(self, local, **kw):
        return [a for a in self.origins(local, **kw) if a[0] == "call"]

    def derives_from_call(self, local, pred, **kw):
        return any(pred(a[1], a[3]) for a in self.origins(local, **kw) if a[0] == "call")

    def derives_from_arg(self, local, n=None, **kw):
        return any(a[0] == "arg" and (n is None or a[1] == n) for a in self.origins(local, **kw))

    # ---- forward -----------------------------------------------------------
    def reaches(self, local, passthrough=PASS_LAST):
        """(set of locals the value flows into, list of (bb, term, argindex) call arguments)"""
        seen = set()
        sinks = []
        st = [local]
        while st:
            l = st.pop()
            if l in seen:
                continue
            seen.add(l)
            for u in self.uses.get(l, []):
                if u[0] == "assign":
                    st.append(u[2])
                else:
                    t = u[2]
                    sinks.append((u[1], t, u[3]))
                    if last_seg(callee_name(t)) in passthrough and t.get("dest"):
                        st.append(t["dest"][0])
        return seen, sinks


class _Stack:
    """work list of (local, block-of-use); plain `append(local)` uses the current def's block"""

    def __init__(self, items):
        self.items = list(items)
        self.here = None

    def append(self, l):
        self.items.append((l, self.here))

    def pop(self):
        return self.items.pop()

    def __bool__(self):
        return bool(self.items)


def rv_locals(rv):
    out = []
    k = rv[0]

    def opl(o):
        if o[0] in ("copy", "move"):
            out.append(o[1][0])
            for e in o[1][1:]:
                if e[0] == "index":
                    out.append(e[1])
    if k == "use":
        opl(rv[1])
    elif k in ("ref", "rawptr", "discr"):
        out.append(rv[1][0])
        for e in rv[1][1:]:
            if e[0] == "index":
                out.append(e[1])
    elif k == "cast":
        opl(rv[2])
    elif k == "binop":
        opl(rv[2])
        opl(rv[3])
    elif k == "unop":
        opl(rv[2])
    elif k == "aggregate":
        for o in rv[2]:
            opl(o)
    elif k == "repeat":
        opl(rv[1])
    return out


def call_sites(body, pred):
    """[(bb, term)] for calls whose (callee name, term) satisfies pred"""
    return [(i, t) for i, t in calls(body) if pred(callee_name(t), t)]


def arg_local(t, k):
    a = t["args"][k]
    if a[0] in ("copy", "move"):
        return a[1][0]
    return None
