"""Shared driver of C01 / C14: read universe, panic census, recursion, loops (computed once per run)."""
import json
import os
import facts as F
from callgraph import CallGraph
from taint import Taint
from panics import Census, sites_of
from recursion import Rec, resolver_returns_no_reference
from termination import loop_witness

VERIF = os.path.dirname(os.path.dirname(os.path.abspath(__file__)))
TABLE = os.path.join(VERIF, "rules", "discharged.json")


def category(s):
    """which clause a site belongs to"""
    if s.kind in ("panic", "unwrap") or (s.kind == "index" and "map index" in s.reason) or "Index impl" in s.reason:
        return "explicit"
    if s.tainted or s.reason.startswith("[tainted]"):
        return "tainted"
    if s.const_index is not None:
        return "const"
    if s.kind == "assert" and s.detail.startswith("Overflow"):
        return "arith"
    return "access"      # bounds checks, slicing, slice functions, divisions, allocations by untainted values


class Run:
    def __init__(self, f):
        self.f = f
        self.cg = CallGraph(f)
        self.universe, self.parent = self.cg.read_universe()
        self.taint = Taint(f, self.cg, self.universe)
        self.taint.solve_fields([f.bodies[x] for x in sorted(self.universe)])
        self.census = Census(f, self.cg, self.taint)
        self.sites = []
        self.bodies = 0
        for bid in sorted(self.universe):
            b = f.bodies[bid]
            if any(m.startswith("derive(") for m in (b.get("mac") or [])):
                continue
            self.bodies += 1
            for s in sites_of(b):
                self.census.classify(s)
                self.sites.append(s)
        with open(TABLE) as fh:
            self.table = json.load(fh)["entries"]

    def tabled(self):
        """-> {(fn, site): entry}"""
        return {(e["fn"], e["site"], e.get("property")): e for e in self.table}

    def open_groups(self, cats):
        """open sites of the given categories grouped by (function, kind:detail)"""
        g = {}
        for s in self.sites:
            if s.status == "open" and category(s) in cats:
                g.setdefault((s.body["id"], "%s:%s" % (s.kind, s.detail)), []).append(s)
        return g

    def loops(self):
        out = []
        for bid in sorted(self.universe):
            b = self.f.bodies[bid]
            if any(m.startswith("derive(") for m in (b.get("mac") or [])):
                continue
            cfg = self.taint.cfg(b)
            for head, body in cfg.loops().items():
                k, txt = loop_witness(self.f, b, cfg, head, body, self.taint)
                out.append((b, head, k, txt))
        return out

    def recursion(self):
        r = Rec(self.f, self.universe)
        findings, accepted = r.analyse()
        return r, findings, accepted


_RUN = {}


def get_run(f):
    k = id(f)
    if k not in _RUN:
        _RUN[k] = Run(f)
    return _RUN[k]


def report_sites(ctx, run, rule, cats, prop, what):
    """every open site of the categories is covered by a table entry of this property (count not exceeded) or is a violation"""
    tab = run.tabled()
    groups = run.open_groups(cats)
    # a private helper extracted from a reviewed function inherits that function's entry: constructs of a non-public body all of
    # whose callers (transitively) belong to one reviewed function are counted against that function's entry
    callers = {}
    for x, es in run.cg.edges.items():
        if x in run.universe:
            for (c, kind, bi) in es:
                if kind in ("exact", "closure"):
                    callers.setdefault(c, set()).add(x)

    def owner(fn, site, seen=()):
        if (fn, site, prop) in tab:
            return fn
        b = run.f.bodies.get(fn)
        if b is None or fn in seen or len(seen) > 4 or (b.get("pub") and b["kind"] != "Closure"):
            return None
        cs = callers.get(fn, set())
        owners = {owner(c, site, seen + (fn,)) for c in cs}
        if len(owners) == 1 and None not in owners:
            return owners.pop()
        return None
    merged = {}
    for (fn, site), ss in groups.items():
        o = owner(fn, site) or fn
        merged.setdefault((o, site), []).extend(ss)
    groups = merged
    auto = sum(1 for s in run.sites if s.status == "auto" and category(s) in cats)
    ctx.count("%s sites discharged automatically" % what, auto)
    n_tab = 0
    for (fn, site), ss in sorted(groups.items()):
        e = tab.get((fn, site, prop))
        key = "%s#%s" % (fn, site)
        if e is not None and len(ss) <= e["count"]:
            n_tab += len(ss)
            ctx.ok(rule, key, "reviewed: " + e["reason"])
            continue
        why = ss[0].reason
        extra = ""
        if e is not None:
            extra = " (%d such sites in this function, %d reviewed)" % (len(ss), e["count"])
        ctx.bad(rule, key, "%s: %s%s" % (site, why, extra), ss[0].span, path=run.cg.path_to(run.parent, fn))
    ctx.count("%s sites covered by the reviewed table" % what, n_tab)
    # stale table entries are reported as notes (never as violations: removing a panic site is fine)
    for (fn, site, pr), e in tab.items():
        ecat = "explicit" if site.startswith(("panic:", "unwrap:")) else "access"
        mine = (ecat in cats) or ("tainted" in cats and prop == "C14")
        if pr == prop and (fn, site) not in groups and mine:
            ctx.note("reviewed entry no longer needed: %s#%s" % (fn, site))
    for s in run.sites:
        if s.status == "auto" and category(s) in cats:
            ctx.ok(rule, s.key, s.reason)
