"""Shared driver of C01 / C14: read universe, panic census, recursion, loops (computed once per run)."""
import json
import os
import facts as F
from callgraph import CallGraph
from taint import Taint
from panics import Census, sites_of
from recursion import Rec, resolver_returns_no_reference
from termination import loop_witness

VERIF = os.path.dirname(os.path.dirname(os.path.abspath(__file__)))
TABLE = os.path.join(VERIF, "rules", "discharged.json")


def category(s):
    """which clause a site belongs to"""
    if s.kind in ("panic", "unwrap") or (s.kind == "index" and "map index" in s.reason) or "Index impl" in s.reason:
        return "explicit"
    if s.tainted or s.reason.startswith("[tainted]"):
        return "tainted"
    if s.const_index is not None:
        return "const"
    if s.kind == "assert" and s.detail.startswith("Overflow"):
        return "arith"
    return "access"      # bounds checks, slicing, slice functions, divisions, allocations by untainted values


class Run:
    def __init__(self, f):
        self.f = f
        self.cg = CallGraph(f)
        self.universe, self.parent = self.cg.read_universe()
        self.taint = Taint(f, self.cg, self.universe)
        self.taint.solve_fields([f.bodies[x] for x in sorted(self.universe)])
        self.census = Census(f, self.cg, self.taint)
        self.sites = []
        self.bodies = 0
        for bid in sorted(self.universe):
            b = f.bodies[bid]
            if any(m.startswith("derive(") for m in (b.get("mac") or [])):
                continue
            self.bodies += 1
            for s in sites_of(b):
                self.census.classify(s)
                self.sites.append(s)
        with open(TABLE) as fh:
            self.table = json.load(fh)["entries"]

    def tabled(self):
        """-> {(fn, site): entry}"""
        return {(e["fn"], e["site"], e.get("property")): e for e in self.table}

    def open_groups(self, cats):
        """open sites of the given categories grouped by (function, kind:detail)"""
        g = {}
        for s in self.sites:
            if s.status == "open" and category(s) in cats:
                g.setdefault((s.body["id"], "%s:%s" % (s.kind, s.detail)), []).append(s)
        return g

    def loops(self):
        out = []
        for bid in sorted(self.universe):
            b = self.f.bodies[bid]
            if any(m.startswith("derive(") for m in (b.get("mac") or [])):
                continue
            cfg = self.taint.cfg(b)
            for head, body in cfg.loops().items():
                k, txt = loop_witness(self.f, b, cfg, head, body, self.taint)
                out.append((b, head, k, txt))
        return out

    def recursion(self):
        r = Rec(self.f, self.universe)
        findings, accepted = r.analyse()
        return r, findings, accepted


_RUN = {}


def get_run(f):
    k = id(f)
    if k not in _RUN:
        _RUN[k] = Run(f)
    return _RUN[k]


def _owner_fn(bid):
    """closures count as their enclosing function"""
    while "::{closure#" in bid:
        bid = bid[:bid.rindex("::{closure#")]
    return bid


def requirement(f, rq, entry=None):
    """machine-checked side condition of a reviewed entry -> (holds, text).  Kinds:
      ctor-only-in  {adt, variant?, fns}   values of the type (variant) are built in the listed functions only
      callers-only  {fn, callers}          every call of fn in the crate sits in one of the listed functions
      const-arg     {fn, arg}              every call of fn passes a constant as argument number arg (0-based)
      cmp-const     {fn, ops, const, min}  fn contains at least `min` comparisons of the given kinds with the constant
      guarded-by    {ops, const | (len), min, fn?}  the entry's function has `min` comparisons with the constant / a len() that dominate a site of the
                                           entry and send one outcome away from it (the guard the written reason quotes)
      calls-guarded {fn, ops, const, except?}  every call of fn is dominated, in the calling body, by a deciding comparison with the constant
      cmp-len       {fn, ops, min}         fn contains at least `min` comparisons of the given kinds in which one side is a len()
      variants-subset {producer, consumer, adt}  every variant the producer's match names has an arm in the consumer's match"""
    k = rq["kind"]
    if k == "ctor-only-in":
        bad = set()
        n = 0
        for bid, b in f.bodies.items():
            for i, j, st in F.stmts(b):
                if st[0] == "assign" and st[2][0] == "aggregate" and st[2][1].get("adt") == rq["adt"] and rq.get("variant") in (None, st[2][1].get("variant")):
                    n += 1
                    if _owner_fn(bid) not in rq["fns"]:
                        bad.add(_owner_fn(bid))
        what = rq["adt"] + ("::" + rq["variant"] if rq.get("variant") else "")
        if bad:
            return False, "%s is also built in %s" % (what, ", ".join(sorted(bad)))
        return True, "%s is built in %s only (%d sites)" % (what, ", ".join(rq["fns"]), n)
    if k in ("callers-only", "const-arg"):
        bad = set()
        n = 0
        callers_of = {}
        if k == "callers-only":
            for bid, b in f.bodies.items():
                for bi, t in F.calls(b):
                    cal = t.get("resolved") or t.get("callee")
                    if cal:
                        callers_of.setdefault(cal, set()).add(_owner_fn(bid))

        def allowed(x, depth=0, seen=()):
            """x is one of the listed callers, or a private helper all of whose callers are (an extracted function)"""
            if x in rq["callers"]:
                return True
            bx = f.bodies.get(x)
            if bx is None or bx.get("pub") or depth > 3 or x in seen:
                return False
            cs = callers_of.get(x, set()) - {x}
            return bool(cs) and all(allowed(c, depth + 1, seen + (x,)) for c in cs)
        for bid, b in f.bodies.items():
            for bi, t in F.calls(b):
                if (t.get("resolved") or t.get("callee")) == rq["fn"] or t.get("callee") == rq["fn"]:
                    n += 1
                    if k == "callers-only" and not allowed(_owner_fn(bid)):
                        bad.add(_owner_fn(bid))
                    if k == "const-arg" and t["args"][rq["arg"]][0] != "const":
                        from flow import Flow
                        l = F.op_local(t["args"][rq["arg"]])
                        ats = Flow(b).origins(l) if l is not None else []
                        if not ats or not all(a[0] == "const" for a in ats):
                            bad.add(_owner_fn(bid))
        if bad:
            return False, ("%s is also called from %s" if k == "callers-only" else "%s is called with a computed argument in %s") % (rq["fn"], ", ".join(sorted(bad)))
        if n == 0 and k == "const-arg":
            return True, "%s has no callers" % rq["fn"]
        return True, ("%s is called from %s only" % (rq["fn"], ", ".join(rq["callers"]))) if k == "callers-only" else "%s gets a constant argument at all %d call sites" % (rq["fn"], n)
    if k == "cmp-const":
        b = f.body(rq["fn"])
        if b is None:
            return False, "%s not found" % rq["fn"]
        from inline import inlined
        b = inlined(f, b)       # a check moved into a private helper counts once per call of the helper
        n = 0
        for i, j, st in F.stmts(b):
            if st[0] == "assign" and st[2][0] == "binop" and st[2][1] in rq["ops"] and rq["const"] in (F.const_int(st[2][2]), F.const_int(st[2][3])):
                n += 1
        if n < rq["min"]:
            return False, "%s compares with %d by %s only %d time(s) (reviewed: %d)" % (rq["fn"], rq["const"], "/".join(rq["ops"]), n, rq["min"])
        return True, "%s has %d %s-comparisons with %d" % (rq["fn"], n, "/".join(rq["ops"]), rq["const"])
    if k == "guarded-by":
        # the local guard a reason quotes: a comparison (with the constant, or with a len()) that dominates a site of the entry and whose
        # one outcome cannot reach it
        from flow import Flow, last_seg
        from cfg import CFG
        from panics import sites_of
        fn = rq.get("fn") or entry["fn"]
        b = f.body(fn)
        if b is None:
            return False, "%s not found" % fn
        want = entry["site"] if entry else None
        sites = [x.bb for x in sites_of(b) if want is None or "%s:%s" % (x.kind, x.detail) == want]
        if rq.get("site_fn"):
            sb = f.body(rq["site_fn"])
            sites = []          # the guard sits in another body (closure's parent): only its presence and its exit are checked
        cfg = CFG(b)
        fl = Flow(b)
        n = 0
        for i, bb in enumerate(b["blocks"]):
            t = bb["term"]
            if t["k"] != "switch":
                continue
            for st in bb["stmts"]:
                if not (st[0] == "assign" and st[2][0] == "binop" and st[2][1] in rq["ops"] and F.op_local(t["discr"]) == st[1][0]):
                    continue
                if "const" in rq:
                    hit = rq["const"] in (F.const_int(st[2][2]), F.const_int(st[2][3]))
                else:
                    cal = rq.get("call", "len")
                    hit = any(F.op_local(o) is not None and any(a[0] == "call" and last_seg(a[1]) == cal for a in fl.origins(F.op_local(o))) for o in (st[2][2], st[2][3]))
                if not hit:
                    continue
                succ = {a[1] for a in t["arms"]} | {t.get("otherwise")}
                if sites:
                    ok = any(cfg.dominates(i, sbb) and any(x is not None and x != sbb and sbb not in cfg.reachable_from(x, avoid={i}) for x in succ) for sbb in sites)
                else:
                    # one outcome leaves the function through an error return (no later block of the function's main line)
                    ok = any(x is not None and len(cfg.reachable_from(x, avoid={i})) < len(cfg.reachable_from(y, avoid={i})) for x in succ for y in succ if x != y and y is not None)
                if ok:
                    n += 1
        what = ("the constant %d" % rq["const"]) if "const" in rq else ("a length" if rq.get("call", "len") == "len" else "%s()" % rq["call"])
        if n < rq["min"]:
            return False, "%s has %d guarding %s-comparison(s) with %s in front of the site (reviewed: %d)" % (fn, n, "/".join(rq["ops"]), what, rq["min"])
        return True, "%s: %d guarding %s-comparison(s) with %s" % (fn, n, "/".join(rq["ops"]), what)
    if k == "calls-guarded":
        # every call of `fn` (outside the bodies listed in `except`) is dominated, in its own body, by a comparison with the constant one of
        # whose outcomes cannot reach the call
        from cfg import CFG
        bad = []
        n = 0
        for bid, b in f.bodies.items():
            if _owner_fn(bid) in rq.get("except", []):
                continue
            sites = [bi for bi, t in F.calls(b) if (t.get("resolved") or t.get("callee")) == rq["fn"] or t.get("callee") == rq["fn"]]
            if not sites:
                continue
            cfg = CFG(b)
            for sb in sites:
                n += 1
                ok = False
                for i, bb in enumerate(b["blocks"]):
                    t = bb["term"]
                    if t["k"] != "switch" or not cfg.dominates(i, sb):
                        continue
                    for st in bb["stmts"]:
                        if st[0] == "assign" and st[2][0] == "binop" and st[2][1] in rq["ops"] and F.op_local(t["discr"]) == st[1][0] and \
                                rq["const"] in (F.const_int(st[2][2]), F.const_int(st[2][3])):
                            succ = {a[1] for a in t["arms"]} | {t.get("otherwise")}
                            if any(x is not None and x != sb and sb not in cfg.reachable_from(x, avoid={i}) for x in succ):
                                ok = True
                if not ok:
                    bad.append(_owner_fn(bid))
        if bad:
            return False, "%s is called in %s without a preceding test against %d" % (rq["fn"], ", ".join(sorted(set(bad))), rq["const"])
        if n == 0:
            return False, "%s has no callers" % rq["fn"]
        return True, "all %d calls of %s follow a test against %d" % (n, rq["fn"], rq["const"])
    if k == "cmp-len":
        from flow import Flow, last_seg
        b = f.body(rq["fn"])
        if b is None:
            return False, "%s not found" % rq["fn"]
        from inline import inlined
        b = inlined(f, b)
        fl = Flow(b)
        n = 0
        for i, j, st in F.stmts(b):
            if st[0] == "assign" and st[2][0] == "binop" and st[2][1] in rq["ops"]:
                for o in (st[2][2], st[2][3]):
                    l = F.op_local(o)
                    if l is not None and any(a[0] == "call" and last_seg(a[1]) == "len" for a in fl.origins(l)):
                        n += 1
                        break
        if n < rq["min"]:
            return False, "%s compares with a length by %s only %d time(s) (reviewed: %d)" % (rq["fn"], "/".join(rq["ops"]), n, rq["min"])
        return True, "%s has %d %s-comparisons with a length" % (rq["fn"], n, "/".join(rq["ops"]))
    if k == "variants-subset":
        def arms_of(fn):
            b = f.body(fn)
            if b is None:
                return None
            out = set()
            for bb in b["blocks"]:
                t = bb["term"]
                if t["k"] != "switch":
                    continue
                dl = F.op_local(t["discr"])
                for st in bb["stmts"]:
                    if st[0] == "assign" and st[1] == [dl] and st[2][0] == "discr" and rq["adt"] in b["locals"][st[2][1][0]]["s"]:
                        out |= {a[0] for a in t["arms"]}
            return out
        pa, ca = arms_of(rq["producer"]), arms_of(rq["consumer"])
        if pa is None or ca is None or not pa or not ca:
            return False, "the match on %s was not found in %s / %s" % (rq["adt"], rq["producer"], rq["consumer"])
        names = {v["vi"]: v["name"] for v in f.adts.get(rq["adt"], {}).get("variants", [])}
        if pa - ca:
            return False, "%s hands out %s, which %s does not handle" % (rq["producer"], ", ".join(sorted(names.get(x, str(x)) for x in pa - ca)), rq["consumer"])
        return True, "every %s variant %s names (%d) has an arm in %s" % (rq["adt"], rq["producer"], len(pa), rq["consumer"])
    return False, "unknown requirement kind %s" % k


def report_sites(ctx, run, rule, cats, prop, what):
    """every open site of the categories is covered by a table entry of this property (count not exceeded) or is a violation"""
    tab = run.tabled()
    groups = run.open_groups(cats)
    # a private helper extracted from a reviewed function inherits that function's entry: constructs of a non-public body all of
    # whose callers (transitively) belong to one reviewed function are counted against that function's entry
    callers = {}
    for x, es in run.cg.edges.items():
        if x in run.universe:
            for (c, kind, bi) in es:
                if kind in ("exact", "closure"):
                    callers.setdefault(c, set()).add(x)

    def owner(fn, site, seen=()):
        if (fn, site, prop) in tab:
            return fn
        b = run.f.bodies.get(fn)
        if b is None or fn in seen or len(seen) > 4 or (b.get("pub") and b["kind"] != "Closure"):
            return None
        cs = callers.get(fn, set())
        owners = {owner(c, site, seen + (fn,)) for c in cs}
        if len(owners) == 1 and None not in owners:
            return owners.pop()
        return None
    merged = {}
    for (fn, site), ss in groups.items():
        o = owner(fn, site) or fn
        merged.setdefault((o, site), []).extend(ss)
    groups = merged
    auto = sum(1 for s in run.sites if s.status == "auto" and category(s) in cats)
    ctx.count("%s sites discharged automatically" % what, auto)
    n_tab = 0
    for (fn, site), ss in sorted(groups.items()):
        e = tab.get((fn, site, prop))
        key = "%s#%s" % (fn, site)
        broken = []
        if e is not None:
            for rq in e.get("requires", []):
                okq, whyq = requirement(run.f, rq, e)
                if not okq:
                    broken.append(whyq)
        if e is not None and len(ss) <= e["count"] and not broken:
            n_tab += len(ss)
            ctx.ok(rule, key, "reviewed: " + e["reason"] + ("".join(" [checked: %s]" % requirement(run.f, rq, e)[1] for rq in e.get("requires", []))))
            continue
        why = ss[0].reason
        extra = ""
        if e is not None and broken:
            extra = " - the reviewed reason (\"%s\") rests on a fact that no longer holds: %s" % (e["reason"][:160], "; ".join(broken))
        elif e is not None:
            extra = " (%d such sites in this function, %d reviewed)" % (len(ss), e["count"])
        ctx.bad(rule, key, "%s: %s%s" % (site, why, extra), ss[0].span, path=run.cg.path_to(run.parent, fn))
    ctx.count("%s sites covered by the reviewed table" % what, n_tab)
    ctx.count("side conditions of reviewed entries re-checked (constructors / callers / constant arguments)",
              sum(len(e.get("requires", [])) for (fn2, site2, pr2), e in tab.items() if pr2 == prop))
    # stale table entries are reported as notes (never as violations: removing a panic site is fine)
    for (fn, site, pr), e in tab.items():
        ecat = "explicit" if site.startswith(("panic:", "unwrap:")) else "access"
        mine = (ecat in cats) or ("tainted" in cats and prop == "C14")
        if pr == prop and (fn, site) not in groups and mine:
            ctx.note("reviewed entry no longer needed: %s#%s" % (fn, site))
    for s in run.sites:
        if s.status == "auto" and category(s) in cats:
            ctx.ok(rule, s.key, s.reason)
