"""R-REC: every cycle of the (type-instantiated) call graph over the read universe needs a witness.

Witnesses, cut from the graph in this order:
  guard   the edge is `Resolve::get::<X>` -> `<X as Object>::from_primitive`: the load runs between the
          push and the pop of `StorageResolver::get`'s chain, so re-entering the same object is an error
  budget  the callee has an integer parameter that is compared with zero on a path to an error return and
          the call passes  <caller's budget> - c  (c >= 1) in that position
  owned   what remains and contains no reference-following body (no `Resolve::resolve*`, no
          `Primitive::resolve`): the recursion walks an owned, already parsed value whose nesting the
          parser bounded
  single  a self-call whose primitive argument is the result of `Resolve::resolve*` and which sits in the
          arm of a match on `Primitive::Reference`: bounded because the crate's resolvers never return a
          reference (rule RESOLVE checks `StorageResolver::resolve_flags` for that), or whose argument is
          built from the body's own parameter (owned descent)
Anything else is reported with the cycle.
"""
import facts as F
from cfg import CFG
from flow import Flow, last_seg
from inst import Inst


def budget_params(b):
    """parameters (1-based locals) of integer type that are compared with 0 / 1 in the body"""
    out = []
    fl = None
    for k in range(1, b["argc"] + 1):
        if b["locals"][k]["s"] not in ("usize", "u32", "u8", "u16", "u64", "i32"):
            continue
        fl = fl or Flow(b)
        for i, j, s in F.stmts(b):
            if s[0] == "assign" and s[2][0] == "binop" and s[2][1] in ("Eq", "Le", "Lt", "Ge", "Gt", "Ne") and (F.const_int(s[2][3]) in (0, 1) or F.const_int(s[2][2]) in (0, 1)):
                o = s[2][2] if F.const_int(s[2][3]) in (0, 1) else s[2][3]
                l = F.op_local(o)
                if l is not None and fl.derives_from_arg(l, k):
                    # the comparison must be able to end the call without recursing: one successor of the branch
                    # reaches a return without passing a self-call -- approximated by "the block ends in a switch"
                    if b["blocks"][i]["term"]["k"] == "switch":
                        out.append(k)
                        break
        if k not in out:
            for bi, t in F.calls(b):
                if last_seg(F.callee_name(t)) == "checked_sub" and len(t["args"]) == 2 and (F.const_int(t["args"][1]) or 0) >= 1:
                    al = F.op_local(t["args"][0])
                    if al is not None and fl.derives_from_arg(al, k):
                        out.append(k)
                        break
    return out


def budget_test_before(b, fl, k, site_bb):
    """parameter k is compared with 0 / 1 in a block that dominates site_bb and ends in a switch one of whose outcomes cannot reach site_bb:
    the exhausted budget really keeps the call from happening (a test in a sibling arm, or one that only logs, does not)"""
    cfg = CFG(b)
    for i, bb in enumerate(b["blocks"]):
        t = bb["term"]
        if t["k"] != "switch" or not cfg.dominates(i, site_bb):
            continue
        for s in bb["stmts"]:
            if s[0] == "assign" and s[2][0] == "binop" and s[2][1] in ("Eq", "Le", "Lt", "Ge", "Gt", "Ne") and F.op_local(t["discr"]) == s[1][0] and \
                    (F.const_int(s[2][3]) in (0, 1) or F.const_int(s[2][2]) in (0, 1)):
                o = s[2][2] if F.const_int(s[2][3]) in (0, 1) else s[2][3]
                l = F.op_local(o)
                if l is None or not fl.derives_from_arg(l, k):
                    continue
                succ = {a[1] for a in t["arms"]} | {t.get("otherwise")}
                if any(x is not None and x != site_bb and site_bb not in cfg.reachable_from(x, avoid={i}) for x in succ):
                    return True
        # `let Some(next) = depth.checked_sub(1) else { bail!(..) }`: the None outcome of the checked decrement is the exhausted budget
        dl = F.op_local(t["discr"])
        for s in bb["stmts"]:
            if s[0] == "assign" and s[1] == [dl] and s[2][0] == "discr" and len(s[2][1]) == 1:
                ol = s[2][1][0]
                for d in fl.defs.get(ol, []):
                    if d[0] == "call" and last_seg(F.callee_name(d[2])) == "checked_sub" and len(d[2]["args"]) == 2 and (F.const_int(d[2]["args"][1]) or 0) >= 1:
                        al = F.op_local(d[2]["args"][0])
                        if al is not None and fl.derives_from_arg(al, k):
                            arms = {a[0]: a[1] for a in t["arms"]}
                            none_t = arms.get(0, t.get("otherwise"))
                            if none_t is not None and none_t != site_bb and site_bb not in cfg.reachable_from(none_t, avoid={i}):
                                return True
    return False


def decremented_from(b, fl, op, k):
    """operand derives from parameter k through a subtraction of a constant >= 1"""
    l = F.op_local(op)
    if l is None:
        return False
    for a in fl.origins(l):
        if a[0] == "binop" and a[1].startswith("Sub"):
            rv = a[3]
            c = F.const_int(rv[3])
            ll = F.op_local(rv[2])
            if c is not None and c >= 1 and ll is not None and fl.derives_from_arg(ll, k):
                return True
        if a[0] == "call" and last_seg(a[1]) in ("checked_sub", "saturating_sub"):
            t = a[3]
            c = F.const_int(t["args"][1])
            ll = F.op_local(t["args"][0])
            if c is not None and c >= 1 and ll is not None and fl.derives_from_arg(ll, k):
                return True
    return False


def decremented_in_closure(f, parent, pfl, cb, op, ku):
    """`op` (an argument of a call inside closure body cb) is  <captured variable> - c  (c >= 1), and the captured variable is the
    parent's parameter ku (captured by reference or by value)"""
    cfl = Flow(cb)
    l = F.op_local(op)
    if l is None:
        return False
    for a in cfl.origins(l):
        lhs = None
        if a[0] == "binop" and a[1].startswith("Sub") and (F.const_int(a[3][3]) or 0) >= 1:
            lhs = a[3][2]
        elif a[0] == "call" and last_seg(a[1]) in ("checked_sub", "saturating_sub") and (F.const_int(a[3]["args"][1]) or 0) >= 1:
            lhs = a[3]["args"][0]
        if lhs is None:
            continue
        # which captured variable?  follow copies back to a place  (*_1).k ...
        pl = F.op_place(lhs)
        pl = list(pl) if pl else None
        hops = 0
        while pl is not None and pl[0] != 1 and hops < 8:
            hops += 1
            ds = cfl.defs.get(pl[0], [])
            if len(ds) != 1 or ds[0][0] != "assign" or ds[0][2][0] not in ("use", "ref"):
                break
            src = F.op_place(ds[0][2][1]) if ds[0][2][0] == "use" else ds[0][2][1]
            if src is None:
                break
            pl = list(src) + pl[1:]
        if not pl or pl[0] != 1:
            continue
        idx = [e[1] for e in pl[1:] if e[0] == "field"]
        if not idx:
            continue
        k = idx[0]
        # the closure literal in the parent
        for i, j, st in F.stmts(parent):
            if st[0] == "assign" and st[2][0] == "aggregate" and st[2][1].get("k") == "closure" and st[2][1].get("closure") == cb["id"] and k < len(st[2][2]):
                cl = F.op_local(st[2][2][k])
                if cl is not None and pfl.derives_from_arg(cl, ku):
                    return True
    return False


class Rec:
    def __init__(self, f, universe):
        self.f = f
        self.universe = universe
        self.inst = Inst(f)
        for bid in sorted(universe):
            b = f.bodies[bid]
            if b["kind"] == "Closure":
                continue
            # concrete bodies as they are; generic ones with their parameters left symbolic
            self.inst.add(bid, {})
        self._flow = {}
        self._budget = {}

    def flow(self, bid):
        if bid not in self._flow:
            self._flow[bid] = Flow(self.f.bodies[bid])
        return self._flow[bid]

    def budget(self, bid):
        if bid not in self._budget:
            self._budget[bid] = budget_params(self.f.bodies[bid])
        return self._budget[bid]

    def call_term(self, via, bb):
        return self.f.bodies[via]["blocks"][bb]["term"]

    def edge_witness(self, k, e, tested):
        """'guard' | 'budget' | None for an edge e = (callee key, kind, bb, via body) out of node k.
        `tested`: some body of the component compares an integer parameter with zero (the budget test may sit
        in another body of the cycle than the decrement: `_parse_with_lexer_ctx` tests, and passes `max_depth - 1`
        to `parse_dictionary_object`, which hands it on unchanged)"""
        ck, kind, bb, via = e
        if kind == "get":
            return "guard"
        caller = self.inst.nodes[k]["body"]
        if tested:
            t = self.call_term(via, bb)
            cb = self.f.bodies[caller]
            fl = self.flow(caller)
            ints = [kk for kk in range(1, cb["argc"] + 1) if cb["locals"][kk]["s"] in ("usize", "u32", "u8", "u16", "u64")]
            for a in t["args"]:
                for ku in ints:
                    if via == caller and decremented_from(cb, fl, a, ku) and budget_test_before(cb, fl, ku, bb):
                        return "budget"
                    if via != caller and via.startswith(caller + "::{closure#") and decremented_in_closure(self.f, cb, fl, self.f.bodies[via], a, ku):
                        # the test has to come before the closure is built
                        lits = [i for i, j, st in F.stmts(cb) if st[0] == "assign" and st[2][0] == "aggregate" and st[2][1].get("k") == "closure" and st[2][1].get("closure") == via]
                        if lits and all(budget_test_before(cb, fl, ku, i) for i in lits):
                            return "budget"
        return None

    def follows(self, k, seen=None):
        """the body follows references itself, or hands its primitive to a loader that does"""
        memo = self.__dict__.setdefault("_fol", {})
        if k in memo:
            return memo[k]
        seen = seen or set()
        if k in seen:
            return False
        seen.add(k)
        n = self.inst.nodes[k]
        r = bool(n["follows"])
        if not r:
            for e in n["edges"]:
                if e[1] == "get":
                    continue
                cb = self.inst.nodes[e[0]]["body"]
                base = cb.split("::{closure")[0]
                if base.split("::")[-1] in ("from_primitive", "from_dict", "from_stream", "resolve", "from_primitive_depth") and self.follows(e[0], seen):
                    r = True
                    break
        memo[k] = r
        return r

    def analyse(self):
        """-> list of findings {key, nodes, why, cycle} and a list of accepted cycles with their witness"""
        I = self.inst
        findings = []
        accepted = []
        for comp in I.sccs():
            cs = set(comp)
            # keep only the uncut edges inside the component
            sub = {}
            cut = {"guard": 0, "budget": 0}
            tested = any(self.budget(I.nodes[k]["body"]) for k in comp)
            for k in comp:
                for e in I.nodes[k]["edges"]:
                    if e[0] not in cs:
                        continue
                    w = self.edge_witness(k, e, tested)
                    if w:
                        cut[w] += 1
                        continue
                    sub.setdefault(k, []).append(e)
            # cycles that survive the cuts
            rest = self._sccs(sub, comp)
            if not rest:
                accepted.append((sorted(comp), "all cycles pass through %s" % ", ".join("%d %s edge(s)" % (n, w) for w, n in cut.items() if n)))
                continue
            for r in rest:
                rs = set(r)
                follows = [k for k in r if self.follows(k)]
                if not follows:
                    # descent through an owned value (a Primitive, a typed model) is as deep as the value, and the parser bounds that.  A cycle
                    # of functions that work on the INPUT (a lexer, a byte slice) re-enters once per token or byte: its depth grows with the
                    # file, so it needs a budget like any other (those with one were cut above)
                    cursor = []
                    for k in r:
                        bk = self.f.bodies[I.nodes[k]["body"]]
                        for p_ in range(1, bk["argc"] + 1):
                            ty = bk["locals"][p_]["s"]
                            if "Lexer" in ty or ty in ("&[u8]", "&mut &[u8]", "&mut [u8]"):
                                cursor.append("%s (%s)" % (bk["id"], ty))
                    if cursor:
                        findings.append({"nodes": sorted(r), "why": "recursion over the input without a depth budget: %s re-enter(s) once per token / byte, the depth grows with "
                                         "the file" % ", ".join(sorted(set(cursor))[:3])})
                        continue
                    accepted.append((sorted(r), "owned descent: no body on the cycle follows a reference"))
                    continue
                if len(r) == 1:
                    k = r[0]
                    bad = []
                    for e in sub.get(k, []):
                        if e[0] != k:
                            continue
                        why = self.self_edge_ok(k, e)
                        if why is not True:
                            bad.append(why)
                    if not bad:
                        accepted.append((r, "self-calls only re-enter with the resolved value of a reference (resolvers return no reference) or with a part of the own argument"))
                        continue
                    findings.append({"nodes": r, "why": "; ".join(bad)})
                    continue
                findings.append({"nodes": sorted(r), "why": "reference-following cycle without recursion guard or budget: %s follow(s) references" % ", ".join(sorted(I.nodes[k]["body"] for k in follows)[:4])})
        return findings, accepted

    def _sccs(self, sub, nodes):
        index = {}
        low = {}
        onst = set()
        st = []
        out = []
        c = [0]

        def strong(v):
            index[v] = low[v] = c[0]
            c[0] += 1
            st.append(v)
            onst.add(v)
            for e in sub.get(v, []):
                w = e[0]
                if w not in index:
                    strong(w)
                    low[v] = min(low[v], low[w])
                elif w in onst:
                    low[v] = min(low[v], index[w])
            if low[v] == index[v]:
                comp = []
                while True:
                    w = st.pop()
                    onst.discard(w)
                    comp.append(w)
                    if w == v:
                        break
                out.append(comp)
        for v in nodes:
            if v not in index:
                strong(v)
        return [x for x in out if len(x) > 1 or any(e[0] == x[0] for e in sub.get(x[0], []))]

    def self_edge_ok(self, k, e):
        """True, or a text saying why the self-call is not bounded"""
        ck, kind, bb, via = e
        node = self.inst.nodes[k]
        bid = node["body"]
        if via != bid:
            return "self-call from a closure of %s" % bid
        b = self.f.bodies[bid]
        t = self.call_term(via, bb)
        fl = self.flow(bid)
        cfg = CFG(b)
        # which argument carries the primitive: the first one of from_primitive-like functions; look at all of them
        from_resolve = False
        for a in t["args"]:
            l = F.op_local(a)
            if l is None:
                continue
            for x in fl.origins(l):
                if x[0] == "call" and last_seg(x[1]) in ("resolve", "resolve_flags", "get") and ("Resolve" in x[1] or "Resolve" in (x[3].get("trait") or "")):
                    from_resolve = True
        prim_variants = [v["name"] for v in self.f.adts.get("primitive::Primitive", {}).get("variants", [])]

        def arm_of(variant_name, target_bb):
            """target_bb lies in the arm `variant_name` (and in no other arm) of a switch on a Primitive that dominates it"""
            vi = prim_variants.index(variant_name) if variant_name in prim_variants else None
            for i, bbk in enumerate(b["blocks"]):
                tt = bbk["term"]
                if tt["k"] != "switch" or not cfg.dominates(i, target_bb):
                    continue
                dl = F.op_local(tt["discr"])
                for s in bbk["stmts"]:
                    if s[0] == "assign" and s[1] == [dl] and s[2][0] == "discr" and "primitive::Primitive" in b["locals"][s[2][1][0]]["s"]:
                        arms = {a[0]: a[1] for a in tt["arms"]}
                        tgt = arms.get(vi)
                        if tgt is not None and (tgt == target_bb or target_bb in cfg.reachable_from(tgt, avoid={i})):
                            others = [x for v2, x in arms.items() if v2 != vi] + [tt["otherwise"]]
                            if not any(o is not None and o != tgt and target_bb in cfg.reachable_from(o, avoid={i}) for o in others):
                                return True
            return False
        if not from_resolve:
            carriers = ("primitive::Primitive", "primitive::Dictionary", "primitive::PdfStream")
            prim_args = [k2 for k2, ty in enumerate(t["arg_tys"]) if any(c in ty["s"] for c in carriers)]
            if not prim_args:
                # descent over the typed model: the re-entered call works on a part of the own (already loaded, finite) value
                return True
            # the argument is a primitive.  This body follows references (the caller established that), so a part of the own argument -
            # which may itself be a reference - is resolved by the re-entered call: `<< /D 5 0 R >>` as object 5 walks in a circle.
            # Bounded only if the argument is built here as a definite non-reference variant whose arm does not re-enter.
            for k2 in prim_args:
                l = F.op_local(t["args"][k2])
                ds = fl.defs.get(l, []) if l is not None else []
                aggs = [d for d in ds if d[0] == "assign" and d[2][0] == "aggregate" and d[2][1].get("adt") == "primitive::Primitive"]
                vs = {d[2][1].get("variant") for d in aggs}
                if len(vs) != 1 or len(aggs) != len(ds) or "Reference" in vs:
                    return "%s resolves a reference and re-enters itself with a part of the resolved value (which may be a reference again)" % bid
                v = vs.pop()
                selfcalls = [e2[2] for e2 in node["edges"] if e2[0] == k and e2[3] == bid]
                if any(arm_of(v, sc) for sc in selfcalls):
                    return "%s re-enters itself with a %s, whose arm re-enters again" % (bid, v)
            return True
        # the call must sit in the arm of a switch on the discriminant of a Primitive whose value is Reference
        if arm_of("Reference", bb):
            return True
        return "%s re-enters itself with a resolved value outside a `Primitive::Reference` arm" % bid


def resolver_returns_no_reference(f):
    """RESOLVE: every crate impl of Resolve::resolve_flags either cannot succeed (returns Err on every path:
    NoResolve) or follows a reference result with a decremented budget.  -> list of (impl body, verdict, ok)"""
    out = []
    for im in f.impls:
        if im.get("trait") != "object::Resolve":
            continue
        items = dict(im["items"])
        bid = items.get("resolve_flags")
        if bid is None or bid not in f.bodies:
            out.append((im["id"], "no resolve_flags body", False))
            continue
        b = f.bodies[bid]
        fl = Flow(b)
        cfg = CFG(b)
        # returns: aggregates Ok(..) stored to _0, or _0 assigned from a call result
        oks = [i for i, j, s in F.stmts(b) if s[0] == "assign" and s[1] == [0] and s[2][0] == "aggregate" and s[2][1].get("variant") == "Ok"]
        calls0 = [(bi, t) for bi, t in F.calls(b) if t.get("dest") == [0]]
        if not oks and not calls0:
            out.append((bid, "cannot succeed (no Ok is ever returned)", True))
            continue
        deleg = [(bi, t) for bi, t in calls0 if (t.get("trait") == "object::Resolve" and last_seg(F.callee_name(t)) in ("resolve_flags", "resolve"))]
        if not oks and deleg and len(deleg) == len(calls0):
            out.append((bid, "hands the request to another resolver and returns its answer unchanged", True))
            continue
        self_calls = [(bi, t) for bi, t in F.calls(b) if F.callee_name(t) == bid or t.get("resolved") == bid]
        bps = budget_params(b)
        vi = None
        for vidx, v in enumerate(f.adts.get("primitive::Primitive", {}).get("variants", [])):
            if v["name"] == "Reference":
                vi = vidx
        verdict = None
        good = False
        if self_calls and bps:
            dec = all(any(decremented_from(b, fl, t["args"][kp - 1], kp) for kp in bps if kp - 1 < len(t["args"])) for bi, t in self_calls)
            # every Ok(..) return is outside the Reference arm of a switch on the resolved primitive
            sw_ok = False
            for i, bbk in enumerate(b["blocks"]):
                tt = bbk["term"]
                if tt["k"] != "switch":
                    continue
                dl = F.op_local(tt["discr"])
                for s in bbk["stmts"]:
                    if s[0] == "assign" and s[1] == [dl] and s[2][0] == "discr" and "primitive::Primitive" in b["locals"][s[2][1][0]]["s"]:
                        arms = {a[0]: a[1] for a in tt["arms"]}
                        tgt = arms.get(vi)
                        if tgt is None:
                            continue
                        in_ref = cfg.reachable_from(tgt, avoid={i})
                        if all(o not in in_ref for o in oks) and all(cfg.dominates(i, o) for o in oks) and all(bi in in_ref for bi, t in self_calls):
                            sw_ok = True
            good = dec and sw_ok
            verdict = "follows a reference result with budget %s (decremented=%s, Ok only outside the Reference arm=%s)" % (bps, dec, sw_ok)
        else:
            verdict = "returns a resolved value without looking whether it is a reference (self-calls=%d, budget=%s)" % (len(self_calls), bps)
        out.append((bid, verdict, good))
    return out
