"""Check context: obligations, violations, known findings, evidence, exit status."""
import json
import os
import sys
import time

VERIF = os.path.dirname(os.path.dirname(os.path.abspath(__file__)))
EVID = os.environ.get("VERIF_EVIDENCE_DIR", os.path.join(VERIF, "evidence"))
KNOWN = os.path.join(VERIF, "known_findings.json")


def load_known():
    with open(KNOWN) as f:
        return json.load(f)


class Ctx:
    def __init__(self, prop, tier, seed):
        self.prop = prop
        self.tier = tier
        self.seed = seed
        self.t0 = time.time()
        self.obligations = []      # (rule, instance, ok, detail)
        self.violations = []       # dict(rule,key,msg,where,path)
        self.known_hit = []
        self.floors = []
        self.analysed = {}
        self.notes = []
        self.assumptions = []
        self.rules = {}
        kf = load_known()
        self.known = {e["key"]: e for e in kf.get("known", []) if e["property"] == prop}
        self.fixed = [e for e in kf.get("fixed", []) if e["property"] == prop]

    # ---- recording -------------------------------------------------------
    def rule(self, rid, text):
        """declare a rule (id + the statement applied) for the evidence"""
        self.rules[rid] = text

    def ok(self, rule, instance, detail=""):
        self.obligations.append((rule, instance, True, detail))

    def bad(self, rule, key, msg, where="", path=None, instance=None):
        """a violated obligation.  key identifies the construct (no line numbers)."""
        full = "%s@%s" % (rule, key)
        self.obligations.append((rule, instance or key, False, msg))
        if full in self.known:
            if full not in [k for k, _ in self.known_hit]:
                self.known_hit.append((full, self.known[full]["what"]))
            return
        self.violations.append({"rule": rule, "key": full, "msg": msg, "where": where,
                                "path": path or []})

    def check(self, cond, rule, key, msg_bad, where="", detail="", path=None):
        if cond:
            self.ok(rule, key, detail)
        else:
            self.bad(rule, key, msg_bad, where, path)
        return cond

    def floor(self, rule, count, floor, what):
        """fail closed if fewer instances than confirmed by reading were found"""
        self.floors.append({"rule": rule, "found": count, "floor": floor, "what": what})
        if count < floor:
            self.violations.append({
                "rule": rule, "key": "%s@anchor-lost" % rule, "where": "",
                "msg": "lost anchor: %s — found %d, floor %d (a rule that matches nothing "
                       "passes vacuously; rename/rewrite of the anchored construct?)"
                       % (what, count, floor), "path": []})
            return False
        return True

    def lost(self, rule, what):
        self.floors.append({"rule": rule, "found": 0, "floor": 1, "what": what})
        self.violations.append({"rule": rule, "key": "%s@anchor-lost" % rule, "where": "",
                                "msg": "lost anchor: %s" % what, "path": []})

    def note(self, s):
        self.notes.append(s)

    def count(self, k, n=1):
        self.analysed[k] = self.analysed.get(k, 0) + n

    # ---- finishing -------------------------------------------------------
    def finish(self, explanation, trusted, samples_extra=None):
        n_ob = len(self.obligations)
        n_ok = sum(1 for o in self.obligations if o[2])
        by_rule = {}
        for r, inst, ok, d in self.obligations:
            e = by_rule.setdefault(r, {"instances": 0, "held": 0})
            e["instances"] += 1
            e["held"] += 1 if ok else 0
        print("== %s (%s) ==" % (self.prop, self.tier))
        for k, v in sorted(self.analysed.items()):
            print("analysed %-28s %s" % (k, v))
        for r in sorted(by_rule):
            e = by_rule[r]
            print("rule %-14s instances=%-4d held=%-4d  %s" %
                  (r, e["instances"], e["held"], self.rules.get(r, "")[:100]))
        for f in self.floors:
            print("floor %-14s found=%d floor=%d (%s)" % (f["rule"], f["found"], f["floor"], f["what"]))
        for n in self.notes:
            print("note: " + n)
        for key, what in self.known_hit:
            print("KNOWN-FINDING: property=%s %s [%s]" % (self.prop, what, key))
        for key in self.known:
            if key not in [k for k, _ in self.known_hit]:
                print("note: listed known finding not re-derived on this tree: %s" % key)
        os.makedirs(EVID, exist_ok=True)
        vio_dir = os.path.join(EVID, "violations")
        replay_paths = []
        if self.violations:
            os.makedirs(vio_dir, exist_ok=True)
            p = os.path.join(vio_dir, "%s.json" % self.prop)
            with open(p, "w") as f:
                json.dump({"property": self.prop, "violations": self.violations}, f, indent=1)
            for v in self.violations:
                print("violation: rule=%s key=%s at %s: %s" % (v["rule"], v["key"], v["where"], v["msg"]))
                for step in v.get("path", []):
                    print("    via " + str(step))
            print("VIOLATION property=%s replay=%s" % (self.prop, p))
            replay_paths.append(p)
        else:
            stale = os.path.join(vio_dir, "%s.json" % self.prop)
            if os.path.exists(stale):
                os.remove(stale)
        samples = []
        seen_rules = set()
        for r, inst, ok, d in self.obligations:
            if r not in seen_rules or not ok:
                seen_rules.add(r)
                samples.append({"rule": r, "instance": inst, "held": ok, "detail": d})
            if len(samples) >= 60:
                break
        if samples_extra:
            samples.extend(samples_extra)
        ev = {
            "property_id": self.prop,
            "tier": self.tier,
            "seed": self.seed,
            "level": "other",
            "coverage": {
                "explanation": explanation,
                "obligations": n_ob,
                "discharged": n_ok,
                "rules": self.rules,
                "by_rule": by_rule,
                "floors": self.floors,
                "analysed": self.analysed,
                "known_findings_rederived": [k for k, _ in self.known_hit],
                "fixed_history": [e.get("entry") for e in self.fixed],
                "samples": samples,
                "trusted_base": trusted,
                "checker_cmd": "./bin/check %s --tier %s" % (self.prop, self.tier),
                "notes": self.notes,
                "exhaustive": False,
            },
            "assumptions": self.assumptions + trusted,
            "wall_s": round(time.time() - self.t0, 2),
            "violations": len(self.violations),
        }
        with open(os.path.join(EVID, "%s.json" % self.prop), "w") as f:
            json.dump(ev, f, indent=1)
        print("obligations=%d held=%d known=%d violations=%d wall=%.1fs" %
              (n_ob, n_ok, len(self.known_hit), len(self.violations), time.time() - self.t0))
        return 1 if self.violations else 0
