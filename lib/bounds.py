"""Upper bounds of integer values and slice lengths, read off the program text (A3/A4 helper).

`None` means "no bound visible" (top).  The lattice is deliberately tiny: constants, `min` with a
constant, sums of bounded values, fixed-size arrays, `x[..end]` / `x[a..end]` slicing, and
slice-returning functions of the crate (summarised from their return value).
"""
import re
from flow import Flow, last_seg

COPYISH = ("deref", "deref_mut", "as_ref", "as_mut", "borrow", "borrow_mut", "as_slice", "as_mut_slice",
           "into", "from", "clone", "unwrap", "expect", "branch", "from_residual", "must_use")


def _join(vals):
    if not vals:
        return None
    if any(v is None for v in vals):
        return None
    return max(vals)


def usize_upper(f, body, local, fl=None, depth=0):
    fl = fl or Flow(body)
    if depth > 6 or local is None:
        return None
    vals = []
    direct_consts = []
    atoms = fl.origins(local, passthrough=("unwrap", "expect", "branch", "from_residual", "into", "from", "clone"))
    interesting = False
    for a in atoms:
        if a[0] == "const":
            if "int" in a[1]:
                direct_consts.append(a[1]["int"])
            continue
        if a[0] == "call":
            seg = last_seg(a[1])
            t = a[3]
            if seg == "min":
                interesting = True
                bs = []
                for op in t["args"]:
                    if op[0] == "const" and "int" in op[1]:
                        bs.append(op[1]["int"])
                    elif op[0] in ("copy", "move"):
                        bs.append(usize_upper(f, body, op[1][0], fl, depth + 1))
                known = [b for b in bs if b is not None]
                vals.append(min(known) if known else None)
            elif seg in ("unwrap", "expect", "branch", "from_residual", "into", "from", "clone"):
                continue
            else:
                vals.append(None)
        elif a[0] == "binop":
            interesting = True
            rv = a[3]
            if a[1] in ("Add", "AddWithOverflow", "AddUnchecked"):
                xs = []
                for op in (rv[2], rv[3]):
                    if op[0] == "const" and "int" in op[1]:
                        xs.append(op[1]["int"])
                    elif op[0] in ("copy", "move"):
                        xs.append(usize_upper(f, body, op[1][0], fl, depth + 1))
                vals.append(None if any(x is None for x in xs) else sum(xs))
            else:
                vals.append(None)
        elif a[0] in ("arg", "other", "agg", "unop"):
            vals.append(None)
    # a `min(x, c)` atom dominates the constants that merely flowed into it
    if interesting:
        return _join(vals)
    if vals:
        return _join(vals + direct_consts)
    return _join(direct_consts)


def slice_len_upper(f, body, local, fl=None, depth=0):
    """upper bound of the length of the slice/array reference held in `local`"""
    fl = fl or Flow(body)
    if depth > 5 or local is None:
        return None
    ty = body["locals"][local]["s"]
    m = re.match(r"&(?:mut )?\[u8; (\d+)\]$", ty)
    if m:
        return int(m.group(1))
    vals = []
    for a in fl.origins(local, passthrough=COPYISH):
        if a[0] != "call":
            if a[0] == "arg":
                vals.append(None)
            continue
        seg = last_seg(a[1])
        t = a[3]
        if seg in COPYISH:
            continue
        if seg in ("index", "index_mut") and len(t["args"]) == 2:
            rty = t["arg_tys"][1]["s"]
            rl = t["args"][1][1][0] if t["args"][1][0] in ("copy", "move") else None
            end = None
            if rl is not None and ("RangeTo<" in rty or "Range<" in rty):
                for d in fl.defs.get(rl, []):
                    if d[0] == "assign" and d[2][0] == "aggregate" and "fields" in d[2][1] and "end" in d[2][1]["fields"]:
                        op = d[2][2][d[2][1]["fields"].index("end")]
                        if op[0] == "const" and "int" in op[1]:
                            end = op[1]["int"]
                        elif op[0] in ("copy", "move"):
                            end = usize_upper(f, body, op[1][0], fl, depth + 1)
            base = t["args"][0][1][0] if t["args"][0][0] in ("copy", "move") else None
            bb = slice_len_upper(f, body, base, fl, depth + 1)
            known = [x for x in (end, bb) if x is not None]
            vals.append(min(known) if known else None)
        elif t.get("resolved_local") and f.body(t.get("resolved")) is not None:
            cb = f.body(t["resolved"])
            vals.append(slice_len_upper(f, cb, 0, None, depth + 1))
        else:
            vals.append(None)
    return _join(vals)
