"""Byte-class extraction (A6): which values of a u8 subject reach which outcome of a small body.

This is a path-sensitive dataflow analysis over the finite powerset lattice of byte values
(0..=255): the subject is only ever *compared with constants* (SwitchInt arms, `<`, `<=`, `==`
…), so the set of values that can take a branch is computed exactly by refining the set at every
such comparison.  Branches on anything else keep the set unchanged on both sides.  The result is
the partition {(value set, outcome)} of the body's normal returns (or of arbitrary stop blocks),
where the outcome is the syntactic shape of the returned value (PathSym).  No arithmetic on the
subject is evaluated.
"""
from cfg import CFG
from sym import PathSym, strip
import facts as F

FULL = frozenset(range(256))


def _is_subject(e, subj_pred):
    e0 = e
    while isinstance(e0, tuple) and e0[0] in ("deref", "ref", "cast"):
        e0 = e0[1]
    return subj_pred(e0)


def _cmp_sets(op, c):
    r = range(256)
    return {
        "Lt": frozenset(v for v in r if v < c), "Le": frozenset(v for v in r if v <= c),
        "Gt": frozenset(v for v in r if v > c), "Ge": frozenset(v for v in r if v >= c),
        "Eq": frozenset(v for v in r if v == c), "Ne": frozenset(v for v in r if v != c),
    }.get(op)


FLIP = {"Lt": "Gt", "Le": "Ge", "Gt": "Lt", "Ge": "Le", "Eq": "Eq", "Ne": "Ne"}


def classify(body, subj_pred, start=0, stops=None, start_set=FULL, max_paths=20000, prefix=None, record_cycles=False):
    """enumerate paths from `start` to returns / `stops`, refining the subject's value set.
    subj_pred(expr) decides whether a reconstructed expression denotes the subject
    (typically: it is ("arg", 1) or a deref of it).  Returns list of (frozenset, path)."""
    cfg = CFG(body)
    out = []
    stops = set(stops or [])
    stack = [(start, [start], start_set)]
    n = 0
    prefix = prefix or []
    while stack:
        node, path, S = stack.pop()
        n += 1
        if n > max_paths:
            raise RuntimeError("byteclass: path explosion in %s" % body["id"])
        blk = body["blocks"][node]
        t = blk["term"]
        if t["k"] == "return" or (node in stops and len(path) > 1) or (node in stops and node != start):
            out.append((S, path))
            continue
        succs = cfg.succ[node]
        if not succs:
            # diverging (panic/unreachable): record as a dead end
            out.append((S, path + [-1]))
            continue
        if t["k"] == "switch":
            ps = PathSym(body, prefix + path)
            e = ps.expr_of_operand(t["discr"], len(ps.events) - 1)
            arms = t["arms"]
            handled = False
            if _is_subject(e, subj_pred):
                # SwitchInt on the byte itself
                used = frozenset()
                for v, tgt in arms:
                    s2 = S & frozenset([v & 0xff])
                    used |= frozenset([v & 0xff])
                    if s2:
                        if tgt not in path:
                            stack.append((tgt, path + [tgt], s2))
                        elif record_cycles:
                            out.append((s2, path + [tgt, -2]))
                rest = S - used
                if rest:
                    if t["otherwise"] not in path:
                        stack.append((t["otherwise"], path + [t["otherwise"]], rest))
                    elif record_cycles:
                        out.append((rest, path + [t["otherwise"], -2]))
                handled = True
            elif isinstance(e, tuple) and e[0] == "binop" and e[1] in FLIP:
                a, b = e[2], e[3]
                op = e[1]
                cs = None
                if _is_subject(a, subj_pred) and b[0] == "const" and b[1] == "int":
                    cs = _cmp_sets(op, b[2])
                elif _is_subject(b, subj_pred) and a[0] == "const" and a[1] == "int":
                    cs = _cmp_sets(FLIP[op], a[2])
                if cs is not None:
                    for v, tgt in arms:
                        s2 = (S & cs) if v == 1 else (S - cs)
                        if s2 and tgt not in path:
                            stack.append((tgt, path + [tgt], s2))
                    vals = [v for v, _ in arms]
                    if 0 in vals and 1 not in vals:
                        s2 = S & cs
                    elif 1 in vals and 0 not in vals:
                        s2 = S - cs
                    else:
                        s2 = frozenset()
                    if s2 and t["otherwise"] not in path:
                        stack.append((t["otherwise"], path + [t["otherwise"]], s2))
                    handled = True
            elif isinstance(e, tuple) and e[0] == "call" and e[1].split("::")[-1].startswith("contains") and len(e[2]) == 2:
                # b"...".contains(&subject): membership in a constant byte set
                hay, needle = e[2]
                h = hay
                while isinstance(h, tuple) and h[0] in ("ref", "deref", "cast"):
                    h = h[1]
                if isinstance(h, tuple) and h[0] == "const" and h[1] == "bytes" and _is_subject(needle, subj_pred):
                    cs = frozenset(ord(c) for c in h[2])
                    for v, tgt in arms:
                        s2 = (S & cs) if v == 1 else (S - cs)
                        if s2 and tgt not in path:
                            stack.append((tgt, path + [tgt], s2))
                    vals = [v for v, _ in arms]
                    s2 = (S & cs) if (0 in vals and 1 not in vals) else ((S - cs) if (1 in vals and 0 not in vals) else frozenset())
                    if s2 and t["otherwise"] not in path:
                        stack.append((t["otherwise"], path + [t["otherwise"]], s2))
                    handled = True
            elif isinstance(e, tuple) and e[0] == "const" and e[1] in ("bool", "int"):
                v = int(e[2])
                tgt = None
                for av, at in arms:
                    if av == v:
                        tgt = at
                if tgt is None:
                    tgt = t["otherwise"]
                if tgt not in path:
                    stack.append((tgt, path + [tgt], S))
                handled = True
            if handled:
                continue
        for s in succs:
            if s in path:
                if record_cycles:
                    out.append((S, path + [s, -2]))
                continue
            stack.append((s, path + [s], S))
    return out


def outcome_partition(body, subj_pred, describe, **kw):
    """{outcome description -> set of byte values}; describe(PathSym, path) -> hashable"""
    res = {}
    for S, path in classify(body, subj_pred, **kw):
        if path[-1] == -1:
            key = "diverges"
        elif path[-1] == -2:
            ps = PathSym(body, (kw.get("prefix") or []) + path[:-2])
            key = describe(ps, path[:-1])
        else:
            ps = PathSym(body, (kw.get("prefix") or []) + path)
            key = describe(ps, path)
        res.setdefault(key, set()).update(S)
    return res


def arg_subject(n=1):
    def pred(e):
        return isinstance(e, tuple) and e[0] == "arg" and e[1] == n
    return pred


def ret_shape(ps, path):
    """shape of the returned value `_0` along the path"""
    e = ps.expr_of_local(0, len(ps.events))
    return shape(e)


def shape(e):
    e = strip(e) if isinstance(e, tuple) and e[0] in ("ref", "deref") else e
    if not isinstance(e, tuple):
        return str(e)
    if e[0] == "const":
        return "%s:%s" % (e[1], e[2])
    if e[0] == "agg":
        if e[1].endswith("::None"):
            return "None"
        if e[1].endswith("::Some"):
            return "Some"
        if e[1].endswith("::Ok"):
            inner = shape(e[2][0]) if e[2] else ""
            return "Ok(%s)" % inner
        if e[1].endswith("::Err"):
            return "Err"
        return e[1]
    if e[0] == "call":
        return "call:" + e[1]
    return e[0]


def fmt_set(s):
    """compact printable description of a byte set"""
    s = sorted(s)
    out = []
    i = 0
    while i < len(s):
        j = i
        while j + 1 < len(s) and s[j + 1] == s[j] + 1:
            j += 1
        def ch(v):
            return repr(chr(v)) if 33 <= v < 127 else str(v)
        out.append(ch(s[i]) if i == j else "%s..%s" % (ch(s[i]), ch(s[j])))
        i = j + 1
    return "{" + ", ".join(out) + "}"


def predicate_sets(body, subj_pred, **kw):
    """(true_set, false_set, other) of a bool-returning body over the subject byte; handles both
    branchy bodies (`matches!`) and straight-line comparisons (`b != b'>'`)"""
    tr, fa, other = set(), set(), set()

    def split(e, S):
        e = strip(e) if isinstance(e, tuple) and e[0] in ("ref", "deref") else e
        if isinstance(e, tuple) and e[0] == "const" and e[1] == "bool":
            return (set(S), set()) if e[2] else (set(), set(S))
        if isinstance(e, tuple) and e[0] == "unop" and e[1] == "Not":
            r = split(e[2], S)
            return None if r is None else (r[1], r[0])
        if isinstance(e, tuple) and e[0] == "binop" and e[1] in FLIP:
            a, b = e[2], e[3]
            cs = None
            if _is_subject(a, subj_pred) and b[0] == "const" and b[1] == "int":
                cs = _cmp_sets(e[1], b[2])
            elif _is_subject(b, subj_pred) and a[0] == "const" and a[1] == "int":
                cs = _cmp_sets(FLIP[e[1]], a[2])
            if cs is not None:
                return (set(S & cs), set(S - cs))
        return None
    for S, path in classify(body, subj_pred, **kw):
        if path[-1] < 0:
            other |= set(S)
            continue
        ps = PathSym(body, (kw.get("prefix") or []) + path)
        e = ps.expr_of_local(0, len(ps.events))
        r = split(e, S)
        if r is None:
            other |= set(S)
        else:
            tr |= r[0]
            fa |= r[1]
    return tr, fa, other
