"""Token adjacency and vocabulary of writers (R-ADJ, DESIGN 2.8).

The writers' emission structure is read from the *syntax tree* (astx: format literals, match arms,
loops) and joined with the *resolved program* (mirx: which function a call resolves to, which
type a `{}` placeholder displays) through the shared source position of the same expression.
Every writer is summarised as a regular expression over three byte classes taken from the
READER's own tables: W white-space, D delimiter, R regular.  Obligations:
 (a) wherever a piece that may end in R is followed by a piece that may begin with R, a W or D
     byte lies between (otherwise two tokens fuse);
 (b) every maximal run of regular bytes that appears as a literal is in the vocabulary the
     matching reader accepts.
"""
import json
import os
import re
import subprocess
import facts as F
from flow import last_seg

ANY = frozenset("WDR")


class Sum:
    __slots__ = ("first", "last", "nullable")

    def __init__(self, first=(), last=(), nullable=False):
        self.first = frozenset(first)
        self.last = frozenset(last)
        self.nullable = nullable

    def __repr__(self):
        return "Sum(first=%s,last=%s%s)" % ("".join(sorted(self.first)), "".join(sorted(self.last)), ",nullable" if self.nullable else "")

    def key(self):
        return (self.first, self.last, self.nullable)


EMPTY = Sum((), (), True)


class Ast:
    def __init__(self, repo=None, only=None):
        repo = repo or F.REPO
        self.repo = repo
        files = []
        for root, dirs, fs in os.walk(os.path.join(repo, "pdf", "src")):
            for x in sorted(fs):
                if x.endswith(".rs"):
                    p = os.path.join(root, x)
                    # only files that are modules of the crate (stray files such as path.rs are not compiled)
                    if only is None or os.path.relpath(p, repo) in only:
                        files.append(p)
        if not os.path.exists(F.ASTX):
            raise RuntimeError("astx is not built: run ./bin/setup")
        out = subprocess.run([F.ASTX] + files, stdout=subprocess.PIPE, check=True).stdout
        d = json.loads(out)
        if d["errors"]:
            raise RuntimeError("astx: %s" % d["errors"])
        self.fns = d["fns"]
        self.consts = d["consts"]
        for fn in self.fns:
            fn["rel"] = os.path.relpath(fn["file"], repo)

    def fn_for_body(self, body):
        """AST function for a MIR body: same file, same name, closest line"""
        file, ln = body["span"].split(":")[0], int(body["span"].split(":")[1])
        name = body["id"].split("::")[-1]
        cands = [x for x in self.fns if x["rel"] == file and x["name"] == name]
        cands.sort(key=lambda x: abs(x["line"] - ln))
        if (not cands or abs(cands[0]["line"] - ln) > 6) and name in getattr(self, "renames", {}):
            # other functions of the file may still carry the old name (`serialize` of several types)
            cands = [x for x in self.fns if x["rel"] == file and x["name"] == self.renames[name]]
        if not cands:
            return None
        cands.sort(key=lambda x: abs(x["line"] - ln))
        if abs(cands[0]["line"] - ln) > 6:
            return None
        return cands[0]

    def find(self, rel, name):
        r = [x for x in self.fns if x["rel"] == rel and x["name"] == name]
        if not r and name in getattr(self, "renames", {}):
            # the function was renamed (facts.Facts._apply_renames re-identified it): look for the new name
            r = [x for x in self.fns if x["rel"] == rel and x["name"] == self.renames[name]]
        return r


class Join:
    """MIR facts indexed by source position"""

    def __init__(self, f):
        self.f = f
        self.disp = {}
        self.calls = {}
        for b in f.bodies.values():
            for bi, t in F.calls(b):
                nm = F.callee_name(t)
                sp = t["span"]
                if nm.startswith("core::fmt::rt::Argument"):
                    full = t.get("callee_full", "")
                    m = re.search(r"::new_(\w+)::<(.*)>$", full)
                    if m:
                        self.disp.setdefault(sp, []).append((bi, m.group(1), m.group(2)))
                else:
                    self.calls.setdefault((sp, last_seg(nm)), []).append((b, t))

    def display_types(self, rel, line, col):
        xs = self.disp.get("%s:%d:%d" % (rel, line, col), [])
        return [(k, ty) for bi, k, ty in sorted(xs)]

    def callee(self, rel, line, col, name):
        xs = self.calls.get(("%s:%d:%d" % (rel, line, col), name), [])
        if not xs:
            # the callee was renamed in the source and re-identified under its reviewed name in the facts (facts.Facts._apply_renames):
            # the syntax tree says the new name, the facts the old one
            for o, nw in getattr(self.f, "renamed", {}).items():
                if nw.split("::")[-1] == name:
                    xs = xs or self.calls.get(("%s:%d:%d" % (rel, line, col), o.split("::")[-1]), [])
        ids = []
        for b, t in xs:
            r = t.get("resolved") if t.get("resolved_local") else None
            ids.append(r or t.get("callee"))
        return sorted(set(x for x in ids if x))


REGULAR_DISPLAY = ("i32", "u32", "i64", "u64", "usize", "isize", "u8", "u16", "i16", "f32", "f64", "bool", "&i32", "&u32", "&u64", "&usize",
                   "&f32", "&u8", "&u16", "&bool", "&i64")


class Adj:
    def __init__(self, f, ast, ws, delim, vocab=None):
        self.f = f
        self.ast = ast
        self.join = Join(f)
        self.ws = set(ws)
        self.delim = set(delim)
        self.vocab = set(vocab or [])
        self.memo = {}
        self.trees = {}
        self.cur = {}
        self.atomic = set()
        self.recording = True
        self.violations = []     # (kind, fn qual, where, message)
        self.notes = []
        self.analysed = []

    # ---- byte classes -----------------------------------------------------
    def cls(self, ch):
        o = ord(ch) if isinstance(ch, str) else ch
        if o in self.ws:
            return "W"
        if o in self.delim:
            return "D"
        return "R"

    def lit_sum(self, text):
        if not text:
            return EMPTY
        return Sum({self.cls(text[0])}, {self.cls(text[-1])}, False)

    def placeholder_sum(self, kind, ty):
        t = ty.strip()
        if kind in ("lower_hex", "upper_hex", "octal", "binary"):
            return Sum("R", "R", False)
        if t in REGULAR_DISPLAY or t.lstrip("&") in REGULAR_DISPLAY:
            return Sum("R", "R", False)
        if t.lstrip("&") in ("primitive::Name",):
            # Display of Name prints "/" + text: begins with the delimiter, ends regular (or with "/" for the empty name)
            return Sum("D", "RD", False)
        if t.lstrip("&") in ("str", "std::string::String", "istring::SmallString"):
            # arbitrary text: any class, may be empty
            return Sum(ANY, ANY, True)
        return Sum(ANY, ANY, True)

    # ---- regex tree of a function ------------------------------------------
    def tree_of(self, fn, sink_names):
        rel = fn["rel"]
        return self._node(fn["body"], rel, fn, sink_names)

    def _fmt_pieces(self, n, rel, newline):
        fmt = n.get("fmt")
        out = []
        if fmt is None:
            if newline and len([a for a in n.get("args", []) if a.strip()]) <= 1:
                return [("lit", "\n", "%s:%d" % (rel, n["line"]))]      # writeln!(out)
            return [("any", "write! without a literal format at %s:%d" % (rel, n["line"]))]
        types = self.join.display_types(rel, n["line"], n["col"])
        parts = re.split(r"(\{[^{}]*\})", fmt.replace("{{", "\x01").replace("}}", "\x02"))
        k = 0
        for p in parts:
            if p.startswith("{") and p.endswith("}"):
                if k < len(types):
                    out.append(("ph", types[k][0], types[k][1], "%s:%d" % (rel, n["line"])))
                else:
                    out.append(("ph", "display", "?", "%s:%d" % (rel, n["line"])))
                k += 1
            elif p:
                out.append(("lit", p.replace("\x01", "{").replace("\x02", "}"), "%s:%d" % (rel, n["line"])))
        if newline:
            out.append(("lit", "\n", "%s:%d" % (rel, n["line"])))
        return out

    def _node(self, n, rel, fn, sinks):
        if isinstance(n, list):
            return ("seq", [self._node(x, rel, fn, sinks) for x in n])
        if not isinstance(n, dict):
            return ("seq", [])
        k = n.get("k")
        if k == "block":
            return ("seq", [self._node(x, rel, fn, sinks) for x in n["stmts"]])
        if k == "macro":
            nm = n["name"]
            if nm in ("write", "writeln"):
                return ("seq", self._fmt_pieces(n, rel, nm == "writeln"))
            if nm in ("t", "try", "ctx"):
                return ("seq", [self._node(x, rel, fn, sinks) for x in n.get("arg_trees", [])])
            if nm in ("bail", "err", "panic", "unreachable", "unimplemented", "todo"):
                return ("diverge",)
            return ("seq", [self._node(x, rel, fn, sinks) for x in n.get("arg_trees", [])])
        if k == "match":
            pre = self._node(n["on_tree"], rel, fn, sinks)
            return ("seq", [pre, ("alt", [self._node(a["body"], rel, fn, sinks) for a in n["arms"]])])
        if k == "if":
            pre = self._node(n.get("cond_tree"), rel, fn, sinks)
            alts = [self._node(n["then"], rel, fn, sinks)]
            alts.append(self._node(n["else"], rel, fn, sinks) if n.get("else") else ("seq", []))
            return ("seq", [pre, ("alt", alts)])
        if k in ("for", "while", "loop"):
            pre = self._node(n.get("iter_tree") or n.get("cond_tree"), rel, fn, sinks)
            stmts = n["body"].get("stmts") or []
            # idiom "separator before all but the first element": `if i > 0 { write!(sep) }` as first statement
            if k == "for" and stmts and stmts[0].get("k") == "if" and not stmts[0].get("else") and \
                    re.match(r"^\w+\s*>\s*0$", (stmts[0].get("cond") or "").strip()) and \
                    re.search(r"\b%s\b" % re.escape(stmts[0]["cond"].split(">")[0].strip()), n.get("pat") or ""):
                sep = self._node(stmts[0]["then"], rel, fn, sinks)
                rest = ("seq", [self._node(x, rel, fn, sinks) for x in stmts[1:]])
                return ("seq", [pre, ("seploop", sep, rest)])
            return ("seq", [pre, ("loop", self._node(n["body"], rel, fn, sinks))])
        if k in ("return",):
            return ("seq", [self._node(n.get("e"), rel, fn, sinks), ("diverge",)])
        if k in ("break", "continue"):
            return ("seq", [])
        if k == "let":
            return ("seq", [self._node(n.get("init"), rel, fn, sinks)])
        if k in ("try", "ref", "unary", "cast", "letcond"):
            return self._node(n.get("e"), rel, fn, sinks)
        if k == "assign":
            return self._node(n.get("right"), rel, fn, sinks)
        if k == "binary":
            return ("seq", [self._node(n["l"], rel, fn, sinks), self._node(n["r"], rel, fn, sinks)])
        if k in ("tuple", "array"):
            return ("seq", [self._node(x, rel, fn, sinks) for x in n["elems"]])
        if k == "struct":
            return ("seq", [self._node(x["e"], rel, fn, sinks) for x in n["fields"]])
        if k == "closure":
            # a closure's emissions happen when it is called; treat as possibly repeated
            inner = self._node(n["body"], rel, fn, sinks)
            return ("loop", inner)
        if k in ("call", "mcall"):
            pre = []
            if k == "mcall":
                pre.append(self._node(n["recv_tree"], rel, fn, sinks))
            for a in n.get("arg_trees", []):
                pre.append(self._node(a, rel, fn, sinks))
            name = n["method"] if k == "mcall" else n["func"].split("::")[-1].strip()
            name = name.split("<")[0].strip()
            def is_sink(a):
                a = a.replace(" ", "")
                return any(a == s or a == "&mut" + s or a == "&mut*" + s or a == "&mut**" + s for s in sinks)
            sink_arg = any(is_sink(a) for a in n["args"])
            sink_recv = k == "mcall" and is_sink(n["recv"])
            writes_to_sink = sink_arg or sink_recv
            if name[:1].isupper():
                writes_to_sink = False      # enum / struct constructor, not a writer
            if name in ("write_all", "push", "extend_from_slice", "push_str", "write_str", "write_char") and sink_recv:
                lit = None
                for a in n["args"]:
                    m = re.match(r'^&?\s*b?"(.*)"$', a.strip())
                    if m:
                        lit = bytes(m.group(1), "utf-8").decode("unicode_escape")
                    m2 = re.match(r"^b?'(.*)'$", a.strip())
                    if m2:
                        lit = bytes(m2.group(1), "utf-8").decode("unicode_escape")
                if lit is not None:
                    return ("seq", pre + [("lit", lit, "%s:%d" % (rel, n["line"]))])
                return ("seq", pre + [("any", "%s(..) at %s:%d" % (name, rel, n["line"]))])
            if sink_arg:
                ids = self.join.callee(rel, n["line"], n["col"], name)
                return ("seq", pre + [("callee", ids, name, "%s:%d" % (rel, n["line"]))])
            return ("seq", pre)
        if k == "field" or k == "index":
            return ("seq", [])
        return ("seq", [])

    # ---- evaluation ---------------------------------------------------------
    def eval(self, tree, ctxname):
        k = tree[0]
        if k == "seq":
            cur = EMPTY
            where_last = None
            diverged = False
            for x in tree[1]:
                if x is None:
                    continue
                if x[0] == "diverge":
                    diverged = True
                    break
                s = self.eval(x, ctxname)
                if s is None:
                    continue
                w = self._where(x)
                if not (cur.first or cur.last) and cur.nullable and cur is EMPTY:
                    cur = s
                    where_last = w if (s.last) else where_last
                    continue
                if "R" in cur.last and "R" in s.first and self.recording:
                    self.violations.append(("adjacent", ctxname, "%s -> %s" % (where_last, w),
                                            "a piece that may end in a regular byte (%s) is directly followed by a piece that may begin with one (%s): "
                                            "the two tokens fuse when read back" % (where_last, w)))
                first = cur.first | (s.first if cur.nullable else frozenset())
                last = s.last | (cur.last if s.nullable else frozenset())
                cur = Sum(first, last, cur.nullable and s.nullable)
                if s.last:
                    where_last = w if not s.nullable else "%s|%s" % (where_last, w)
            return cur
        if k == "alt":
            subs = [self.eval(x, ctxname) for x in tree[1]]
            subs = [s for s in subs if s is not None]
            if not subs:
                return EMPTY
            return Sum(frozenset().union(*[s.first for s in subs]), frozenset().union(*[s.last for s in subs]), any(s.nullable for s in subs))
        if k == "loop":
            s = self.eval(tree[1], ctxname)
            if s is None:
                return EMPTY
            if "R" in s.last and "R" in s.first and self.recording:
                self.violations.append(("adjacent", ctxname, self._where(tree[1]),
                                        "consecutive iterations emit a regular byte directly after a regular byte (no separator between repetitions)"))
            return Sum(s.first, s.last, True)
        if k == "seploop":
            sep = self.eval(tree[1], ctxname) or EMPTY
            rest = self.eval(tree[2], ctxname) or EMPTY
            # element, separator, element, ...
            if self.recording:
                if "R" in rest.last and "R" in sep.first:
                    self.violations.append(("adjacent", ctxname, self._where(tree[2]), "an element may end in a regular byte and the separator begins with one"))
                if "R" in sep.last and "R" in rest.first:
                    self.violations.append(("adjacent", ctxname, self._where(tree[1]), "the separator ends in a regular byte and the next element may begin with one"))
                if sep.nullable and "R" in rest.last and "R" in rest.first:
                    self.violations.append(("adjacent", ctxname, self._where(tree[2]), "elements are not separated"))
            return Sum(rest.first, rest.last, True)
        if k == "lit":
            self._vocab(tree[1], tree[2], ctxname)
            return self.lit_sum(tree[1])
        if k == "ph":
            # a number is written the way the reader reads one: digits and at most one dot.  Debug / exponent formatting of a real prints
            # `1e-5` for small and large values, which is cut at the `e`
            if self.recording and tree[2].strip().lstrip("&") in ("f32", "f64") and tree[1] not in ("display",):
                self.violations.append(("number-format", ctxname, tree[3], "a real number is written with the `%s` format trait: values below 1e-4 or from 1e16 on come out in "
                                        "exponent notation, which the reader cuts at the `e`" % tree[1]))
            return self.placeholder_sum(tree[1], tree[2])
        if k == "any":
            return Sum(ANY, ANY, True)
        if k == "callee":
            ids = tree[1]
            if not ids:
                if self.recording:
                    self.notes.append("unresolved writer call %s at %s" % (tree[2], tree[3]))
                return Sum(ANY, ANY, True)
            subs = [self.summary(i) for i in ids]
            subs = [s for s in subs if s is not None]
            if not subs:
                return Sum(ANY, ANY, True)
            return Sum(frozenset().union(*[s.first for s in subs]), frozenset().union(*[s.last for s in subs]), any(s.nullable for s in subs))
        if k == "diverge":
            return None
        return EMPTY

    def _where(self, x):
        if x[0] == "lit":
            return "%r at %s" % (x[1], x[2])
        if x[0] == "ph":
            return "{%s:%s} at %s" % (x[1], x[2], x[3])
        if x[0] == "callee":
            return "%s() at %s" % (x[2], x[3])
        if x[0] == "any":
            return x[1]
        if x[0] in ("seq", "alt") and x[1]:
            for y in reversed(x[1]):
                w = self._where(y)
                if w:
                    return w
        if x[0] == "loop":
            return self._where(x[1])
        return ""

    def _vocab(self, text, where, ctxname):
        if not self.vocab:
            return
        run = ""
        # a `%` starts a comment that lasts to the end of the line: its text is not a token
        text = re.sub(r"%[^\r\n]*", " ", text)
        for ch in text + " ":
            if self.cls(ch) == "R":
                run += ch
            else:
                if run and not self._word_ok(run) and self.recording:
                    self.violations.append(("vocabulary", ctxname, where,
                                            "the literal %r contains the regular-character run %r, which is not a token the reader knows" % (text, run)))
                run = ""

    def _word_ok(self, w):
        if w in self.vocab:
            return True
        if re.fullmatch(r"[+-]?\d*\.?\d*", w):
            return True
        return False

    # ---- global fixpoint over all writers reachable from the roots ------------------------
    def _collect(self, body_id):
        if body_id in self.trees:
            return
        b = self.f.body(body_id)
        if b is None:
            self.trees[body_id] = None
            return
        fn = self.ast.fn_for_body(b)
        if fn is None:
            self.notes.append("no syntax tree for %s" % body_id)
            self.trees[body_id] = None
            return
        tree = self.tree_of(fn, self.sink_names(fn))
        self.trees[body_id] = tree
        for cid in self._callees(tree):
            self._collect(cid)

    def _callees(self, tree):
        out = []
        if not isinstance(tree, tuple):
            return out
        if tree[0] == "callee":
            out += list(tree[1])
        elif tree[0] in ("seq", "alt"):
            for x in tree[1]:
                out += self._callees(x)
        elif tree[0] == "loop":
            out += self._callees(tree[1])
        elif tree[0] == "seploop":
            out += self._callees(tree[1]) + self._callees(tree[2])
        return out

    def solve(self, roots):
        for r in roots:
            self._collect(r)
        ids = [i for i, t in self.trees.items() if t is not None]
        for i in ids:
            self.cur.setdefault(i, Sum((), (), False))
        self.recording = False
        for _ in range(12):
            changed = False
            for i in ids:
                s = self.eval(self.trees[i], i) or EMPTY
                if s.key() != self.cur[i].key():
                    # monotone join with the previous value
                    s = Sum(s.first | self.cur[i].first, s.last | self.cur[i].last, s.nullable or self.cur[i].nullable)
                    if s.key() != self.cur[i].key():
                        self.cur[i] = s
                        changed = True
            if not changed:
                break
        self.violations = []
        self.analysed = []
        for i in ids:
            # writers of ONE token (string, name) emit regular bytes next to each other by design:
            # their inside is governed by the escape rules, only their summary takes part here
            self.recording = i not in self.atomic
            s = self.eval(self.trees[i], i) or EMPTY
            self.memo[i] = self.cur[i]
            self.analysed.append((i, repr(self.cur[i])))
        self.recording = False

    def summary(self, body_id):
        if body_id in self.cur:
            return self.cur[body_id]
        if body_id not in self.trees:
            # called outside solve(): solve for this root
            self.solve([body_id])
            return self.cur.get(body_id, Sum(ANY, ANY, True))
        return Sum(ANY, ANY, True)

    @staticmethod
    def sink_names(fn):
        """names of the parameters a writer writes into: `out: &mut impl io::Write`, `f: &mut Formatter`, `buf`, `self.backend`"""
        out = set()
        for p in fn["params"]:
            if "Write" in p or "Formatter" in p or "& mut String" in p or "& mut Vec < u8 >" in p:
                out.add(p.split(":")[0].strip().replace("mut ", "").replace(" ", ""))
        out |= {"self.backend", "buf", "f", "out", "w"}
        return out


# ------------------------------------------------------------------------------------------
# shared rule: object framing written by save (C04 / C09 / C10)

def reader_classes(f):
    """white-space and delimiter byte sets of the READER (lexer), from the facts"""
    from byteclass import predicate_sets, arg_subject
    wsb = f.body("parser::lexer::is_whitespace")
    if wsb is None:
        raise F.LostAnchor("parser::lexer::is_whitespace")
    ws, _, _ = predicate_sets(wsb, arg_subject(1))
    delim = set()
    for b in f.bodies.values():
        if b["id"].endswith("::is_delimiter") or "is_delimiter::{closure" in b["id"]:
            for bi, t in F.calls(b):
                for a in t["args"]:
                    c = F.const_bytes(a)
                    if c is not None and len(c) > 3:
                        delim |= {ord(x) for x in c}
            for i, j, s in F.stmts(b):
                if s[0] == "assign" and s[2][0] == "use":
                    c = F.const_bytes(s[2][1])
                    if c is not None and len(c) > 3:
                        delim |= {ord(x) for x in c}
    if not delim:
        raise F.LostAnchor("delimiter table of the lexer (is_delimiter)")
    return ws, delim


_cache = {}


def get_adj(f, vocab=None):
    key = (id(f), tuple(sorted(vocab or [])))
    if key not in _cache:
        ws, delim = reader_classes(f)
        crate_files = {b["_file"] for b in f.bodies.values()}
        ast = Ast(only=crate_files)
        ast.renames = {o.split("::")[-1]: n.split("::")[-1] for o, n in getattr(f, "renamed", {}).items()}
        _cache[key] = Adj(f, ast, ws, delim, vocab)
    return _cache[key]


OBJECT_KEYWORDS = ["obj", "endobj", "stream", "endstream", "R", "true", "false", "null", "startxref", "xref", "trailer", "f", "n"]


def rule_framing(ctx, f, prop):
    rid = prop + "-ADJ"
    ctx.rule(rid, "in the object framing written by save, and in every value writer it calls, a token that may end in a regular byte is never "
             "directly followed by one that may begin with a regular byte; literal keywords are ones the object parser knows")
    a = get_adj(f, OBJECT_KEYWORDS + ["%PDF-1.7", "%%EOF", "%PDF-"])
    saves = [b for b in f.bodies.values() if b["id"].endswith("::save") and (b.get("impl") or {}).get("self", "").startswith("file::Storage<")]
    if not ctx.floor(rid, len(saves), 1, "Storage::save"):
        return
    a.atomic = {"primitive::serialize_name", "primitive::PdfString::serialize"}
    a.solve([b["id"] for b in saves])
    ctx.count("writers summarised", len(a.memo))
    seen = set()
    for kind, fn, where, msg in a.violations:
        key = "%s#%s:%s" % (fn, kind, re.sub(r":\d+", "", where))
        if key in seen:
            continue
        seen.add(key)
        ctx.bad(rid, key, msg, where)
    for bid, s in a.analysed:
        ctx.ok(rid, bid, "summary %s" % s)
    ctx.floor(rid, len(a.analysed), 6, "writer functions summarised (save, Primitive::serialize, serialize_list, serialize_name, Dictionary::serialize, PdfString::serialize, PdfStream::serialize)")
