"""Linear forms of integer locals, read off single-definition temporaries: `end = start + length as usize + 1` -> {start: 1, length: 1} + 1.
Used where a rule has to say that two positions differ by `n + 1`, or that the header offset enters a sum once - not merely that a `+ 1` /
an addition occurs somewhere in the function."""
import json
import facts as F
from flow import last_seg
from facts import callee_name

ADD_CALLS = ("checked_add", "wrapping_add", "saturating_add", "unchecked_add")
SUB_CALLS = ("checked_sub", "wrapping_sub", "saturating_sub")
THROUGH = ("ok_or", "ok_or_else", "branch", "unwrap", "expect", "into", "from", "unwrap_or", "unwrap_or_default", "clone", "try_into", "try_from", "ok")


def _atom(pl):
    flds = [e[2] for e in pl[1:] if e[0] == "field" and not str(e[2]).isdigit()]
    if flds:
        return "field:" + flds[-1]
    if len(pl) == 1:
        return pl[0]
    return "place:" + json.dumps(pl)


def _merge(a, b, sign):
    co = dict(a[0])
    for k, v in b[0].items():
        co[k] = co.get(k, 0) + sign * v
    return ({k: v for k, v in co.items() if v}, a[1] + sign * b[1])


def linear(fl, op, depth=0):
    """(coefficients by atom, constant) of an operand; atoms are root locals, `field:<name>` for loads of a named field, or places"""
    if op[0] == "const":
        c = op[1].get("int") if isinstance(op[1], dict) else None
        return ({}, c) if c is not None else ({"const:?": 1}, 0)
    if op[0] not in ("copy", "move"):
        return None
    pl = list(op[1])
    # projections that only unwrap a checked result / an Option / a ControlFlow
    while len(pl) > 1 and (pl[-1][0] == "downcast" or (pl[-1][0] == "field" and str(pl[-1][2]).isdigit() and
                                                       (len(pl) == 2 or pl[-2][0] == "downcast"))):
        pl = pl[:-1]
    if len(pl) != 1:
        return ({_atom(pl): 1}, 0)
    l = pl[0]
    ds = [d for d in fl.defs.get(l, []) if not d[3]]
    if depth > 14 or len(ds) != 1 or (1 <= l <= fl.body["argc"]):
        return ({l: 1}, 0)
    d = ds[0]
    if d[0] == "call":
        t = d[2]
        seg = last_seg(callee_name(t))
        if seg in ADD_CALLS + SUB_CALLS and len(t["args"]) == 2:
            a, b = linear(fl, t["args"][0], depth + 1), linear(fl, t["args"][1], depth + 1)
            if a is None or b is None:
                return ({l: 1}, 0)
            return _merge(a, b, 1 if seg in ADD_CALLS else -1)
        if seg in THROUGH and t["args"] and t["args"][0][0] in ("copy", "move"):
            return linear(fl, t["args"][0], depth + 1) or ({l: 1}, 0)
        return ({l: 1}, 0)
    rv = d[2]
    if rv[0] == "use":
        return linear(fl, rv[1], depth + 1) or ({l: 1}, 0)
    if rv[0] == "cast" and rv[1] in ("IntToInt",):
        return linear(fl, rv[2], depth + 1) or ({l: 1}, 0)
    if rv[0] == "binop" and rv[1].replace("WithOverflow", "").replace("Unchecked", "") in ("Add", "Sub"):
        a, b = linear(fl, rv[2], depth + 1), linear(fl, rv[3], depth + 1)
        if a is None or b is None:
            return ({l: 1}, 0)
        return _merge(a, b, 1 if rv[1].startswith("Add") else -1)
    return ({l: 1}, 0)


def difference(fl, op_a, op_b):
    """linear form of a - b, or None"""
    a, b = linear(fl, op_a), linear(fl, op_b)
    if a is None or b is None:
        return None
    return _merge(a, b, -1)
