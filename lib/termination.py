"""R-LOOP: every natural loop of a read-reachable body needs a termination witness.

  iter      the loop is left when `Iterator::next` (on something that is not an unbounded source or a numeric
            range) returns None
  range     `next` on a numeric range whose end is untainted, or tainted but compared before the loop / bounded
            by LOOP_LIMIT, or the loop is also `consume`
  consume   every path from the loop head back to it calls a function that consumes input from a cursor and
            leaves the loop when that fails (lexer / parser entry points)
  monotone  every path from the head back to it adds to / advances a local that the loop condition is computed from
  descent   the loop-carried reference is replaced by something reached from itself (walking `/Parent` links of
            already loaded, immutable nodes)
A loop without witness is reported with its header.
"""
import re
import facts as F
from cfg import CFG, ccp_reachable, ccp_dominates
from flow import Flow, last_seg

LOOP_LIMIT = 1 << 16
UNBOUNDED_ITERS = ("Repeat", "Cycle", "FromFn", "Successors", "RepeatWith", "RangeFrom")
# functions that take at least one byte / token from a cursor or fail (skip_whitespace is not among them: it succeeds without moving when there
# is nothing to skip)
CONSUMERS = ("next", "next_expect", "next_as", "next_word", "next_lexeme", "next_hex_byte", "read_byte", "next_byte", "advance_pos",
             "parse_with_lexer", "parse_with_lexer_ctx", "_parse_with_lexer_ctx", "parse_indirect_object", "parse_indirect_stream", "read_u64_from_stream",
             "next_non_whitespace_char", "parse_stream_object", "parse_dictionary_object", "back", "seek_substr_back")
CONSUMER_OWNERS = ("Lexer", "StringLexer", "HexStringLexer", "parser::", "parse_xref")


def is_consumer(t):
    n = F.callee_name(t)
    return last_seg(n) in CONSUMERS and any(o in n for o in CONSUMER_OWNERS)


def progress_edges(b, cfg, fl, t, body):
    """CFG edges inside the loop that are taken only when the consumer call t succeeded (took input): the success arm of the switch on its
    Result / Option (directly, after `?` = Try::branch, or after is_err()/is_ok()/is_some()/is_none()).  A result that is dropped or
    defaulted (`unwrap_or(0)`, `.ok()`) yields no such edge: nothing ties the iteration to the input then."""
    if t.get("dest") is None:
        return set()
    ty = b["locals"][t["dest"][0]]["s"]
    if not (ty.startswith("std::result::Result<") or ty.startswith("std::option::Option<")):
        return set()
    res = {t["dest"][0]: ("opt" if ty.startswith("std::option::Option<") else "res")}
    flags = {}
    for _ in range(4):
        for i, j, st in F.stmts(b):
            if st[0] == "assign" and len(st[1]) == 1 and st[2][0] in ("use", "ref"):
                src = F.op_local(st[2][1]) if st[2][0] == "use" else (st[2][1][0] if len(st[2][1]) == 1 else None)
                if src in res and st[1][0] not in res:
                    res[st[1][0]] = res[src]
        for ci, ct in F.calls(b):
            if not (ct.get("dest") and ct["args"] and F.op_local(ct["args"][0]) in res):
                continue
            seg = last_seg(F.callee_name(ct))
            kind = res[F.op_local(ct["args"][0])]
            if seg in ("branch", "map_err", "and_then", "map", "ok_or", "ok_or_else") and ct["dest"][0] not in res:
                res[ct["dest"][0]] = "res" if seg in ("branch", "ok_or", "ok_or_else") else kind
            if seg in ("is_err", "is_none"):
                flags[ct["dest"][0]] = 0          # success <=> flag is false
            if seg in ("is_ok", "is_some"):
                flags[ct["dest"][0]] = 1
    out = set()
    for i in body:
        bb = b["blocks"][i]
        tt = bb["term"]
        if tt["k"] != "switch":
            continue
        dl = F.op_local(tt["discr"])
        arms = {a[0]: a[1] for a in tt["arms"]}
        if dl in flags:
            want = flags[dl]
            tgt = arms.get(want, tt.get("otherwise")) if want in arms or want == 1 else tt.get("otherwise")
            if want == 1 and 1 not in arms:
                tgt = tt.get("otherwise")
            if tgt is not None:
                out.add((i, tgt))
            continue
        for st in bb["stmts"]:
            if st[0] == "assign" and st[1] == [dl] and st[2][0] == "discr" and st[2][1][0] in res:
                want = 1 if res[st[2][1][0]] == "opt" else 0
                tgt = arms.get(want)
                if tgt is None:
                    # the success value is the switch's fall-through only if every other value has an arm
                    tgt = tt.get("otherwise") if (1 - want) in arms else None
                if tgt is not None:
                    out.add((i, tgt))
    return out


def loop_witness(f, b, cfg, head, body, taint):
    """-> (kind, text) or (None, reason)"""
    fl = Flow(b)
    backs = [a for a, h in cfg.back_edges() if h == head]
    calls = [(bi, t) for bi, t in F.calls(b) if bi in body]
    def leaves(n):
        return any(s not in body and b["blocks"][s]["term"]["k"] != "unreachable" for s in cfg.succ[n])
    exits = {n for n in body if leaves(n)}

    def must_pass(blocks):
        blocks = set(blocks)
        if not blocks:
            return False
        for bk in backs:
            # every path head -> bk inside the loop meets one of `blocks`
            seen = set()
            st = [head]
            ok = True
            while st:
                x = st.pop()
                if x in seen or x in blocks:
                    continue
                seen.add(x)
                if x == bk:
                    ok = False
                    break
                for s in cfg.succ[x]:
                    if s in body and s != head:
                        st.append(s)
            if not ok:
                return False
        return True

    def must_cross(edges):
        """every path from the head back to it inside the loop takes one of the edges"""
        if not edges:
            return False
        for bk in backs:
            seen = set()
            st = [head]
            while st:
                x = st.pop()
                if x in seen:
                    continue
                seen.add(x)
                if x == bk:
                    return False
                for s2 in cfg.succ[x]:
                    if s2 in body and s2 != head and (x, s2) not in edges:
                        st.append(s2)
        return True

    def rewinds():
        """a call inside the loop that puts the cursor back to a position fixed outside the loop (`lexer.set_pos(start)` with `start` taken before
        the loop): whatever the turn consumed is given back, so consumption is no progress"""
        for bi2, t2 in calls:
            if last_seg(F.callee_name(t2)) in ("set_pos", "set_offset", "seek", "rewind", "reset") and any(o in F.callee_name(t2) for o in CONSUMER_OWNERS):
                if len(t2["args"]) < 2:
                    return t2
                a2 = t2["args"][1]
                l2 = F.op_local(a2)
                if l2 is None:
                    return t2           # a constant position
                root = l2
                for _ in range(6):
                    ds2 = fl.defs.get(root, [])
                    if len(ds2) == 1 and ds2[0][0] == "assign" and not ds2[0][3] and ds2[0][2][0] == "use" and F.op_place(ds2[0][2][1]) and len(F.op_place(ds2[0][2][1])) == 1:
                        root = F.op_place(ds2[0][2][1])[0]
                    else:
                        break
                ds2 = fl.defs.get(root, [])
                if not any(d2[1] in body for d2 in ds2) and not (1 <= root <= b["argc"] and not ds2):
                    return t2
                if ds2 and not any(d2[1] in body for d2 in ds2):
                    return t2
        return None

    def takes_input(t2):
        """a reader whose amount is an argument (`read_u64_from_stream(width, data)`) consumes only when that amount is not zero: some test of a
        sum containing the width against 0 has to decide, before the loop, whether the loop is reached"""
        if last_seg(F.callee_name(t2)) != "read_u64_from_stream":
            return True
        from linear import linear
        w = linear(fl, t2["args"][0]) if t2["args"] else None
        if w is None:
            return False
        if not w[0] and w[1] >= 1:
            return True
        watoms = {k_ for k_, v_ in w[0].items() if v_ > 0}
        # (the test may sit in a private helper: `let entry_len = xref_entry_len(w0, w1, w2)?` - read it in place)
        from inline import inlined
        nb = inlined(f, b)
        nfl, ncfg = (fl, cfg) if nb is b else (Flow(nb), CFG(nb))
        for i2, bb2 in enumerate(nb["blocks"]):
            if bb2["term"]["k"] != "switch" or i2 in body:
                continue
            if not (ncfg.dominates(i2, head) or (nb is not b and ccp_dominates(nb, i2, head))):
                continue
            for st2 in bb2["stmts"]:
                if st2[0] == "assign" and st2[2][0] == "binop" and st2[2][1] in ("Eq", "Ne", "Gt", "Lt", "Ge", "Le") and F.op_local(bb2["term"]["discr"]) == st2[1][0]:
                    for side, other in ((st2[2][2], st2[2][3]), (st2[2][3], st2[2][2])):
                        if F.const_int(other) in (0, 1) and side[0] in ("copy", "move"):
                            lf = linear(nfl, side)
                            # (in the inlined form the helper's Err flows on to the `?` of the caller: follow the variant)
                            decides = any(x is not None and head not in ccp_reachable(nb, x, avoid={i2}) for x in ncfg.succ[i2])
                            if lf and watoms and watoms <= {k_ for k_, v_ in lf[0].items() if v_ > 0} and decides:
                                return True
        return False

    def consumed():
        es = set()
        if rewinds() is not None:
            return es
        for bi2, t2 in calls:
            if is_consumer(t2) and takes_input(t2):
                es |= progress_edges(b, cfg, fl, t2, body)
        return es

    # --- iterator / range -----------------------------------------------------------------------
    for bi, t in calls:
        seg = last_seg(F.callee_name(t))
        if seg not in ("next", "next_back"):
            continue
        if not ((t.get("trait") or "").endswith("Iterator") or "Iterator" in t.get("callee_full", "")):
            continue
        tg = t.get("target")
        if tg is None or b["blocks"][tg]["term"]["k"] != "switch" or not leaves(tg):
            continue
        ity = (t.get("self_ty") or {}).get("s", "") or t.get("callee_full", "")
        if any(u in ity for u in UNBOUNDED_ITERS) and "Take<" not in ity:
            continue
        m = re.search(r"ops::Range(Inclusive)?<(\w+)>", ity)
        if not m:
            return "iter", "left when %s::next() returns None" % ity.split("<")[0].split("::")[-1]
        # numeric range: find the aggregate and its end operand
        it = F.op_local(t["args"][0])
        end_val = None
        end_guarded = False
        for a in fl.origins(it) if it is not None else []:
            if a[0] == "agg" and "Range" in a[1].get("adt", ""):
                names = a[1].get("fields", [])
                if "end" in names:
                    eo = a[3][2][names.index("end")]
                    end_val = taint.operand(b, eo)
                    el = F.op_local(eo)
                    end_guarded = end_val.g or (el is not None and taint.guarded(b, a[2], el, upper=True))
            if a[0] == "call" and last_seg(a[1]) == "new" and "RangeInclusive" in a[1]:
                eo = a[3]["args"][1]
                end_val = taint.operand(b, eo)
                el = F.op_local(eo)
                end_guarded = end_val.g or (el is not None and taint.guarded(b, a[2], el, upper=True))
        if end_val is None:
            return "range", "numeric range (end not recovered; type-bounded %s)" % m.group(2)
        if not end_val.taint:
            return "range", "numeric range with an untainted end"
        if end_val.bound <= LOOP_LIMIT:
            return "range", "numeric range whose file-derived end is bounded by %d" % end_val.bound
        if end_guarded:
            return "range", "numeric range whose file-derived end is compared before the loop"
        if must_cross(consumed()):
            return "range", "numeric range with a file-derived end, but every iteration consumes input (and leaves the loop when there is none)"
        return None, "loop over a numeric range whose end %s comes from the file and is neither compared nor bounded, and the body does not consume input" % end_val
    # --- consume ---------------------------------------------------------------------------------
    if must_cross(consumed()):
        names = sorted({last_seg(F.callee_name(t)) for bi, t in calls if is_consumer(t)})
        return "consume", "every iteration calls %s" % "/".join(names)
    # --- monotone --------------------------------------------------------------------------------
    # locals the exit conditions are computed from
    cond_locals = set()
    for n in exits:
        t = b["blocks"][n]["term"]
        if t["k"] == "switch":
            dl = F.op_local(t["discr"])
            if dl is not None:
                cond_locals |= {x for x in taint.ancestors(b, dl, True) if isinstance(x, int)}
    adv = []
    for i, j, s in F.stmts(b):
        # `v = v + ... + c` (c >= 1, everything unsigned): the loop variable itself is stepped forward, inside the loop.  The sum is
        # recovered as an expression, so `start = c + 1; end = start + n + 1; c = end` counts
        if i in body and s[0] == "assign" and len(s[1]) == 1 and s[1][0] in cond_locals and s[2][0] == "use" and \
                b["locals"][s[1][0]]["s"] in ("usize", "u64", "u32", "u16", "u8"):
            key = taint.expr_key(b, s[2][1])
            terms = _flatten_add(key)
            me = taint.expr_key(b, ["copy", [s[1][0]]])
            if len(terms) >= 2 and me in terms and any(t0[0] == "c" and isinstance(t0[1], int) and t0[1] >= 1 for t0 in terms):
                adv.append(i)
    # a field advanced in place (`self.pos += 1`)
    for i, j, s in F.stmts(b):
        if i in body and s[0] == "assign" and len(s[1]) > 1 and s[2][0] == "use":
            src = F.op_place(s[2][1])
            if src is None:
                continue
            for a in fl.origins(src[0], passthrough=()):
                if a[0] == "binop" and a[1].startswith("Add"):
                    adv.append(i)
    if must_pass(adv):
        return "monotone", "every iteration advances a counter the loop condition depends on"
    # --- seen-set: the value that drives the loop is looked up in a collection (exit on a hit) and added to it ----
    PT = ("deref", "deref_mut", "as_ref", "as_mut", "borrow", "borrow_mut", "as_slice", "as_mut_slice")

    def coll_root(op):
        l = F.op_local(op)
        out = set()
        for a in fl.origins(l, passthrough=PT) if l is not None else []:
            if a[0] == "call" and last_seg(a[1]) in PT:
                continue
            if a[0] in ("call", "agg", "arg"):
                out.add((a[0], a[2] if a[0] != "arg" else a[1]))
        return frozenset(out) or None
    for bi, t in calls:
        if last_seg(F.callee_name(t)) not in ("contains", "contains_key") or t.get("target") is None:
            continue
        tg = t["target"]
        if b["blocks"][tg]["term"]["k"] != "switch":
            continue
        # the hit branch leaves the loop
        hit_leaves = any(not (cfg.reachable_from(s2) & {head}) or s2 not in body for s2 in cfg.succ[tg] if b["blocks"][s2]["term"]["k"] != "unreachable")
        root = coll_root(t["args"][0])
        # ... and what is added is the very value that was looked up (not something computed from it)
        looked = taint.expr_key(b, t["args"][1]) if len(t["args"]) > 1 else None
        adds = [bi2 for bi2, t2 in calls if last_seg(F.callee_name(t2)) in ("push", "insert", "push_back") and root is not None and (coll_root(t2["args"][0]) or frozenset()) & root
                and len(t2["args"]) > 1 and taint.expr_key(b, t2["args"][1]) == looked]
        # the collection outlives the iterations: it is created before the loop (one made afresh in every iteration remembers nothing)
        made_inside = root is not None and any(kind in ("call", "agg") and where in body for kind, where in root)
        if hit_leaves and adds and must_pass(adds) and must_pass([bi]) and not made_inside:
            return "seen-set", "every iteration looks the driving value up in a collection (leaving on a hit) and adds it"
    # --- shrink: the slice the loop works on is replaced by a strictly shorter tail of itself ------------
    shr = []
    for bi, t in calls:
        if last_seg(F.callee_name(t)) in ("index", "get") and len(t["args"]) == 2 and "RangeFrom" in t["arg_tys"][1]["s"]:
            rl = F.op_local(t["args"][1])
            for a in fl.origins(rl, passthrough=()) if rl is not None else []:
                if a[0] == "agg" and "RangeFrom" in a[1].get("adt", ""):
                    so = a[3][2][0]
                    sl = F.op_local(so)
                    c = F.const_int(so)
                    # ... and the tail is stored back into the very variable it was cut from (`data = &data[1..]`): a tail that is only
                    # looked at (`buf[pos..].iter().position(..)`) shrinks nothing
                    base = F.op_local(t["args"][0])
                    broots = {x[1] for x in fl.origins(base, passthrough=("deref", "deref_mut")) if x[0] == "arg"} if base is not None else set()
                    bl = set()
                    x0 = base
                    for _ in range(6):
                        if x0 is None:
                            break
                        bl.add(x0)
                        ds = fl.defs.get(x0, [])
                        x0 = None
                        if len(ds) == 1 and ds[0][0] == "assign" and ds[0][2][0] in ("use", "ref"):
                            pl0 = F.op_place(ds[0][2][1]) if ds[0][2][0] == "use" else ds[0][2][1]
                            x0 = pl0[0] if pl0 else None
                    stored_back = False
                    for i2, j2, st2 in F.stmts(b):
                        if i2 in body and st2[0] == "assign" and st2[1][0] in bl and st2[2][0] in ("use", "ref"):
                            src = F.op_local(st2[2][1]) if st2[2][0] == "use" else st2[2][1][0]
                            if src is not None and any(y[0] == "call" and y[2] == bi for y in fl.origins(src)):
                                stored_back = True
                    if not stored_back:
                        continue
                    if c is not None and c >= 1:
                        shr.append(bi)
                    for x in fl.origins(sl, passthrough=()) if sl is not None else []:
                        if x[0] == "binop" and x[1].startswith("Add") and (F.const_int(x[3][3]) or 0) >= 1:
                            shr.append(bi)
    if must_pass(shr):
        return "shrink", "every iteration replaces the slice by a strictly shorter tail of itself"
    # --- descent ---------------------------------------------------------------------------------
    if not [1 for bi, t in calls if last_seg(F.callee_name(t)) not in ("deref", "call", "call_mut", "call_once", "as_ref", "branch", "from_residual")]:
        return "descent", "the loop only follows a link of the value it holds (no producer of new values inside)"
    return None, "no termination witness (calls inside: %s)" % ", ".join(sorted({last_seg(F.callee_name(t)) for bi, t in calls}))[:160]


def _flatten_add(k):
    """terms of a (nested) sum"""
    if isinstance(k, tuple) and k and k[0] == "Add":
        return _flatten_add(k[1]) + _flatten_add(k[2])
    if isinstance(k, tuple) and k and k[0] in ("checked_add", "saturating_add") and len(k) == 3:
        return _flatten_add(k[1]) + _flatten_add(k[2])
    return [k]


def consumption_check(f, b, cfg, head, body, taint):
    """Cursor loops of the shape  `while cursor + X < len { ... cursor += a; ... cursor += b; }`:
    what one iteration adds to the cursor must not exceed what the loop condition guarantees to be left
    (X, plus one if the comparison is strict).  -> (recognised, ok, text)"""
    # 1. the exit comparison against a length
    cond = None
    for n in sorted(body):
        bb = b["blocks"][n]
        t = bb["term"]
        if t["k"] != "switch":
            continue
        outs = [s for s in cfg.succ[n] if s not in body and b["blocks"][s]["term"]["k"] != "unreachable"]
        if not outs:
            continue
        dl = F.op_local(t["discr"])
        for st in bb["stmts"]:
            if st[0] == "assign" and st[1] == [dl] and st[2][0] == "binop" and st[2][1] in ("Lt", "Le", "Gt", "Ge"):
                ka, kb = taint.expr_key(b, st[2][2]), taint.expr_key(b, st[2][3])
                op = st[2][1]
                arms = {a[0]: a[1] for a in t["arms"]}
                true_t = t["otherwise"] if 0 in arms else arms.get(1)
                cont_when_true = true_t in body
                # normalise to  K (<|<=) LEN  as the condition for staying in the loop
                if kb and kb[0] == "len":
                    K, strict = ka, op
                elif ka and ka[0] == "len":
                    K, strict = kb, {"Lt": "Gt", "Le": "Ge", "Gt": "Lt", "Ge": "Le"}[op]
                else:
                    continue
                if not cont_when_true:
                    strict = {"Lt": "Ge", "Le": "Gt", "Gt": "Le", "Ge": "Lt"}[strict]
                if strict not in ("Lt", "Le"):
                    continue
                cond = (K, strict == "Lt", n)
    if cond is None:
        return False, True, "no `cursor + X < len` exit condition"
    K, strict, cb = cond
    terms = _flatten_add(K)
    # 2. the cursor: a term that is a plain local with an in-loop definition `cursor = (cursor + t).0`
    incs = {}      # cursor local -> [(block, term key)]
    for i, j, st in F.stmts(b):
        if i in body and st[0] == "assign" and len(st[1]) == 1 and st[2][0] == "use":
            src = F.op_place(st[2][1])
            if src is None or len(src) != 2:
                continue
            for d in taint.defs(b).get(src[0], []):
                if d[0] == "assign" and d[2][0] == "binop" and d[2][1].startswith("Add"):
                    a, c = d[2][2], d[2][3]
                    la = F.op_local(a)
                    if la == st[1][0] or (la is not None and taint.canon_place(b, [la]) == [st[1][0]]):
                        incs.setdefault(st[1][0], []).append((i, taint.expr_key(b, c)))
    cursor = None
    for t_ in terms:
        if t_[0] == "p":
            import json as _j
            pl = _j.loads(t_[1])
            if len(pl) == 1 and pl[0] in incs:
                cursor = pl[0]
                ckey = t_
    if cursor is None:
        return False, True, "exit condition does not mention an advancing cursor"
    # bodies that probe further positions themselves (`get(cursor + 1)`) extend the guarantee on their own: not this shape
    for bi, t in F.calls(b):
        if bi in body and last_seg(F.callee_name(t)) in ("get", "get_mut", "checked_add", "checked_sub"):
            for a in t["args"][1:]:
                ks = repr(taint.expr_key(b, a))
                al = F.op_local(a)
                agg = [repr(taint.expr_key(b, o)) for d in taint.defs(b).get(al, []) if d[0] == "assign" and d[2][0] == "aggregate" for o in d[2][2]] if al is not None else []
                if repr(ckey) in ks or any(repr(ckey) in x for x in agg):
                    return False, True, "the body probes positions beyond the cursor itself"
    allowed = [x for x in terms if x != ckey]
    a_const = sum(x[1] for x in allowed if x[0] == "c" and isinstance(x[1], int)) + (1 if strict else 0)
    a_syms = sorted(repr(x) for x in allowed if x[0] != "c")
    # 3. consumption along every path head -> back edge
    backs = [a for a, h in cfg.back_edges() if h == head]
    inc_at = {}
    for i, k in incs[cursor]:
        inc_at.setdefault(i, []).append(k)
    worst = None
    seen_paths = 0
    stack = [(head, [], frozenset([head]))]
    while stack and seen_paths < 500:
        n, acc, vis = stack.pop()
        acc2 = acc + inc_at.get(n, [])
        if n in backs:
            seen_paths += 1
            c_const = sum(x[1] for x in acc2 if x[0] == "c" and isinstance(x[1], int))
            c_syms = sorted(repr(x) for x in acc2 if x[0] != "c")
            # symbols consumed must be among the symbols guaranteed; constants likewise
            ok = True
            rest = list(a_syms)
            for s_ in c_syms:
                if s_ in rest:
                    rest.remove(s_)
                else:
                    ok = False
            if c_const > a_const:
                ok = False
            if not ok:
                worst = (c_const, c_syms)
            continue
        for s_ in cfg.succ[n]:
            if s_ in body and s_ not in vis:
                stack.append((s_, acc2, vis | {s_}))
    if worst is not None:
        return True, False, "one iteration advances the cursor by %s + %s but the loop condition only guarantees %s + %s more bytes" % (worst[0], worst[1], a_const, a_syms)
    return True, True, "each iteration advances the cursor by no more than the loop condition guarantees (%d + %s)" % (a_const, a_syms)
