"""R-LOOP: every natural loop of a read-reachable body needs a termination witness.

  iter      the loop is left when `Iterator::next` (on something that is not an unbounded source or a numeric
            range) returns None
  range     `next` on a numeric range whose end is untainted, or tainted but compared before the loop / bounded
            by LOOP_LIMIT, or the loop is also `consume`
  consume   every path from the loop head back to it calls a function that consumes input from a cursor and
            leaves the loop when that fails (lexer / parser entry points)
  monotone  every path from the head back to it adds to / advances a local that the loop condition is computed from
  descent   the loop-carried reference is replaced by something reached from itself (walking `/Parent` links of
            already loaded, immutable nodes)
A loop without witness is reported with its header.
"""
import re
import facts as F
from cfg import CFG
from flow import Flow, last_seg

LOOP_LIMIT = 1 << 16
UNBOUNDED_ITERS = ("Repeat", "Cycle", "FromFn", "Successors", "RepeatWith", "RangeFrom")
CONSUMERS = ("next", "next_expect", "next_as", "next_word", "next_lexeme", "next_hex_byte", "read_byte", "advance_pos", "skip_whitespace",
             "parse_with_lexer", "parse_with_lexer_ctx", "_parse_with_lexer_ctx", "parse_indirect_object", "parse_indirect_stream", "read_u64_from_stream",
             "next_non_whitespace_char", "parse_stream_object", "parse_dictionary_object", "back", "seek_substr_back")
CONSUMER_OWNERS = ("Lexer", "StringLexer", "HexStringLexer", "parser::", "parse_xref")


def is_consumer(t):
    n = F.callee_name(t)
    return last_seg(n) in CONSUMERS and any(o in n for o in CONSUMER_OWNERS)


def loop_witness(f, b, cfg, head, body, taint):
    """-> (kind, text) or (None, reason)"""
    fl = Flow(b)
    backs = [a for a, h in cfg.back_edges() if h == head]
    calls = [(bi, t) for bi, t in F.calls(b) if bi in body]
    def leaves(n):
        return any(s not in body and b["blocks"][s]["term"]["k"] != "unreachable" for s in cfg.succ[n])
    exits = {n for n in body if leaves(n)}

    def must_pass(blocks):
        blocks = set(blocks)
        if not blocks:
            return False
        for bk in backs:
            # every path head -> bk inside the loop meets one of `blocks`
            seen = set()
            st = [head]
            ok = True
            while st:
                x = st.pop()
                if x in seen or x in blocks:
                    continue
                seen.add(x)
                if x == bk:
                    ok = False
                    break
                for s in cfg.succ[x]:
                    if s in body and s != head:
                        st.append(s)
            if not ok:
                return False
        return True

    # --- iterator / range -----------------------------------------------------------------------
    for bi, t in calls:
        seg = last_seg(F.callee_name(t))
        if seg not in ("next", "next_back"):
            continue
        if not ((t.get("trait") or "").endswith("Iterator") or "Iterator" in t.get("callee_full", "")):
            continue
        tg = t.get("target")
        if tg is None or b["blocks"][tg]["term"]["k"] != "switch" or not leaves(tg):
            continue
        ity = (t.get("self_ty") or {}).get("s", "") or t.get("callee_full", "")
        if any(u in ity for u in UNBOUNDED_ITERS) and "Take<" not in ity:
            continue
        m = re.search(r"ops::Range(Inclusive)?<(\w+)>", ity)
        if not m:
            return "iter", "left when %s::next() returns None" % ity.split("<")[0].split("::")[-1]
        # numeric range: find the aggregate and its end operand
        it = F.op_local(t["args"][0])
        end_val = None
        end_guarded = False
        for a in fl.origins(it) if it is not None else []:
            if a[0] == "agg" and "Range" in a[1].get("adt", ""):
                names = a[1].get("fields", [])
                if "end" in names:
                    eo = a[3][2][names.index("end")]
                    end_val = taint.operand(b, eo)
                    el = F.op_local(eo)
                    end_guarded = end_val.g or (el is not None and taint.guarded(b, a[2], el))
            if a[0] == "call" and last_seg(a[1]) == "new" and "RangeInclusive" in a[1]:
                eo = a[3]["args"][1]
                end_val = taint.operand(b, eo)
                el = F.op_local(eo)
                end_guarded = end_val.g or (el is not None and taint.guarded(b, a[2], el))
        if end_val is None:
            return "range", "numeric range (end not recovered; type-bounded %s)" % m.group(2)
        if not end_val.taint:
            return "range", "numeric range with an untainted end"
        if end_val.bound <= LOOP_LIMIT:
            return "range", "numeric range whose file-derived end is bounded by %d" % end_val.bound
        if end_guarded:
            return "range", "numeric range whose file-derived end is compared before the loop"
        if must_pass([bi2 for bi2, t2 in calls if is_consumer(t2)]):
            return "range", "numeric range with a file-derived end, but every iteration consumes input"
        return None, "loop over a numeric range whose end %s comes from the file and is neither compared nor bounded, and the body does not consume input" % end_val
    # --- consume ---------------------------------------------------------------------------------
    cons = [bi for bi, t in calls if is_consumer(t)]
    if must_pass(cons):
        names = sorted({last_seg(F.callee_name(t)) for bi, t in calls if is_consumer(t)})
        return "consume", "every iteration calls %s" % "/".join(names)
    # --- monotone --------------------------------------------------------------------------------
    # locals the exit conditions are computed from
    cond_locals = set()
    for n in exits:
        t = b["blocks"][n]["term"]
        if t["k"] == "switch":
            dl = F.op_local(t["discr"])
            if dl is not None:
                cond_locals |= {x for x in taint.ancestors(b, dl) if isinstance(x, int)}
    adv = []
    for i, j, s in F.stmts(b):
        if i in body and s[0] == "assign" and len(s[1]) == 1 and s[1][0] in cond_locals and s[2][0] == "use":
            src = F.op_place(s[2][1])
            if src is None:
                continue
            for a in fl.origins(src[0], passthrough=()):
                if a[0] == "binop" and a[1].startswith("Add"):
                    adv.append(i)
    # a field advanced in place (`self.pos += 1`)
    for i, j, s in F.stmts(b):
        if i in body and s[0] == "assign" and len(s[1]) > 1 and s[2][0] == "use":
            src = F.op_place(s[2][1])
            if src is None:
                continue
            for a in fl.origins(src[0], passthrough=()):
                if a[0] == "binop" and a[1].startswith("Add"):
                    adv.append(i)
    if must_pass(adv):
        return "monotone", "every iteration advances a counter the loop condition depends on"
    # --- seen-set: the value that drives the loop is looked up in a collection (exit on a hit) and added to it ----
    PT = ("deref", "deref_mut", "as_ref", "as_mut", "borrow", "borrow_mut", "as_slice", "as_mut_slice")

    def coll_root(op):
        l = F.op_local(op)
        out = set()
        for a in fl.origins(l, passthrough=PT) if l is not None else []:
            if a[0] == "call" and last_seg(a[1]) in PT:
                continue
            if a[0] in ("call", "agg", "arg"):
                out.add((a[0], a[2] if a[0] != "arg" else a[1]))
        return frozenset(out) or None
    for bi, t in calls:
        if last_seg(F.callee_name(t)) not in ("contains", "contains_key") or t.get("target") is None:
            continue
        tg = t["target"]
        if b["blocks"][tg]["term"]["k"] != "switch":
            continue
        # the hit branch leaves the loop
        hit_leaves = any(not (cfg.reachable_from(s2) & {head}) or s2 not in body for s2 in cfg.succ[tg] if b["blocks"][s2]["term"]["k"] != "unreachable")
        root = coll_root(t["args"][0])
        adds = [bi2 for bi2, t2 in calls if last_seg(F.callee_name(t2)) in ("push", "insert", "push_back") and root is not None and (coll_root(t2["args"][0]) or frozenset()) & root]
        if hit_leaves and adds and must_pass(adds) and must_pass([bi]):
            return "seen-set", "every iteration looks the driving value up in a collection (leaving on a hit) and adds it"
    # --- shrink: the slice the loop works on is replaced by a strictly shorter tail of itself ------------
    shr = []
    for bi, t in calls:
        if last_seg(F.callee_name(t)) in ("index", "get") and len(t["args"]) == 2 and "RangeFrom" in t["arg_tys"][1]["s"]:
            rl = F.op_local(t["args"][1])
            for a in fl.origins(rl, passthrough=()) if rl is not None else []:
                if a[0] == "agg" and "RangeFrom" in a[1].get("adt", ""):
                    so = a[3][2][0]
                    sl = F.op_local(so)
                    c = F.const_int(so)
                    if c is not None and c >= 1:
                        shr.append(bi)
                    for x in fl.origins(sl, passthrough=()) if sl is not None else []:
                        if x[0] == "binop" and x[1].startswith("Add") and (F.const_int(x[3][3]) or 0) >= 1:
                            shr.append(bi)
    if must_pass(shr):
        return "shrink", "every iteration replaces the slice by a strictly shorter tail of itself"
    # --- descent ---------------------------------------------------------------------------------
    if not [1 for bi, t in calls if last_seg(F.callee_name(t)) not in ("deref", "call", "call_mut", "call_once", "as_ref", "branch", "from_residual")]:
        return "descent", "the loop only follows a link of the value it holds (no producer of new values inside)"
    return None, "no termination witness (calls inside: %s)" % ", ".join(sorted({last_seg(F.callee_name(t)) for bi, t in calls}))[:160]
