"""Per-body CFG analyses: reachability, dominators, post-dominators, natural loops (A2)."""
from facts import succ


class CFG:
    def __init__(self, body, unwind=False):
        self.body = body
        self.n = len(body["blocks"])
        self.unwind = unwind
        self.succ = [succ(body, i, unwind) for i in range(self.n)]
        self.pred = [[] for _ in range(self.n)]
        for i, ss in enumerate(self.succ):
            for s in ss:
                self.pred[s].append(i)
        self._dom = None
        self._pdom = None
        self.reach = self._reach(0, self.succ)

    @staticmethod
    def _reach(start, succ):
        seen = {start}
        st = [start]
        while st:
            x = st.pop()
            for s in succ[x]:
                if s not in seen:
                    seen.add(s)
                    st.append(s)
        return seen

    def reachable_from(self, start, avoid=()):
        """blocks reachable from `start` without entering a block in `avoid` (start excluded
        from the avoid test)"""
        seen = {start}
        st = [start]
        while st:
            x = st.pop()
            for s in self.succ[x]:
                if s not in seen and s not in avoid:
                    seen.add(s)
                    st.append(s)
        return seen

    def can_reach(self, a, b, avoid=()):
        if a == b:
            return True
        return b in self.reachable_from(a, avoid)

    # ---- dominators (iterative set algorithm; bodies are small) ---------
    def _dominators(self, entry_nodes, succ, pred, universe):
        dom = {x: set(universe) for x in universe}
        for e in entry_nodes:
            dom[e] = {e}
        changed = True
        order = list(universe)
        while changed:
            changed = False
            for x in order:
                if x in entry_nodes:
                    continue
                ps = [p for p in pred[x] if p in universe]
                if not ps:
                    new = {x}
                else:
                    new = set.intersection(*(dom[p] for p in ps)) | {x}
                if new != dom[x]:
                    dom[x] = new
                    changed = True
        return dom

    @property
    def dom(self):
        if self._dom is None:
            self._dom = self._dominators({0}, self.succ, self.pred, sorted(self.reach))
        return self._dom

    def dominates(self, a, b):
        """a dominates b (every path from entry to b passes a)"""
        if b not in self.reach:
            return True
        return a in self.dom[b]

    @property
    def exits(self):
        return [i for i in self.reach
                if self.body["blocks"][i]["term"]["k"] in ("return",)]

    @property
    def pdom(self):
        """post-dominators w.r.t. normal returns (virtual exit joins all `return` blocks)"""
        if self._pdom is None:
            ex = set(self.exits)
            # nodes that can reach an exit
            can = set(ex)
            st = list(ex)
            while st:
                x = st.pop()
                for p in self.pred[x]:
                    if p in self.reach and p not in can:
                        can.add(p)
                        st.append(p)
            self._pdom = self._dominators(ex, self.pred, self.succ, sorted(can))
        return self._pdom

    def postdominates(self, a, b):
        """every path from b to a normal return passes a"""
        pd = self.pdom
        if b not in pd:
            return True
        return a in pd[b]

    # ---- loops -----------------------------------------------------------
    def back_edges(self):
        out = []
        for a in self.reach:
            for b in self.succ[a]:
                if b in self.reach and self.dominates(b, a):
                    out.append((a, b))
        return out

    def loops(self):
        """natural loops: header -> set of blocks"""
        res = {}
        for tail, head in self.back_edges():
            body = {head, tail}
            st = [tail]
            while st:
                x = st.pop()
                if x == head:
                    continue
                for p in self.pred[x]:
                    if p in self.reach and p not in body:
                        body.add(p)
                        st.append(p)
            res.setdefault(head, set()).update(body)
        return res

    def all_paths_pass(self, src, dst_set, through):
        """True iff every path from src to any block of dst_set passes a block in `through`
        (src itself counts if it is in `through`)."""
        if src in through:
            return True
        seen = self.reachable_from(src, avoid=set(through))
        return not (seen & set(dst_set))


def ccp_dominates(body, a, x):
    """every feasible path (under ccp_reachable's constant / variant propagation) from the entry to x passes a"""
    return a == x or x not in ccp_reachable(body, 0, avoid={a})


def ccp_reachable(body, start, unwind=False, avoid=(), init=None):
    """blocks reachable from `start` under conditional constant propagation of locals that are
    assigned literal bool / integer constants (drop flags, `matches!` results): a switch on a
    local whose value is a known constant follows only the matching edge.  Forward dataflow with
    intersection at joins (sound: an unknown value follows every edge)."""
    import facts as F
    n = len(body["blocks"])
    state = {start: dict(init or {})}      # init: values assumed on entry of `start` (e.g. "this test came out true")
    work = [start]
    TOP = object()
    while work:
        b = work.pop()
        st = dict(state[b])
        blk = body["blocks"][b]
        for s in blk["stmts"]:
            if s[0] == "assign" and len(s[1]) == 1:
                rv = s[2]
                tgt = s[1][0]
                val = None
                if rv[0] == "use":
                    c = F.op_const(rv[1])
                    if c is not None and ("bool" in c or "int" in c):
                        val = int(c.get("bool", c.get("int")))
                    else:
                        l = F.op_local(rv[1])
                        if l is not None and l in st:
                            val = st[l]
                # the variant an enum value was built with (`_0 = Err(..)`), its copies, and the discriminant read from it
                if rv[0] == "aggregate" and rv[1].get("k") == "adt" and rv[1].get("vi") is not None:
                    val = ("v", rv[1]["vi"])
                if rv[0] == "discr" and len(rv[1]) == 1 and isinstance(st.get(rv[1][0]), tuple):
                    val = st[rv[1][0]][1]
                if rv[0] == "unop" and rv[1] == "Not" and F.op_local(rv[2]) is not None and st.get(F.op_local(rv[2])) in (0, 1) and \
                        body["locals"][tgt]["s"] == "bool":
                    val = 1 - st[F.op_local(rv[2])]
                if val is None:
                    st.pop(tgt, None)
                else:
                    st[tgt] = val
            elif s[0] == "assign":
                pass
        t = blk["term"]
        if t["k"] == "call" and t.get("dest") and len(t["dest"]) == 1:
            keep = None
            if F.callee_name(t).endswith("::branch") and t["args"]:
                # `?` on a Result / Option whose variant is known: Ok -> Continue (0), Err -> Break (1); Some -> Continue, None -> Break
                al = F.op_local(t["args"][0])
                if al is not None and isinstance(st.get(al), tuple):
                    vi = st[al][1]
                    ty = body["locals"][al]["s"]
                    if ty.startswith("std::result::Result<"):
                        keep = ("v", vi)
                    elif ty.startswith("std::option::Option<"):
                        keep = ("v", 1 - vi)
            if keep is None:
                st.pop(t["dest"][0], None)
            else:
                st[t["dest"][0]] = keep
        succs = F.succ(body, b, unwind)
        if t["k"] == "switch":
            l = F.op_local(t["discr"])
            if l is not None and l in st:
                v = st[l]
                tg = None
                for av, at in t["arms"]:
                    if av == v:
                        tg = at
                succs = [tg if tg is not None else t["otherwise"]]
        for s2 in succs:
            if s2 in avoid:
                continue
            if s2 not in state:
                state[s2] = dict(st)
                work.append(s2)
            else:
                old = state[s2]
                new = {k: v for k, v in old.items() if st.get(k, TOP) == v}
                if new != old:
                    state[s2] = new
                    work.append(s2)
    return set(state)
