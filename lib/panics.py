"""Panic / resource census over a set of bodies (A10, DESIGN 2.6) with automatic discharge idioms.

Sites: explicit panics (core::panicking::*, begin_panic), Option/Result unwrap/expect, slice / Vec /
array / str / map indexing and the other range-taking slice functions, Assert terminators
(BoundsCheck, Overflow, DivisionByZero, RemainderByZero), allocations sized by a value
(with_capacity, from_elem = vec![x; n], resize, reserve, repeat().take(n)).
A site is keyed by  <body id>#<kind>:<detail>:<ordinal among equals in the body>  (no line numbers).
"""
import re
import facts as F
from cfg import CFG
from flow import Flow, last_seg
from taint import Taint, INF, MEM, typemax, TYPEMAX

PANIC_FNS = ("core::panicking::", "std::rt::begin_panic")
K2_FNS = ("split_at", "split_at_mut", "copy_from_slice", "copy_within", "rotate_left", "rotate_right", "splice", "drain", "swap", "chunks", "chunks_exact",
          "windows", "swap_remove", "remove", "insert", "split_off", "clone_from_slice")
ALLOC_FNS = ("with_capacity", "from_elem", "resize", "reserve", "reserve_exact", "resize_with")
# std functions with a documented panicking contract on their ARGUMENTS (not covered by a MIR assert of the caller): what must hold
CONTRACT_FNS = {"clamp": "min <= max and neither is NaN", "rem_euclid": "non-zero divisor", "div_euclid": "non-zero divisor", "step_by": "non-zero step",
                "ilog2": "non-zero argument", "ilog10": "non-zero argument", "ilog": "non-zero argument", "rchunks": "non-zero chunk size",
                "rchunks_exact": "non-zero chunk size", "chunks_mut": "non-zero chunk size", "chunks_exact_mut": "non-zero chunk size", "from_digit": "radix <= 36",
                "to_digit": "radix <= 36", "array_chunks": "non-zero chunk size", "next_power_of_two": "no overflow", "isqrt": "non-negative argument"}
# String / str methods that panic when an index is not on a character boundary (or out of range)
STR_BOUNDARY_FNS = ("truncate", "split_off", "insert", "insert_str", "remove", "drain", "replace_range", "split_at", "split_at_mut")
ALLOC_LIMIT = 1 << 26   # 64 Mi elements: above this an unguarded tainted size is "out of proportion to the file"
LOOP_LIMIT = 1 << 16


class Site:
    __slots__ = ("body", "bb", "kind", "detail", "key", "span", "status", "reason", "mac", "const_index", "tainted")

    def __init__(self, body, bb, kind, detail, span, mac=None):
        self.body = body
        self.bb = bb
        self.kind = kind
        self.detail = detail
        self.span = span
        self.status = None
        self.reason = ""
        self.key = None
        self.mac = mac or []
        self.const_index = None
        self.tainted = False


def sites_of(b):
    out = []
    for bi, bb in enumerate(b["blocks"]):
        if bb.get("cleanup"):
            continue
        t = bb["term"]
        if t["k"] == "assert":
            if t["assert"].startswith(("Misaligned", "NullPointer")):
                continue
            out.append(Site(b, bi, "assert", t["assert"], t["span"], t.get("mac")))
        elif t["k"] == "call":
            n = F.callee_name(t)
            seg = last_seg(n)
            if n.startswith(PANIC_FNS):
                out.append(Site(b, bi, "panic", seg, t["span"], t.get("mac")))
            elif seg in ("unwrap", "expect", "unwrap_unchecked") and not t.get("resolved_local") and ("Option" in n or "Result" in n):
                out.append(Site(b, bi, "unwrap", seg, t["span"], t.get("mac")))
            elif seg in ("index", "index_mut") and "ops::Index" in (t.get("callee") or "") + n:
                rng = "Range" in (t.get("callee_full", "") + t.get("resolved_full", "")) and "Range" in t["arg_tys"][1]["s"]
                out.append(Site(b, bi, "index", "range" if rng else "elem", t["span"], t.get("mac")))
            elif seg in K2_FNS and re.search(r"(slice|vec::Vec|<\[|array)", n):
                out.append(Site(b, bi, "slicefn", seg, t["span"], t.get("mac")))
            elif seg in ALLOC_FNS and ("Vec" in n or "String" in n or "vec::from_elem" in n or "HashMap" in n):
                out.append(Site(b, bi, "alloc", seg, t["span"], t.get("mac")))
            elif seg in CONTRACT_FNS and not t.get("resolved_local") and n.startswith(("core::", "std::", "alloc::")):
                out.append(Site(b, bi, "contract", seg, t["span"], t.get("mac")))
            elif seg in STR_BOUNDARY_FNS and ("string::String" in n or "str::<impl str>" in n or "<impl str>" in n):
                out.append(Site(b, bi, "contract", "str-" + seg, t["span"], t.get("mac")))
            elif seg == "take" and "Repeat" in (t.get("callee_full", "") + t.get("resolved_full", "")):
                out.append(Site(b, bi, "alloc", "repeat-take", t["span"], t.get("mac")))
    # ordinal keys
    cnt = {}
    for s in out:
        k0 = "%s:%s" % (s.kind, s.detail)
        cnt[k0] = cnt.get(k0, 0) + 1
        s.key = "%s#%s:%d" % (b["id"], k0, cnt[k0])
    return out


class Census:
    def __init__(self, f, cg, taint=None):
        self.f = f
        self.cg = cg
        self.taint = taint or Taint(f, cg)

    def flow(self, b):
        return Flow(b)

    def classify(self, s):
        """sets s.status in {'auto', 'open'}, s.reason and s.tainted (a file number reaches the construct)"""
        s.tainted = self._site_tainted(s)
        self._classify(s)
        if s.status == "open" and s.reason.startswith("[tainted]"):
            s.tainted = True
        return s

    def _site_tainted(self, s):
        b = s.body
        t = b["blocks"][s.bb]["term"]
        T = self.taint
        try:
            if s.kind == "assert":
                ops = list(t.get("ops") or [])
                if s.detail in ("DivisionByZero", "RemainderByZero"):
                    cl = F.op_local(t["cond"])
                    for st in b["blocks"][s.bb]["stmts"]:
                        if st[0] == "assign" and st[1] == [cl] and st[2][0] == "binop":
                            ops += [st[2][2], st[2][3]]
                return any(T.operand(b, o).taint for o in ops)
            if s.kind in ("index", "slicefn", "alloc"):
                for a in t["args"][(0 if s.kind == "alloc" else 1):]:
                    if T.operand(b, a).taint:
                        return True
                    l = F.op_local(a)
                    for d in T.defs(b).get(l, []) if l is not None else []:
                        if d[0] == "assign" and d[2][0] == "aggregate":
                            if any(T.operand(b, o).taint for o in d[2][2]):
                                return True
        except Exception:
            return False
        return False

    def _classify(self, s):
        b = s.body
        t = b["blocks"][s.bb]["term"]
        T = self.taint
        if s.kind == "assert":
            kind = s.detail
            ops = t["ops"]
            vals = [T.operand(b, o) for o in ops]
            locs = [F.op_local(o) for o in ops]
            if kind.startswith("Overflow("):
                op = kind[9:-1]
                ty = None
                for o in ops:
                    if o[0] in ("copy", "move") and len(o[1]) == 1:
                        ty = b["locals"][o[1][0]]["s"]
                    elif o[0] == "const":
                        ty = ty or o[1].get("ty")
                tm = typemax(ty or "usize")
                a, c = vals[0], vals[1]
                tainted = a.taint or c.taint
                if op in ("Add", "Mul", "Shl"):
                    ab, cb_ = (a.eb, c.eb) if tainted else (a.bound, c.bound)
                    res = ab + cb_ if op == "Add" else (ab * cb_ if op == "Mul" else (ab * (1 << min(int(cb_), 200)) if cb_ != INF else INF))
                    if res <= tm:
                        return self._auto(s, "result bounded by %s <= %s::MAX" % (_fmt(res), ty))
                    if not tainted and (ty or "usize").lstrip("&") in ("usize", "u64", "isize", "i64", "u128"):
                        # untainted 64-bit arithmetic: counters / positions / sizes of in-memory data
                        return self._auto(s, "untainted 64-bit size / position arithmetic (bounded by memory)")
                    if any(self.G(b, s.bb, l, v) for l, v in zip(locs, vals) if v.taint or l is not None) and all(self.G(b, s.bb, l, v) for l, v in zip(locs, vals) if v.taint):
                        return self._auto(s, "operand compared before use (dominating guard)")
                    return self._open(s, "%s of %s and %s can exceed %s::MAX" % (op, a, c, ty), tainted)
                if op == "Sub":
                    # a - b underflows when b > a
                    if c.bound == 0:
                        return self._auto(s, "subtracting zero")
                    if locs[0] is not None and locs[1] is not None and not (vals[0].g or vals[1].g):
                        # `a - b` with two variables: what keeps it from underflowing is a test that RELATES a and b (or each of them with
                        # a bound); a test of one of them alone (a sign test, the `Some` of an earlier checked_sub) says nothing about b <= a
                        if self._related(b, s.bb, locs[0], locs[1]):
                            return self._auto(s, "the two operands are compared with each other before the subtraction (dominating guard)")
                        if self.G(b, s.bb, locs[0], vals[0]) and self.G(b, s.bb, locs[1], vals[1]):
                            return self._auto(s, "both operands compared before the subtraction (dominating guards)")
                        return self._open(s, "Sub of %s and %s can underflow (no dominating test relates the two)" % (a, c), tainted)
                    if any(self.G(b, s.bb, l, v) for l, v in zip(locs, vals) if l is not None or v.g):
                        return self._auto(s, "operands compared before the subtraction (dominating guard)")
                    return self._open(s, "Sub of %s and %s can underflow" % (a, c), tainted)
                return self._open(s, "arithmetic %s" % kind, tainted)
            if kind in ("DivisionByZero", "RemainderByZero"):
                # the assert carries the dividend; the divisor is compared with 0 to form the condition
                div = None
                cl = F.op_local(t["cond"])
                for st in b["blocks"][s.bb]["stmts"]:
                    if st[0] == "assign" and st[1] == [cl] and st[2][0] == "binop" and st[2][1] in ("Eq", "Ne"):
                        div = st[2][2] if F.const_int(st[2][3]) == 0 else st[2][3]
                if div is not None:
                    if div[0] == "const" and div[1].get("int", 0) != 0:
                        return self._auto(s, "constant non-zero divisor")
                    v = T.operand(b, div)
                    l = F.op_local(div)
                    # x + c with c >= 1 (checked add) is never zero
                    if l is not None:
                        for d in T.defs(b).get(l, []):
                            if d[0] == "assign" and d[2][0] == "use" and F.op_place(d[2][1]) and len(F.op_place(d[2][1])) == 2:
                                src = F.op_place(d[2][1])[0]
                                for d2 in T.defs(b).get(src, []):
                                    if d2[0] == "assign" and d2[2][0] == "binop" and d2[2][1].startswith("Add") and (F.const_int(d2[2][3]) or 0) >= 1:
                                        return self._auto(s, "divisor is x + %d" % F.const_int(d2[2][3]))
                else:
                    v = vals[0] if vals else None
                    l = locs[0] if locs else None
                if self.GX(b, s.bb, div if div is not None else (ops[0] if ops else None), v):
                    return self._auto(s, "divisor compared before use")
                if div is not None and self.taint.captured_len_guarded(b, div):
                    return self._auto(s, "divisor is the length of a captured slice, compared in the enclosing function before the closure is created")
                return self._open(s, "divisor %s may be zero" % v, bool(v and v.taint))
            if kind == "OverflowNeg":
                return self._open(s, "negation of %s" % vals[0], vals[0].taint)
            if kind == "BoundsCheck":
                # ops = [len, index]
                idx = ops[1]
                iv = vals[1]
                il = locs[1]
                lenv = vals[0]
                if idx[0] == "const" and ops[0][0] == "const" and idx[1].get("int", 1 << 62) < ops[0][1].get("int", 0):
                    return self._auto(s, "constant index into a fixed-size array")
                if ops[0][0] == "const" and iv.bound < ops[0][1].get("int", 0):
                    return self._auto(s, "index bounded by %s < array length %s" % (_fmt(iv.bound), ops[0][1].get("int")))
                if self.GX(b, s.bb, idx, iv, arith=False):
                    return self._auto(s, "index compared before use")
                if il is not None and self._induction_over_len(b, il, self._bounds_base(b, s.bb, ops[0]), s.bb):
                    return self._auto(s, "index is the induction variable of a range bounded by the length of the same collection")
                # constant index: the base's length was tested before / the base is a chunk of constant size
                ci = self.const_of(b, idx)
                if ci is not None:
                    s.const_index = ci
                    base = self._bounds_base(b, s.bb, ops[0])
                    if base is not None and self._caller_vector(b, base):
                        return self._auto(s, "index into the caller's argument vector (&[f32] parameter of a public function): not file data")
                    if base is not None and self._len_guarded(b, s.bb, base, need=ci + 1):
                        return self._auto(s, "constant index after a length test on the same slice that leaves at least %d elements" % (ci + 1))
                    n = self._chunk_size(b, base)
                    if n is not None and ci < n:
                        return self._auto(s, "constant index %d into a chunk of constant size %d" % (ci, n))
                    return self._open(s, "constant index %d into a slice whose length was not tested" % ci, iv.taint)
                return self._open(s, "index %s may be out of bounds" % iv, iv.taint)
        if s.kind == "index" and (b.get("impl") or {}).get("trait", "").startswith("std::ops::Index"):
            # an `Index` implementation forwards the panicking contract of the trait; it matters only where the crate itself uses it
            users = [c for c, bi in self.taint.callers(b["id"])]
            if not users:
                return self._auto(s, "Index impl (panics by the trait's contract) that no read-reachable body of the crate calls")
            return self._open(s, "Index impl used on a read path by %s" % sorted(set(users))[:3], False)
        if s.kind == "index":
            il = F.op_local(t["args"][1])
            bl = F.op_local(t["args"][0])
            base_ty = t["arg_tys"][0]["s"]
            if "HashMap" in base_ty or "IndexMap" in base_ty or "BTreeMap" in base_ty:
                return self._open(s, "map index panics on a missing key", False)
            if s.detail == "range":
                fl = self.flow(b)
                if "RangeFull" in t["arg_tys"][1]["s"]:
                    return self._auto(s, "`x[..]`: the whole slice, no bound to violate")
                bounds = []
                for d in fl.defs.get(il, []) if il is not None else []:
                    if d[0] == "assign" and d[2][0] == "aggregate" and "fields" in d[2][1]:
                        for nm, o in zip(d[2][1]["fields"], d[2][2]):
                            bounds.append((nm, o))
                if not bounds and il is not None:
                    if any(a[0] == "call" and last_seg(a[1]) == "to_range" for a in fl.origins(il)):
                        return self._auto(s, "range produced by IndexRange::to_range(len) (rule G5 checks that it only returns start <= end <= len)")
                    return self._open(s, "range index", False)
                okall = True
                why = []
                anyt = False
                ma = re.search(r"\[\w+; (\d+)\]", base_ty)
                arr_n = int(ma.group(1)) if ma else None
                for nm, o in bounds:
                    v = T.operand(b, o)
                    anyt = anyt or v.taint
                    l = F.op_local(o)
                    if o[0] == "const":
                        why.append("%s const %s" % (nm, o[1].get("int")))
                        # constant bound: fine only if the base is at least that long: need a guard on the base length
                        if o[1].get("int", 0) == 0:
                            continue
                        if bl is not None and self._len_guarded(b, s.bb, bl, need=o[1].get("int", 0)):
                            continue
                        okall = False
                    elif arr_n is not None and v.bound <= arr_n:
                        why.append("%s <= %d = array length" % (nm, arr_n))
                    elif l is not None and (self.GX(b, s.bb, o, v, arith=False) or self._from_search(b, l, bl)):
                        why.append("%s guarded" % nm)
                    else:
                        okall = False
                        why.append("%s %s unguarded" % (nm, v))
                if okall:
                    return self._auto(s, "range bounds compared / found by search before slicing (%s)" % ", ".join(why))
                return self._open(s, "slice range may be out of bounds (%s)" % ", ".join(why), anyt)
            # element index through the Index trait (Vec / slice / array)
            v = T.operand(b, t["args"][1])
            m = re.search(r"\[\w+; (\d+)\]", base_ty)
            if m and v.bound < int(m.group(1)):
                return self._auto(s, "index bounded by %s < array length %s" % (_fmt(v.bound), m.group(1)))
            if v.g or il is not None and (T.guarded_exact(b, s.bb, t["args"][1], arith=False) or self._from_search(b, il, bl) or self._induction_over_len(b, il, bl, s.bb)):
                return self._auto(s, "index compared / searched / induction variable")
            ci = self.const_of(b, t["args"][1])
            if ci is not None:
                s.const_index = ci
                if bl is not None and self._len_guarded(b, s.bb, bl, need=ci + 1):
                    return self._auto(s, "constant index after a length test on the base that leaves at least %d elements" % (ci + 1))
                return self._open(s, "constant index %d into a collection whose length was not tested" % ci, v.taint)
            return self._open(s, "index %s may be out of bounds" % v, v.taint)
        if s.kind == "slicefn" and s.detail == "drain" and len(t["args"]) > 1 and "RangeFull" in t["arg_tys"][1]["s"]:
            return self._auto(s, "drain(..) takes the whole vector")
        if s.kind == "slicefn" and s.detail in ("copy_from_slice", "clone_from_slice"):
            la = self._slice_len(b, F.op_local(t["args"][0]))
            lb = self._slice_len(b, F.op_local(t["args"][1]))
            if la is not None and la == lb:
                return self._auto(s, "both slices are cut to the same length (%s)" % (la,))
            l0, l1 = F.op_local(t["args"][0]), F.op_local(t["args"][1])
            if l0 is not None and l1 is not None and self._len_guarded(b, s.bb, l0) and self._len_guarded(b, s.bb, l1):
                return self._auto(s, "the lengths of both slices are compared before the copy")
            return self._open(s, "%s: destination length %s, source length %s" % (s.detail, la, lb), False)
        if s.kind == "slicefn" and s.detail == "splice":
            rl = self._range_of(b, F.op_local(t["args"][1]))
            if rl is not None and rl[0] == ("const", 0) and rl[1] == ("const", 0):
                return self._auto(s, "splice(0..0, ..) inserts at the front; the range is always valid")
        if s.kind == "slicefn":
            vs = [T.operand(b, a) for a in t["args"][1:]]
            ls = [F.op_local(a) for a in t["args"][1:]]
            if s.detail in ("chunks", "chunks_exact", "windows"):
                if vs and vs[0].bound >= 1 and t["args"][1][0] == "const" and t["args"][1][1].get("int", 0) >= 1:
                    return self._auto(s, "constant non-zero chunk size")
                if ls and ls[0] is not None and T.guarded_exact(b, s.bb, t["args"][1]):
                    return self._auto(s, "chunk size compared before use")
                # windows(HEADER.len()) etc: sizes of constants
                if vs and not vs[0].taint and vs[0].bound == MEM:
                    return self._open(s, "chunk size from a length may be zero", False)
            if all(l is None or T.guarded_exact(b, s.bb, a) or self._from_search(b, l) for l, a in zip(ls, t["args"][1:])) and any(l is not None for l in ls):
                return self._auto(s, "arguments compared / searched before the call")
            return self._open(s, "%s(%s) may panic" % (s.detail, ", ".join(map(str, vs))), any(v.taint for v in vs))
        if s.kind == "contract" and s.detail.startswith("str-"):
            args = t["args"][1:]
            if args and args[0][0] == "const" and args[0][1].get("int") == 0:
                return self._auto(s, "index 0 is a character boundary")
            return self._open(s, "String::%s panics unless the index is on a character boundary within the text (the text is arbitrary file data)" % s.detail[4:], False)
        if s.kind == "contract":
            args = t["args"][1:]
            vs = [T.operand(b, a) for a in args]
            if s.detail == "clamp":
                cs = [self.const_of(b, a) if a[0] != "const" else a[1].get("int", a[1].get("float")) for a in args]
                if len(args) == 2 and all(a[0] == "const" for a in args):
                    return self._auto(s, "constant bounds")
                return self._open(s, "clamp(min, max) panics when min > max or a bound is NaN (bounds: %s)" % ", ".join(map(str, vs)), any(v.taint for v in vs))
            if args and args[0][0] == "const" and (args[0][1].get("int") or 0) != 0:
                return self._auto(s, "constant argument satisfying the contract (%s)" % CONTRACT_FNS[s.detail])
            if args and F.op_local(args[0]) is not None and self.GX(b, s.bb, args[0], vs[0]):
                return self._auto(s, "argument compared before the call")
            return self._open(s, "%s needs %s" % (s.detail, CONTRACT_FNS[s.detail]), any(v.taint for v in vs))
        if s.kind == "alloc":
            k = 1 if s.detail not in ("from_elem",) else 1
            if s.detail == "with_capacity":
                k = 0
            if s.detail == "from_elem":
                k = 1
            if s.detail == "repeat-take":
                k = 1
            if len(t["args"]) <= k:
                return self._auto(s, "no size argument")
            v = T.operand(b, t["args"][k])
            l = F.op_local(t["args"][k])
            if v.bound <= ALLOC_LIMIT:
                return self._auto(s, "size bounded by %s" % _fmt(v.bound))
            if not v.taint:
                return self._auto(s, "size derives from in-memory data (proportional to the input)")
            if self.GX(b, s.bb, t["args"][k], v, upper=True):
                return self._auto(s, "size compared before the allocation")
            return self._open(s, "allocation sized by %s" % v, True)
        if s.kind == "unwrap":
            return self._unwrap(s, t)
        if s.kind == "panic":
            why = self._variant_panic(s)
            if why:
                return self._auto(s, why)
            return self._open(s, "explicit panic (%s)" % "/".join(x for x in s.mac if x.endswith("!")) , False)
        return self._open(s, "unclassified", False)

    # ---- helpers ---------------------------------------------------------------
    def _related(self, b, site_bb, la, lb):
        """a deciding comparison (or a checked_sub / get of a range) in front of the site has one side computed from la's ancestors and the other from lb's"""
        T = self.taint
        cfg = T.cfg(b)
        def anc(z):
            # `v.len()` taken twice is the same quantity; but `self.first_char` and `self.values.len()` only share `self`: the reference to the
            # whole struct relates nothing
            out = T.ancestors(b, z, through_access=True) | {z}
            return {x for x in out if not (isinstance(x, int) and 1 <= x <= b["argc"] and b["locals"][x]["s"].startswith("&") and "[" not in b["locals"][x]["s"])}
        aa, ab = anc(la), anc(lb)
        for bi, bb in enumerate(b["blocks"]):
            if not cfg.dominates(bi, site_bb) or bi == site_bb:
                continue
            t = bb["term"]
            pairs = []
            if t["k"] == "switch":
                for st in bb["stmts"]:
                    if st[0] == "assign" and st[2][0] == "binop" and st[2][1] in ("Lt", "Le", "Gt", "Ge", "Eq", "Ne") and F.op_local(t["discr"]) == st[1][0]:
                        pairs.append((F.op_local(st[2][2]), F.op_local(st[2][3])))
            if t["k"] == "call" and last_seg(F.callee_name(t)) in ("checked_sub", "cmp", "partial_cmp", "min", "max") and len(t["args"]) == 2:
                pairs.append((F.op_local(t["args"][0]), F.op_local(t["args"][1])))
            for x, y in pairs:
                if x is None or y is None:
                    continue
                ax, ay = anc(x), anc(y)
                if ((ax & aa and ay & ab) or (ax & ab and ay & aa)) and T.separates(b, bi, site_bb):
                    return True
        return False

    def G(self, b, bb, l, v=None):
        """the local is compared before the site (here), or every tainted contribution was compared in the callers"""
        if v is not None and v.g:
            return True
        return l is not None and self.taint.guarded(b, bb, l)

    def GX(self, b, bb, op, v=None, arith=True, upper=False):
        """the very value used (same expression) is compared / looked up before the site, or was in all callers"""
        if v is not None and v.g:
            return True
        if op is None:
            return False
        return self.taint.guarded_exact(b, bb, op, arith=arith, upper=upper)

    def const_of(self, b, op):
        if op[0] == "const":
            return op[1].get("int")
        l = F.op_local(op)
        if l is None or len(F.op_place(op)) != 1:
            return None
        ds = self.taint.defs(b).get(l, [])
        if len(ds) == 1 and ds[0][0] == "assign" and ds[0][2][0] == "use" and ds[0][2][1][0] == "const":
            return ds[0][2][1][1].get("int")
        return None

    def _auto(self, s, reason):
        s.status = "auto"
        s.reason = reason
        return s

    def _open(self, s, reason, tainted):
        s.status = "open"
        s.reason = ("[tainted] " if tainted else "") + reason
        return s

    def _unwrap(self, s, t):
        b = s.body
        fl = self.flow(b)
        l = F.op_local(t["args"][0])
        ats = fl.origins(l, passthrough=()) if l is not None else []
        calls_ = [(last_seg(a[1]), a[1], a[3]) for a in ats if a[0] == "call"]
        names = [c[0] for c in calls_]
        if "lock" in names:
            return self._auto(s, "Mutex::lock().unwrap(): fails only after a panic of another holder")
        if "write_fmt" in names and any("String" in c[2].get("callee_full", "") + str(c[2].get("arg_tys")) for c in calls_):
            return self._auto(s, "write! into a String cannot fail")
        if "try_into" in names or "try_from" in names:
            # slice -> array conversion: safe when the slice comes from get(a..a+N) / chunks_exact(N)
            full = " ".join(c[2].get("callee_full", "") + c[2].get("resolved_full", "") for c in calls_)
            if re.search(r"\[u8; \d+\]", full):
                src = [a for a in fl.origins(l) if a[0] == "call" and last_seg(a[1]) in ("get", "chunks_exact", "next", "ok_or", "branch")]
                if any(last_seg(a[1]) in ("get", "chunks_exact") for a in src):
                    return self._auto(s, "array conversion of a slice of exactly that length (get(a..a+N) / chunks_exact(N))")
        if "try_into" in names or "try_from" in names:
            # Vec / slice -> array: the length of the source was compared on the way here
            for c in calls_:
                if c[0] in ("try_into", "try_from"):
                    src = F.op_local(c[2]["args"][0])
                    # the array length the conversion wants: `[T; N]` in the type of the result
                    tys = c[2].get("callee_full", "") + " " + c[2].get("resolved_full", "") + " " + (b["locals"][c[2]["dest"][0]]["s"] if c[2].get("dest") else "")
                    mm = re.search(r"\[[^\[\];]+; (\d+)\]", tys)
                    if src is not None and mm and self._len_is(b, s.bb, src, int(mm.group(1))):
                        return self._auto(s, "array conversion after a test that leaves exactly %s elements" % mm.group(1))
        if "last_mut" in names or "last" in names or "first" in names or "first_mut" in names:
            for c in calls_:
                if c[0] in ("last_mut", "last", "first", "first_mut"):
                    src = F.op_local(c[2]["args"][0])
                    if src is not None and self._len_guarded(b, s.bb, src):
                        return self._auto(s, "first()/last() after a length test of the collection")
            return self._open(s, "unwrap of first()/last(): empty collection", False)
        if "as_mut" in names or "as_ref" in names:
            # Option field that was assigned Some(..) in a dominating block of this body
            for c in calls_:
                if c[0] in ("as_mut", "as_ref"):
                    pl = self._ref_place(b, F.op_local(c[2]["args"][0]))
                    if pl is not None and self._assigned_some(b, s.bb, pl):
                        return self._auto(s, "Option field assigned Some(..) in a dominating block")
        return self._open(s, "unwrap/expect on %s" % (names or "value"), False)

    def _root(self, b, op):
        """canonical description of an operand: ("const", n) | ("local", root) | ("add", root, n) | ("len", root)"""
        c = self.const_of(b, op)
        if c is not None:
            return ("const", c)
        l = F.op_local(op)
        seen = set()
        d = self.taint.defs(b)
        while l is not None and l not in seen:
            seen.add(l)
            ds = d.get(l, [])
            if len(ds) != 1:
                break
            df = ds[0]
            if df[0] == "assign" and df[2][0] in ("use", "cast") :
                src = df[2][1] if df[2][0] == "use" else df[2][2]
                pl = F.op_place(src)
                if pl is None:
                    break
                if len(pl) == 1:
                    l = pl[0]
                    continue
                if len(pl) == 2 and pl[1][0] == "field" and pl[1][2] == "0":
                    # (x + c).0 of a checked add
                    for d2 in d.get(pl[0], []):
                        if d2[0] == "assign" and d2[2][0] == "binop" and d2[2][1].startswith("Add"):
                            c2 = self.const_of(b, d2[2][3])
                            r = self._root(b, d2[2][2])
                            if c2 is not None and r and r[0] == "local":
                                return ("add", r[1], c2)
                break
            if df[0] == "call" and last_seg(F.callee_name(df[2])) == "len":
                r = self._root(b, df[2]["args"][0])
                return ("len", r[1] if r and r[0] == "local" else l)
            break
        return ("local", l) if l is not None else None

    def _range_of(self, b, rl):
        """(start, end) descriptions of a Range / RangeTo / RangeFrom / RangeFull aggregate held in local rl"""
        if rl is None:
            return None
        for d in self.taint.defs(b).get(rl, []):
            if d[0] == "assign" and d[2][0] == "aggregate":
                adt = d[2][1].get("adt", "")
                names = d[2][1].get("fields", [])
                vals = {n: self._root(b, o) for n, o in zip(names, d[2][2])}
                if adt.endswith("RangeFull"):
                    return (("const", 0), None)
                return (vals.get("start", ("const", 0)), vals.get("end"))
        return None

    def _slice_len(self, b, sl):
        """symbolic length of a slice produced by indexing with a range: ("const", n) | ("sym", text)"""
        if sl is None:
            return None
        fl = self.flow(b)
        for a in fl.origins(sl, passthrough=("deref", "as_ref", "borrow", "as_mut", "deref_mut")):
            if a[0] == "call" and last_seg(a[1]) in ("index", "index_mut") and len(a[3]["args"]) == 2:
                r = self._range_of(b, F.op_local(a[3]["args"][1]))
                if r is None:
                    return None
                st, en = r
                if en is None:
                    return None
                if st == ("const", 0):
                    return en
                if st[0] == "const" and en[0] == "const":
                    return ("const", en[1] - st[1])
                if st[0] == "local" and en[0] == "add" and en[1] == st[1]:
                    return ("const", en[2])
                if st[0] == "add" and en[0] == "add" and st[1] == en[1]:
                    return ("const", en[2] - st[2])
                return ("sym", "%s..%s" % (st, en))
        return None

    def _bounds_base(self, b, bb, len_op):
        """the slice whose length a BoundsCheck compares with: `_len = PtrMetadata(copy _base)` / Len"""
        l = F.op_local(len_op)
        if l is None:
            return None
        for d in self.taint.defs(b).get(l, []):
            if d[0] == "assign":
                rv = d[2]
                if rv[0] == "unop" and rv[1] == "PtrMetadata":
                    return F.op_local(rv[2]) if F.op_local(rv[2]) is not None else (F.op_place(rv[2])[0] if F.op_place(rv[2]) else None)
                if rv[0] == "other":
                    m = re.search(r"Len\(\(?\*?_(\d+)", rv[1])
                    if m:
                        return int(m.group(1))
        return None

    def _chunk_size(self, b, base):
        """constant N if `base` is the parameter of a closure mapped over chunks_exact(N) / windows(N) in its parent"""
        from_param = False
        if base is not None and b["kind"] == "Closure":
            from_param = (1 <= base <= b["argc"]) or any(a[0] == "arg" and a[1] >= 2 for a in self.flow(b).origins(base, passthrough=()))
        if base is None or b["kind"] != "Closure" or not from_param:
            # also: a local produced by Iterator::next on ChunksExact inside the same body
            if base is not None:
                fl = self.flow(b)
                for a in fl.origins(base):
                    if a[0] == "call" and last_seg(a[1]) in ("chunks_exact", "windows") and len(a[3]["args"]) > 1:
                        c = F.const_int(a[3]["args"][1])
                        if c:
                            return c
            return None
        parent = self.f.bodies.get(b.get("parent") or b.get("owner_fn") or "")
        if parent is None:
            return None
        sizes = []
        for bi, t in F.calls(parent):
            if last_seg(F.callee_name(t)) in ("chunks_exact", "windows", "array_chunks") and len(t["args"]) > 1:
                c = F.const_int(t["args"][1])
                sizes.append(c or 0)
        # every chunked iterator the parent builds has at least this many elements per item
        return min(sizes) if sizes and min(sizes) > 0 else None

    # ---- panics behind a match on an enum -------------------------------------------------------------
    def _variant_panic(self, s):
        """`match x { Good(..) => .., _ => panic }`: discharged when the variants that reach the panic are never
        constructed in the crate, or when x is the payload of a wrapper type every construction of which is
        dominated by a test for the good variant"""
        b = s.body
        cfg = self.taint.cfg(b)
        best = None
        for i, bb in enumerate(b["blocks"]):
            t = bb["term"]
            if t["k"] != "switch" or not cfg.dominates(i, s.bb):
                continue
            dl = F.op_local(t["discr"])
            for st in bb["stmts"]:
                if st[0] == "assign" and st[1] == [dl] and st[2][0] == "discr":
                    best = (i, t, st[2][1])
        if best is None:
            return None
        i, t, pl = best
        adt = self._place_adt(b, pl)
        if adt is None or adt not in self.f.adts:
            return None
        variants = [v["name"] for v in self.f.adts[adt]["variants"]]
        arms = {a[0]: a[1] for a in t["arms"]}
        bad = []
        good = []
        for vi, name in enumerate(variants):
            tgt = arms.get(vi, t["otherwise"])
            if tgt == s.bb or s.bb in cfg.reachable_from(tgt):
                bad.append(name)
            else:
                good.append(name)
        if not bad or not good:
            return None
        built = self._constructed_variants(adt)
        if not (set(bad) & built):
            return "the variants that reach this panic (%s of %s) are never constructed in the crate" % (", ".join(bad), adt.split("::")[-1])
        # wrapper invariant: the scrutinee is *self.0 of a tuple struct
        im = b.get("impl") or {}
        w = im.get("self_adt")
        if w and w in self.f.adts and len(self.f.adts[w]["variants"]) == 1 and len(self.f.adts[w]["variants"][0]["fields"]) == 1 \
                and adt.split("::")[-1] in self.f.adts[w]["variants"][0]["fields"][0]["s"]:
            offenders = self._wrapper_invariant(w, adt, set(good))
            if not offenders:
                return "every %s in the crate is built from a value tested to be %s::%s (or created from that variant)" % (w.split("::")[-1], adt.split("::")[-1], "|".join(good))
            s.reason = "wrapper built without the variant test in " + ", ".join(offenders[:3])
        return None

    def _place_adt(self, b, pl):
        from tables import place_adt
        a = place_adt(b, pl, self.f)
        if a:
            return a
        # through a Deref call: `_2 = <RcRef<E> as Deref>::deref(..)`; discr((*_2))
        ty = b["locals"][pl[0]]["s"]
        m = re.match(r"^&(?:mut )?([\w:]+)$", ty)
        return m.group(1) if m and m.group(1) in self.f.adts else None

    def _constructed_variants(self, adt):
        c = getattr(self, "_cv", None)
        if c is None:
            c = self._cv = {}
            for bb in self.f.bodies.values():
                if any(m in ("derive(Clone)", "derive(DeepClone)", "derive(Copy)") for m in (bb.get("mac") or [])):
                    continue        # copies of an existing value of the same variant
                for i, j, st in F.stmts(bb):
                    if st[0] == "assign" and st[2][0] == "aggregate" and st[2][1].get("k") == "adt":
                        c.setdefault(st[2][1]["adt"], set()).add(st[2][1].get("variant"))
                    elif st[0] == "setdiscr":
                        c.setdefault("*", set()).add("*")
        return c.get(adt, set())

    def _wrapper_invariant(self, w, enum_adt, good):
        key = (w, enum_adt, tuple(sorted(good)))
        memo = getattr(self, "_wi", None)
        if memo is None:
            memo = self._wi = {}
        if key in memo:
            return memo[key]
        off = []
        n = 0
        for bb in self.f.bodies.values():
            for i, j, st in F.stmts(bb):
                if not (st[0] == "assign" and st[2][0] == "aggregate" and st[2][1].get("adt") == w):
                    continue
                n += 1
                if any(m.startswith("derive(") for m in (bb.get("mac") or [])):
                    continue        # Clone / DeepClone copies of an existing wrapper
                if not self._wrapper_site_ok(bb, i, st[2][2][0], enum_adt, good):
                    off.append(bb["id"])
        if n == 0:
            off.append("<no construction found>")
        memo[key] = off
        return off

    def _wrapper_site_ok(self, b, bi, op, enum_adt, good):
        cfg = self.taint.cfg(b)
        fl = self.flow(b)
        root = F.op_local(op)
        rootpl = self.taint.canon_place(b, [root]) if root is not None else None
        # (ii) created from an aggregate of the good variant
        for a in fl.origins(root) if root is not None else []:
            if a[0] == "call" and last_seg(a[1]) in ("create", "new", "from", "into"):
                for arg in a[3]["args"]:
                    al = F.op_local(arg)
                    for x in fl.origins(al) if al is not None else []:
                        if x[0] == "agg" and x[1].get("adt") == enum_adt and x[1].get("variant") in good:
                            return True
        # (i) dominated by a switch on the discriminant of (the deref of) the same value, reached through a good arm only
        variants = [v["name"] for v in self.f.adts[enum_adt]["variants"]]
        for i, bb in enumerate(b["blocks"]):
            t = bb["term"]
            if t["k"] != "switch" or not cfg.dominates(i, bi):
                continue
            dl = F.op_local(t["discr"])
            for st in bb["stmts"]:
                if st[0] == "assign" and st[1] == [dl] and st[2][0] == "discr" and self._place_adt(b, st[2][1]) == enum_adt:
                    # is the scrutinee the deref of our value?
                    base = st[2][1][0]
                    same = False
                    for d in self.taint.defs(b).get(base, []):
                        if d[0] == "call" and last_seg(F.callee_name(d[2])) in ("deref", "as_ref", "borrow"):
                            pl = self._ref_place(b, F.op_local(d[2]["args"][0]))
                            if pl is not None and pl == rootpl:
                                same = True
                    if not same:
                        continue
                    arms = {a[0]: a[1] for a in t["arms"]}
                    ok = True
                    for vi, name in enumerate(variants):
                        tgt = arms.get(vi, t["otherwise"])
                        if name not in good and (tgt == bi or bi in cfg.reachable_from(tgt, avoid={i})):
                            ok = False
                    if ok:
                        return True
        return False

    def _ref_place(self, b, l):
        """the place a reference local points at: `_l = &mut (*_1).decoder`"""
        if l is None:
            return None
        for d in self.taint.defs(b).get(l, []):
            if d[0] == "assign" and d[2][0] in ("ref", "rawptr"):
                return self.taint.canon_place(b, d[2][1])
        return None

    def _assigned_some(self, b, site_bb, pl):
        cfg = self.taint.cfg(b)
        found = False
        for i, j, st in F.stmts(b):
            if st[0] != "assign" or len(st[1]) < 2:
                continue
            if self.taint.canon_place(b, st[1]) != pl:
                continue
            rv = st[2]
            is_some = False
            if rv[0] == "aggregate" and rv[1].get("variant") == "Some":
                is_some = True
            elif rv[0] == "use":
                src = F.op_local(rv[1])
                is_some = src is not None and any(d[0] == "assign" and d[2][0] == "aggregate" and d[2][1].get("variant") == "Some" for d in self.taint.defs(b).get(src, []))
            if is_some and cfg.dominates(i, site_bb) and i != site_bb:
                found = True
            elif not is_some:
                return False      # some other value is stored into the field in this body
        return found

    def _caller_vector(self, b, base):
        if not b.get("pub") or b["kind"] == "Closure":
            return False
        for a in self.flow(b).origins(base, passthrough=()):
            if a[0] == "arg" and b["locals"][a[1]]["s"] in ("&[f32]", "&mut [f32]"):
                return True
        return False

    _COLL_PT = ("iter", "iter_mut", "into_iter", "as_slice", "as_mut_slice", "deref", "deref_mut", "as_ref", "as_mut", "as_bytes", "enumerate",
                "borrow", "borrow_mut", "chars", "bytes", "rev", "skip", "peekable", "by_ref", "clone", "to_vec", "unwrap", "branch", "expect")

    def _coll_id(self, b, l):
        """identity of the collection a local stands for: the roots it derives from (parameters, producing calls) and the fields read on the way"""
        if l is None:
            return None
        fl = self.flow(b)
        flds = set()
        roots = set()
        for a in fl.origins(l, passthrough=self._COLL_PT, fields=flds):
            if a[0] == "arg":
                roots.add(("arg", a[1]))
            elif a[0] == "call" and last_seg(a[1]) not in self._COLL_PT:
                roots.add(("call", a[2]))
            elif a[0] == "agg":
                roots.add(("agg", a[2]))
        return (frozenset(roots), frozenset(x for x in flds if not x.startswith("as:")))

    def _same_coll(self, b, l1, l2):
        a, c = self._coll_id(b, l1), self._coll_id(b, l2)
        if a is None or c is None or not a[0] or not c[0]:
            return True            # identity not recovered: do not invent a difference
        return bool(a[0] & c[0]) and a[1] == c[1]

    def _len_equal(self, b, site_bb, l1, l2):
        """len() of the two collections was compared for equality, and only the equal outcome reaches the site (assert_eq!(a.len(), b.len()),
        `if a.len() != b.len() { return .. }`)"""
        if site_bb is None:
            return False
        fl = self.flow(b)
        cfg = self.taint.cfg(b)

        def len_of(op):
            l = F.op_local(op)
            out = []
            for a in fl.origins(l) if l is not None else []:
                if a[0] == "call" and last_seg(a[1]) == "len" and a[3]["args"]:
                    out.append(F.op_local(a[3]["args"][0]))
            return [x for x in out if x is not None]
        for ci, cb in enumerate(b["blocks"]):
            tt = cb["term"]
            if tt["k"] != "switch" or not cfg.dominates(ci, site_bb):
                continue
            for st in cb["stmts"]:
                if st[0] == "assign" and st[2][0] == "binop" and st[2][1] in ("Eq", "Ne") and F.op_local(tt["discr"]) == st[1][0]:
                    xs, ys = len_of(st[2][2]), len_of(st[2][3])
                    if not xs or not ys:
                        continue
                    pair = (any(self._same_coll(b, x, l1) for x in xs) and any(self._same_coll(b, y, l2) for y in ys)) or \
                           (any(self._same_coll(b, x, l2) for x in xs) and any(self._same_coll(b, y, l1) for y in ys))
                    if not pair:
                        continue
                    arms = {a[0]: a[1] for a in tt["arms"]}
                    false_t = arms.get(0, tt.get("otherwise"))
                    on_false = false_t == site_bb or (false_t is not None and site_bb in cfg.reachable_from(false_t, avoid={ci}))
                    true_t = [x for x in ({a[1] for a in tt["arms"]} | {tt.get("otherwise")}) if x != false_t and x is not None]
                    on_true = any(x == site_bb or site_bb in cfg.reachable_from(x, avoid={ci}) for x in true_t)
                    if on_true == on_false:
                        continue
                    if (st[2][1] == "Eq" and on_true) or (st[2][1] == "Ne" and on_false):
                        return True
        return False

    def _from_search(self, b, l, base=None):
        """the index was produced by a search in / an enumeration of the collection it is used on"""
        fl = self.flow(b)
        for a in fl.origins(l):
            if a[0] == "call" and last_seg(a[1]) in ("position", "rposition", "find", "iter_position", "enumerate"):
                if base is None:
                    return True
                recv = F.op_local(a[3]["args"][0]) if a[3]["args"] else None
                if recv is None or self._same_coll(b, recv, base):
                    return True
        return False

    def _induction_over_len(self, b, l, base=None, site_bb=None):
        """l comes (through copies) out of Iterator::next on a Range whose end derives from len() of the indexed collection, or out of enumerate() over it"""
        fl = self.flow(b)
        for a in fl.origins(l):
            if a[0] == "call" and last_seg(a[1]) == "next":
                it = F.op_local(a[3]["args"][0])
                for x in fl.origins(it) if it is not None else []:
                    if x[0] == "agg" and x[1].get("adt", "").startswith("std::ops::Range"):
                        names = x[1].get("fields", [])
                        if "end" in names:
                            eo = x[3][2][names.index("end")]
                            el = F.op_local(eo)
                            for y in fl.origins(el) if el is not None else []:
                                if y[0] == "call" and last_seg(y[1]) == "len":
                                    recv = F.op_local(y[3]["args"][0]) if y[3]["args"] else None
                                    if base is None or recv is None or self._same_coll(b, recv, base) or self._len_equal(b, site_bb, recv, base):
                                        return True
                    if x[0] == "call" and last_seg(x[1]) == "enumerate":
                        recv = F.op_local(x[3]["args"][0]) if x[3]["args"] else None
                        if base is None or recv is None or self._same_coll(b, recv, base) or self._len_equal(b, site_bb, recv, base):
                            return True
        return False

    def _len_is(self, b, site_bb, base_local, n):
        """a deciding test on the way to the site leaves exactly len == n (`if v.len() != 2 { bail }`, `match v.len() { 2 => .. }`)"""
        self._exact_len = set()
        self._len_lb(b, site_bb, base_local, True, 0)
        return n in self._exact_len

    _exact_len = set()

    def _len_guarded(self, b, site_bb, base_local, need=None):
        best = self._len_lb(b, site_bb, base_local, need is not None, 0)
        if best is None:
            return False
        if need is None:
            return True
        return best >= need

    def _len_lb(self, b, site_bb, base_local, numeric, depth):
        """a test of len() of (something derived from the same root as) the base dominates the site AND decides whether the site is reached
        (one outcome of the test leaves).  With `need`: the outcome that reaches the site implies len >= need (constant comparisons only)."""
        fl = self.flow(b)
        cfg = self.taint.cfg(b)
        T = self.taint
        from flow import PASS_LAST
        pt = PASS_LAST + ("into_bytes", "into_boxed_slice", "data", "into_string")
        broots = set()
        for a in fl.origins(base_local, passthrough=pt):
            if a[0] == "arg":
                broots.add(("arg", a[1]))
            elif a[0] == "call":
                broots.add(("call", a[2]))
        best = None
        for bi, t in F.calls(b):
            nm = last_seg(F.callee_name(t))
            if nm not in ("len", "is_empty", "starts_with", "ends_with") or not cfg.dominates(bi, site_bb) or t.get("dest") is None:
                continue
            l = F.op_local(t["args"][0])
            lr = set()
            for a in fl.origins(l, passthrough=pt) if l is not None else []:
                if a[0] == "arg":
                    lr.add(("arg", a[1]))
                elif a[0] == "call":
                    lr.add(("call", a[2]))
            if not (lr & broots):
                continue
            d = t["dest"][0]
            # locals holding the result (copies)
            res = {d}
            for _ in range(3):
                for i2, j2, st in F.stmts(b):
                    if st[0] == "assign" and len(st[1]) == 1 and st[2][0] == "use" and F.op_local(st[2][1]) in res:
                        res.add(st[1][0])
            if nm in ("is_empty", "starts_with", "ends_with"):
                # flag: switched on directly
                for ci, cb in enumerate(b["blocks"]):
                    tt = cb["term"]
                    if tt["k"] == "switch" and F.op_local(tt["discr"]) in res and cfg.dominates(ci, site_bb) and T.separates(b, ci, site_bb):
                        arms = {a[0]: a[1] for a in tt["arms"]}
                        false_t = arms.get(0, tt.get("otherwise"))
                        on_false = false_t == site_bb or site_bb in cfg.reachable_from(false_t, avoid={ci})
                        if nm == "is_empty":
                            lb = 1 if on_false else 0
                        else:
                            n = None
                            if len(t["args"]) > 1:
                                cb2 = F.const_bytes(t["args"][1]) if hasattr(F, "const_bytes") else None
                                n = len(cb2) if cb2 is not None else None
                                # `&[0xfe, 0xff]` coerced to a slice: the array type carries the length
                                x = F.op_local(t["args"][1])
                                for _ in range(4):
                                    if n is not None or x is None:
                                        break
                                    mm = re.match(r"&(?:mut )?\[\w+; (\d+)\]$", b["locals"][x]["s"])
                                    if mm:
                                        n = int(mm.group(1))
                                        break
                                    ds = T.defs(b).get(x, [])
                                    x = None
                                    if len(ds) == 1 and ds[0][0] == "assign" and ds[0][2][0] in ("cast", "use"):
                                        x = F.op_local(ds[0][2][2] if ds[0][2][0] == "cast" else ds[0][2][1])
                            lb = (n if n is not None else 1) if not on_false else 0
                        best = lb if best is None else max(best, lb)
                continue
            for ci, cb in enumerate(b["blocks"]):
                tt = cb["term"]
                if not cfg.dominates(ci, site_bb):
                    continue
                if tt["k"] == "switch" and F.op_local(tt["discr"]) in res:
                    # `match v.len() { 2 => .., 1 => .. }`: in the arm for n (and no other) the length is n
                    tgts = {}
                    for val, tg in tt["arms"]:
                        tgts.setdefault(tg, []).append(val)
                    for tg, vals in tgts.items():
                        if (tg == site_bb or site_bb in cfg.reachable_from(tg, avoid={ci})) and \
                                not any(o != tg and o is not None and (o == site_bb or site_bb in cfg.reachable_from(o, avoid={ci})) for o in list(tgts) + [tt.get("otherwise")]):
                            lb = min(vals)
                            if len(vals) == 1:
                                self._exact_len.add(vals[0])
                            best = lb if best is None else max(best, lb)
                for st in cb["stmts"]:
                    if not (st[0] == "assign" and st[2][0] == "binop" and st[2][1] in ("Lt", "Le", "Gt", "Ge", "Eq", "Ne")):
                        continue
                    o1, o2 = st[2][2], st[2][3]
                    side = 0 if F.op_local(o1) in res else (1 if F.op_local(o2) in res else None)
                    if side is None:
                        continue
                    if tt["k"] == "assert":
                        continue
                    if tt["k"] != "switch" or F.op_local(tt["discr"]) != st[1][0] or not T.separates(b, ci, site_bb):
                        continue
                    other = o2 if side == 0 else o1
                    k = self.const_of(b, other)
                    op = st[2][1] if side == 0 else {"Lt": "Gt", "Le": "Ge", "Gt": "Lt", "Ge": "Le", "Eq": "Eq", "Ne": "Ne"}[st[2][1]]
                    arms = {a[0]: a[1] for a in tt["arms"]}
                    false_t = arms.get(0, tt.get("otherwise"))
                    on_false = false_t == site_bb or (false_t is not None and site_bb in cfg.reachable_from(false_t, avoid={ci}))
                    true_t = arms.get(1, tt.get("otherwise")) if 0 in arms else None
                    on_true = not on_false
                    if k is None:
                        # compared with another length: a decision, but no number - unless the two are found equal and the other one is bounded
                        if not numeric:
                            best = 1 if best is None else max(best, 1)
                        elif depth < 2 and ((op == "Eq" and on_true) or (op == "Ne" and not on_true)):
                            ol = F.op_local(other)
                            for a in fl.origins(ol) if ol is not None else []:
                                if a[0] == "call" and last_seg(a[1]) == "len":
                                    xl = F.op_local(a[3]["args"][0])
                                    lb2 = self._len_lb(b, site_bb, xl, True, depth + 1) if xl is not None else None
                                    if lb2 is not None:
                                        best = lb2 if best is None else max(best, lb2)
                        continue
                    # len OP k holds on the true branch, its negation on the false branch
                    if on_true:
                        lb = {"Eq": k, "Ge": k, "Gt": k + 1}.get(op, 0)
                    else:
                        lb = {"Ne": k, "Lt": k, "Le": k + 1}.get(op, 0)
                    if (op == "Eq" and on_true) or (op == "Ne" and not on_true):
                        self._exact_len.add(k)          # on the way to the site the length IS k
                    best = lb if best is None else max(best, lb)
        return best


def _fmt(v):
    if v == INF:
        return "inf"
    if v >= 1 << 20:
        return "2^%d" % int(v).bit_length()
    return str(int(v))


def _has_inf_non_mem(vals):
    return any(v.bound == INF for v in vals)
