"""Fact extraction (mirx) and loading for the /verif rule library.

Facts are keyed by a content hash of the analysed sources, so several checks on the same tree
share one extraction and any edit to /repo forces a new one.  Nothing here executes code of
pdf-rs/pdf: the crate is only type-checked by a nightly rustc with the mirx callback installed.
"""
import fcntl
import glob
import hashlib
import json
import os
import shutil
import subprocess
import sys
import time

VERIF = os.path.dirname(os.path.dirname(os.path.abspath(__file__)))
REPO = os.environ.get("VERIF_REPO", "/repo")
CACHE = os.environ.get("VERIF_CACHE", os.path.join(VERIF, ".cache"))
MIRX = os.path.join(VERIF, "engines", "mirx", "target", "release", "mirx")
ASTX = os.path.join(VERIF, "engines", "astx", "target", "release", "astx")

# feature configurations the build admits offline
CONFIGS = {
    "default": [],
    "nodefault": ["--no-default-features"],
    "nocache": ["--no-default-features", "--features", "sync"],
}


def _iter_sources(repo):
    out = []
    for top in ("Cargo.toml", "Cargo.lock"):
        p = os.path.join(repo, top)
        if os.path.exists(p):
            out.append(p)
    for sub in ("pdf", "pdf_derive"):
        for root, dirs, files in os.walk(os.path.join(repo, sub)):
            dirs[:] = sorted(d for d in dirs if d not in ("target", ".git", "files", "fuzz"))
            for f in sorted(files):
                if f.endswith((".rs", ".toml")):
                    out.append(os.path.join(root, f))
    return out


def tree_hash(repo=None):
    repo = repo or REPO
    h = hashlib.sha256()
    for p in _iter_sources(repo):
        h.update(os.path.relpath(p, repo).encode())
        h.update(b"\0")
        with open(p, "rb") as f:
            h.update(f.read())
        h.update(b"\0")
    return h.hexdigest()[:16]


def _sysroot():
    return subprocess.check_output(["rustc", "+nightly", "--print", "sysroot"], text=True).strip()


def _prune(keep):
    """keep at most nine tree hashes of facts"""
    base = os.path.join(CACHE, "facts")
    if not os.path.isdir(base):
        return
    ds = [os.path.join(base, d) for d in os.listdir(base)]
    ds = [d for d in ds if os.path.isdir(d) and os.path.basename(d) != keep]
    ds.sort(key=lambda d: os.path.getmtime(d), reverse=True)
    for d in ds[8:]:
        shutil.rmtree(d, ignore_errors=True)


def extract(config="default", repo=None, quiet=True):
    """Run mirx over <repo>/pdf and return the path of the fact file (cached by tree hash)."""
    repo = repo or REPO
    th = tree_hash(repo)
    outdir = os.path.join(CACHE, "facts", th, config)
    fact = os.path.join(outdir, "pdf-rlib.json")
    if os.path.exists(fact) and os.path.getsize(fact) > 1000:
        try:
            os.utime(os.path.dirname(outdir))
        except OSError:
            pass
        return fact
    os.makedirs(CACHE, exist_ok=True)
    lock = open(os.path.join(CACHE, ".lock"), "w")
    fcntl.flock(lock, fcntl.LOCK_EX)
    try:
        if os.path.exists(fact) and os.path.getsize(fact) > 1000:
            return fact
        if not os.path.exists(MIRX):
            raise RuntimeError("mirx is not built: run MANIFEST.setup_cmd (./bin/setup)")
        os.makedirs(outdir, exist_ok=True)
        tgt = os.path.join(CACHE, "tgt")
        # cargo's freshness cache would skip the wrapper: forget the members' fingerprints
        # (cargo hashes workspace members by their path *relative to the workspace root*, so a
        # scratch copy of the repository collides with /repo in a shared target directory and
        # mtime-based freshness would reuse the other tree's proc-macro: always rebuild members)
        for pat in ("pdf-*", "pdf_derive-*"):
            for fp in glob.glob(os.path.join(tgt, "debug", ".fingerprint", pat)):
                shutil.rmtree(fp, ignore_errors=True)
        env = dict(os.environ)
        env.update({
            "LD_LIBRARY_PATH": _sysroot() + "/lib",
            "RUSTFLAGS": "-Zmir-opt-level=0 -Awarnings",
            "RUSTC_WORKSPACE_WRAPPER": MIRX,
            "MIRX_OUT": outdir,
            "MIRX_CRATES": "pdf",
            "CARGO_TARGET_DIR": tgt,
            "CARGO_NET_OFFLINE": "true",
        })
        cmd = ["cargo", "+nightly", "check", "--offline", "-p", "pdf", "--lib"] + CONFIGS[config]
        t0 = time.time()
        r = subprocess.run(cmd, cwd=os.path.join(repo, "pdf"), env=env,
                           stdout=subprocess.PIPE, stderr=subprocess.STDOUT, text=True)
        if r.returncode != 0 or not os.path.exists(fact):
            sys.stderr.write(r.stdout[-4000:])
            raise RuntimeError("fact extraction failed (config=%s, rc=%s): the tree does not "
                               "type-check or the driver did not run" % (config, r.returncode))
        if not quiet:
            print("mirx: extracted %s in %.1fs" % (fact, time.time() - t0))
        _prune(th)
        return fact
    finally:
        fcntl.flock(lock, fcntl.LOCK_UN)
        lock.close()


class Facts:
    def __init__(self, path):
        with open(path) as f:
            d = json.load(f)
        self.path = path
        self.doc = d
        self.stats = d["stats"]
        self.features = d["features"]
        self.bodies = {b["id"]: b for b in d["bodies"]}
        self.adts = {a["path"]: a for a in d["adts"]}
        self.impls = d["impls"]
        for b in d["bodies"]:
            b["_file"] = b["span"].split(":")[0]
        self._callers = None

    # ---- lookup helpers -------------------------------------------------
    def body(self, bid):
        return self.bodies.get(bid)

    def find(self, pred):
        return [b for b in self.bodies.values() if pred(b)]

    def by_suffix(self, suffix):
        return [b for k, b in self.bodies.items() if k.endswith(suffix)]

    def one(self, bid):
        b = self.bodies.get(bid)
        if b is None:
            raise LostAnchor("body %s not found" % bid)
        return b

    def impls_of(self, trait):
        return [i for i in self.impls if i.get("trait") == trait]

    def impl_method(self, trait, self_s, method):
        """body of `method` in the impl of `trait` for the type printed as self_s"""
        for i in self.impls:
            if i.get("trait") == trait and i["self"]["s"] == self_s:
                for name, path in i["items"]:
                    if name == method:
                        return self.bodies.get(path)
        return None

    def closures_of(self, bid):
        pre = bid + "::{closure#"
        return [b for k, b in self.bodies.items() if k.startswith(pre)]

    def with_closures(self, bid):
        b = self.bodies.get(bid)
        return ([b] if b else []) + self.closures_of(bid)


class LostAnchor(Exception):
    pass


def load(config=None, repo=None):
    # the thorough tier re-runs every rule over the other feature configurations (VERIF_CONFIG)
    config = os.environ.get("VERIF_CONFIG") or config or "default"
    return Facts(extract(config, repo))


# ---- generic MIR accessors ----------------------------------------------------

def calls(body):
    """yield (bb index, terminator) for every call terminator"""
    for i, bb in enumerate(body["blocks"]):
        t = bb["term"]
        if t["k"] == "call":
            yield i, t


def callee_name(t):
    """the most precise name of a call's target"""
    return t.get("resolved") or t.get("callee") or "<indirect>"


def stmts(body):
    for i, bb in enumerate(body["blocks"]):
        for j, s in enumerate(bb["stmts"]):
            yield i, j, s


def succ(body, i, unwind=False):
    t = body["blocks"][i]["term"]
    k = t["k"]
    out = []
    if k == "goto":
        out = [t["target"]]
    elif k == "switch":
        out = [a[1] for a in t["arms"]] + [t["otherwise"]]
    elif k in ("call", "assert", "drop"):
        if t.get("target") is not None:
            out = [t["target"]]
        if unwind and isinstance(t.get("unwind"), int):
            out.append(t["unwind"])
    elif k == "other":
        out = list(t.get("succ", []))
    res = []
    for x in out:
        if x not in res:
            res.append(x)
    return res


def op_local(op):
    """local of a copy/move operand that is a bare local (no projection), else None"""
    if op[0] in ("copy", "move") and len(op[1]) == 1:
        return op[1][0]
    return None


def op_place(op):
    if op[0] in ("copy", "move"):
        return op[1]
    return None


def op_const(op):
    if op[0] == "const":
        return op[1]
    return None


def const_int(op):
    c = op_const(op)
    if c is not None and "int" in c:
        return c["int"]
    return None


def const_str(op):
    c = op_const(op)
    if c is not None and "str" in c:
        return c["str"]
    return None


def const_bytes(op):
    c = op_const(op)
    if c is not None and "bytes" in c:
        return c["bytes"]
    return None
