"""Fact extraction (mirx) and loading for the /verif rule library.

Facts are keyed by a content hash of the analysed sources, so several checks on the same tree
share one extraction and any edit to /repo forces a new one.  Nothing here executes code of
pdf-rs/pdf: the crate is only type-checked by a nightly rustc with the mirx callback installed.
"""
import fcntl
import glob
import hashlib
import json
import os
import shutil
import subprocess
import sys
import time

VERIF = os.path.dirname(os.path.dirname(os.path.abspath(__file__)))
REPO = os.environ.get("VERIF_REPO", "/repo")
CACHE = os.environ.get("VERIF_CACHE", os.path.join(VERIF, ".cache"))
MIRX = os.path.join(VERIF, "engines", "mirx", "target", "release", "mirx")
ASTX = os.path.join(VERIF, "engines", "astx", "target", "release", "astx")

# feature configurations the build admits offline
CONFIGS = {
    "default": [],
    "nodefault": ["--no-default-features"],
    "nocache": ["--no-default-features", "--features", "sync"],
}


def _iter_sources(repo):
    out = []
    for top in ("Cargo.toml", "Cargo.lock"):
        p = os.path.join(repo, top)
        if os.path.exists(p):
            out.append(p)
    for sub in ("pdf", "pdf_derive"):
        for root, dirs, files in os.walk(os.path.join(repo, sub)):
            dirs[:] = sorted(d for d in dirs if d not in ("target", ".git", "files", "fuzz"))
            for f in sorted(files):
                if f.endswith((".rs", ".toml")):
                    out.append(os.path.join(root, f))
    return out


def tree_hash(repo=None):
    repo = repo or REPO
    h = hashlib.sha256()
    for p in _iter_sources(repo):
        h.update(os.path.relpath(p, repo).encode())
        h.update(b"\0")
        with open(p, "rb") as f:
            h.update(f.read())
        h.update(b"\0")
    # ... and of the extractors themselves: facts written by an older exporter are not reused
    for p in sorted(glob.glob(os.path.join(VERIF, "engines", "*", "src", "*.rs"))):
        with open(p, "rb") as f:
            h.update(f.read())
    return h.hexdigest()[:16]


def _sysroot():
    return subprocess.check_output(["rustc", "+nightly", "--print", "sysroot"], text=True).strip()


def _prune(keep):
    """keep at most nine tree hashes of facts"""
    base = os.path.join(CACHE, "facts")
    if not os.path.isdir(base):
        return
    ds = [os.path.join(base, d) for d in os.listdir(base)]
    ds = [d for d in ds if os.path.isdir(d) and os.path.basename(d) != keep]
    ds.sort(key=lambda d: os.path.getmtime(d), reverse=True)
    for d in ds[8:]:
        shutil.rmtree(d, ignore_errors=True)


def extract(config="default", repo=None, quiet=True):
    """Run mirx over <repo>/pdf and return the path of the fact file (cached by tree hash)."""
    repo = repo or REPO
    th = tree_hash(repo)
    outdir = os.path.join(CACHE, "facts", th, config)
    fact = os.path.join(outdir, "pdf-rlib.json")
    if os.path.exists(fact) and os.path.getsize(fact) > 1000:
        try:
            os.utime(os.path.dirname(outdir))
        except OSError:
            pass
        return fact
    os.makedirs(CACHE, exist_ok=True)
    lock = open(os.path.join(CACHE, ".lock"), "w")
    fcntl.flock(lock, fcntl.LOCK_EX)
    try:
        if os.path.exists(fact) and os.path.getsize(fact) > 1000:
            return fact
        if not os.path.exists(MIRX):
            raise RuntimeError("mirx is not built: run MANIFEST.setup_cmd (./bin/setup)")
        os.makedirs(outdir, exist_ok=True)
        tgt = os.path.join(CACHE, "tgt")
        # cargo's freshness cache would skip the wrapper: forget the members' fingerprints
        # (cargo hashes workspace members by their path *relative to the workspace root*, so a
        # scratch copy of the repository collides with /repo in a shared target directory and
        # mtime-based freshness would reuse the other tree's proc-macro: always rebuild members)
        for pat in ("pdf-*", "pdf_derive-*"):
            for fp in glob.glob(os.path.join(tgt, "debug", ".fingerprint", pat)):
                shutil.rmtree(fp, ignore_errors=True)
        env = dict(os.environ)
        env.update({
            "LD_LIBRARY_PATH": _sysroot() + "/lib",
            "RUSTFLAGS": "-Zmir-opt-level=0 -Awarnings",
            "RUSTC_WORKSPACE_WRAPPER": MIRX,
            "MIRX_OUT": outdir,
            "MIRX_CRATES": "pdf",
            "CARGO_TARGET_DIR": tgt,
            "CARGO_NET_OFFLINE": "true",
        })
        cmd = ["cargo", "+nightly", "check", "--offline", "-p", "pdf", "--lib"] + CONFIGS[config]
        t0 = time.time()
        r = subprocess.run(cmd, cwd=os.path.join(repo, "pdf"), env=env,
                           stdout=subprocess.PIPE, stderr=subprocess.STDOUT, text=True)
        if r.returncode != 0 or not os.path.exists(fact):
            sys.stderr.write(r.stdout[-4000:])
            raise RuntimeError("fact extraction failed (config=%s, rc=%s): the tree does not "
                               "type-check or the driver did not run" % (config, r.returncode))
        if not quiet:
            print("mirx: extracted %s in %.1fs" % (fact, time.time() - t0))
        _prune(th)
        return fact
    finally:
        fcntl.flock(lock, fcntl.LOCK_UN)
        lock.close()


class Facts:
    def __init__(self, path):
        with open(path) as f:
            d = json.load(f)
        self.path = path
        self.doc = d
        self.stats = d["stats"]
        self.features = d["features"]
        self.bodies = {b["id"]: b for b in d["bodies"]}
        self.adts = {a["path"]: a for a in d["adts"]}
        self.impls = d["impls"]
        for b in d["bodies"]:
            b["_file"] = b["span"].split(":")[0]
        self._callers = None
        self.renamed = {}
        self._apply_renames()

    # ---- renamed functions --------------------------------------------------------------------------
    # The rules name the bodies they anchor on.  A function that was only renamed (or moved within its file) must not look like a lost
    # anchor, so every body name known from the reference profile (rules/anchor_profiles.json, written by bin/mkanchors) that is missing
    # from the current tree is re-identified by its shape: the callees, constants and parameter types of the unmatched bodies of the
    # same file are compared with the profile, and a unique close match is given its old name back (in memory only).
    @staticmethod
    def profile_of(b):
        toks = ["argc:%d" % b["argc"], "kind:" + b["kind"]]
        for l in b["locals"][:b["argc"] + 1]:
            toks.append("ty:" + l["s"])
        for bb in b["blocks"]:
            t = bb["term"]
            if t["k"] == "call":
                n = t.get("resolved") or t.get("callee") or "?"
                toks.append("call:" + n)
                for a in t["args"]:
                    if a[0] == "const":
                        c = a[1]
                        for k in ("str", "bytes"):
                            if k in c and len(str(c[k])) < 60:
                                toks.append("const:" + str(c[k]))
            for st in bb["stmts"]:
                if st[0] == "assign" and st[2][0] == "aggregate" and st[2][1].get("adt"):
                    toks.append("agg:%s::%s" % (st[2][1]["adt"], st[2][1].get("variant")))
        return toks

    def _apply_renames(self):
        pf = os.path.join(VERIF, "rules", "anchor_profiles.json")
        if not os.path.exists(pf) or os.environ.get("VERIF_NO_RENAMES"):
            return
        try:
            prof = json.load(open(pf))
        except Exception:
            return
        missing = [k for k in prof if k not in self.bodies and "::{closure#" not in k]
        if not missing:
            return
        fresh = [k for k in self.bodies if k not in prof and "::{closure#" not in k]
        if not fresh:
            return
        from collections import Counter
        cur = {k: Counter(self.profile_of(self.bodies[k])) for k in fresh}
        pairs = {}
        for old in missing:
            po = Counter(prof[old]["toks"])
            # names of other renamed functions show up as different call tokens: compare without crate-local call names that are missing / fresh
            best = []
            for k in fresh:
                if self.bodies[k]["_file"] != prof[old]["file"]:
                    continue
                a, b = po, cur[k]
                inter = sum((a & b).values())
                union = sum((a | b).values())
                best.append((inter / union if union else 0.0, k))
            best.sort(reverse=True)
            if best and best[0][0] >= 0.7 and (len(best) == 1 or best[0][0] - best[1][0] >= 0.1):
                pairs[best[0][1]] = old
        if len(set(pairs.values())) != len(pairs):
            return
        for new, old in pairs.items():
            self._rename(new, old)
            self.renamed[old] = new

    def _rename(self, new, old):
        import re as _re
        pat = _re.compile(_re.escape(new) + r"(?![A-Za-z0-9_])")

        def fix(x):
            if isinstance(x, str):
                return pat.sub(old, x) if new in x else x
            if isinstance(x, list):
                return [fix(y) for y in x]
            if isinstance(x, dict):
                return {k: fix(v) for k, v in x.items()}
            return x
        nb = {}
        for k, b in self.bodies.items():
            for fld in ("id", "parent", "owner_fn"):
                if isinstance(b.get(fld), str) and new in b[fld]:
                    b[fld] = pat.sub(old, b[fld])
            for bb in b["blocks"]:
                t = bb["term"]
                if t["k"] == "call":
                    for fld in ("callee", "callee_full", "resolved", "resolved_full"):
                        if isinstance(t.get(fld), str) and new in t[fld]:
                            t[fld] = pat.sub(old, t[fld])
                    if t.get("fn_targs"):
                        t["fn_targs"] = fix(t["fn_targs"])
                for st in bb["stmts"]:
                    if st[0] == "assign" and st[2][0] == "aggregate" and st[2][1].get("k") == "closure" and new in st[2][1].get("closure", ""):
                        st[2][1]["closure"] = pat.sub(old, st[2][1]["closure"])
            nb[b["id"]] = b
        self.bodies = nb
        for im in self.impls:
            im["items"] = [[n, pat.sub(old, p) if new in p else p] for n, p in im["items"]]

    # ---- lookup helpers -------------------------------------------------
    def body(self, bid):
        return self.bodies.get(bid)

    def find(self, pred):
        return [b for b in self.bodies.values() if pred(b)]

    def by_suffix(self, suffix):
        return [b for k, b in self.bodies.items() if k.endswith(suffix)]

    def one(self, bid):
        b = self.bodies.get(bid)
        if b is None:
            raise LostAnchor("body %s not found" % bid)
        return b

    def impls_of(self, trait):
        return [i for i in self.impls if i.get("trait") == trait]

    def impl_method(self, trait, self_s, method):
        """body of `method` in the impl of `trait` for the type printed as self_s"""
        for i in self.impls:
            if i.get("trait") == trait and i["self"]["s"] == self_s:
                for name, path in i["items"]:
                    if name == method:
                        return self.bodies.get(path)
        return None

    def closures_of(self, bid):
        pre = bid + "::{closure#"
        return [b for k, b in self.bodies.items() if k.startswith(pre)]

    def with_closures(self, bid):
        b = self.bodies.get(bid)
        return ([b] if b else []) + self.closures_of(bid)


class LostAnchor(Exception):
    pass


def load(config=None, repo=None):
    # the thorough tier re-runs every rule over the other feature configurations (VERIF_CONFIG)
    config = os.environ.get("VERIF_CONFIG") or config or "default"
    return Facts(extract(config, repo))


# ---- generic MIR accessors ----------------------------------------------------

def calls(body):
    """yield (bb index, terminator) for every call terminator"""
    for i, bb in enumerate(body["blocks"]):
        t = bb["term"]
        if t["k"] == "call":
            yield i, t


def callee_name(t):
    """the most precise name of a call's target"""
    return t.get("resolved") or t.get("callee") or "<indirect>"


def stmts(body):
    for i, bb in enumerate(body["blocks"]):
        for j, s in enumerate(bb["stmts"]):
            yield i, j, s


def succ(body, i, unwind=False):
    t = body["blocks"][i]["term"]
    k = t["k"]
    out = []
    if k == "goto":
        out = [t["target"]]
    elif k == "switch":
        out = [a[1] for a in t["arms"]] + [t["otherwise"]]
    elif k in ("call", "assert", "drop"):
        if t.get("target") is not None:
            out = [t["target"]]
        if unwind and isinstance(t.get("unwind"), int):
            out.append(t["unwind"])
    elif k == "other":
        out = list(t.get("succ", []))
    res = []
    for x in out:
        if x not in res:
            res.append(x)
    return res


def op_local(op):
    """local of a copy/move operand that is a bare local (no projection), else None"""
    if op[0] in ("copy", "move") and len(op[1]) == 1:
        return op[1][0]
    return None


def op_place(op):
    if op[0] in ("copy", "move"):
        return op[1]
    return None


def op_const(op):
    if op[0] == "const":
        return op[1]
    return None


def const_int(op):
    c = op_const(op)
    if c is not None and "int" in c:
        return c["int"]
    return None


def const_str(op):
    c = op_const(op)
    if c is not None and "str" in c:
        return c["str"]
    return None


def const_bytes(op):
    c = op_const(op)
    if c is not None and "bytes" in c:
        return c["bytes"]
    # a named constant (`const DELIMITERS: &[u8] = b"..."`) arrives as a fat pointer into another allocation
    if c is not None and str(c.get("ty", "")).startswith("&[u8") and isinstance(c.get("alloc"), dict):
        refs = c["alloc"].get("refs") or []
        if len(refs) == 1 and "hex" in refs[0]:
            try:
                return bytes.fromhex(refs[0]["hex"]).decode("latin-1")
            except ValueError:
                return None
    return None
