"""Whole-crate call graph (A1) and the read-reachable universe.

Edges: a call terminator with a crate-local resolved callee -> exact edge; a call of a trait
method that could not be resolved (generic self type, `impl Trait` argument) -> *virtual* edges
to every implementation of that method in the crate; creating a closure -> edge to its body.
Virtual edges only enlarge reachability, they never hide a site.
"""
import facts as F
from flow import last_seg

# traits whose methods are never part of reading a document: bodies of their impls are not
# entered when computing the read universe (they are analysed under the write-side properties)
WRITE_TRAITS = ("object::ObjectWrite", "object::ToDict", "object::Updater", "object::DeepClone", "object::Cloner")
BORING_TRAITS = ("std::fmt::Debug", "std::fmt::Display", "datasize::DataSize", "std::fmt::LowerHex", "std::fmt::UpperHex", "std::fmt::Octal",
                 "std::fmt::Binary", "std::hash::Hash", "snafu::ErrorCompat", "std::error::Error", "snafu::IntoError", "globalcache::ValueSize")
WRITE_FILES = ("pdf/src/build.rs",)
INTERNAL_FILES = ("pdf/src/parser/", "pdf/src/crypt.rs", "pdf/src/xref.rs", "pdf/src/backend.rs", "pdf/src/repair.rs", "pdf/src/any.rs", "pdf/src/macros.rs", "pdf/src/data.rs")
WRITE_FNS = ("serialize", "serialize_list", "serialize_name", "serialize_ops", "save", "save_to", "write_stream", "write_cmap", "write_cid", "write_unicode",
             "to_pdf_stream", "encode", "encode_hex", "encode_85", "encode_nibble", "flate_encode", "lzw_encode", "base85_chunk", "a85", "divmod", "filter",
             "from_ops", "new_with_filters", "from_compressed", "update_catalog", "create", "update", "promise", "fulfill", "empty", "storage", "max_field_widths",
             "byte_len", "dump_data")


class CallGraph:
    def __init__(self, f):
        self.f = f
        self.edges = {}      # body id -> list of (callee id, kind, bb)
        self.impl_methods = {}   # (trait, method) -> [body ids]
        for im in f.impls:
            tr = im.get("trait")
            if not tr:
                continue
            for name, path in im["items"]:
                if path in f.bodies:
                    self.impl_methods.setdefault((tr, name), []).append(path)
        # provided (default) trait methods
        self.trait_defaults = {}
        for b in f.bodies.values():
            if b.get("in_trait"):
                self.trait_defaults[(b["in_trait"], b["id"].split("::")[-1])] = b["id"]
        for b in f.bodies.values():
            es = []
            for bi, t in F.calls(b):
                r = t.get("resolved")
                if r and t.get("resolved_local") and r in f.bodies and not t.get("virtual"):
                    es.append((r, "exact", bi))
                    # a resolved call of a provided trait method on a generic receiver may be overridden by impls
                    if t.get("trait") and t.get("self_ty", {}).get("k") in ("param", "alias", "dyn") :
                        for m in self.impl_methods.get((t["trait"], last_seg(t["callee"])), []):
                            es.append((m, "virtual", bi))
                elif t.get("trait") and t.get("local"):
                    key = (t["trait"], last_seg(t["callee"]))
                    tgts = list(self.impl_methods.get(key, []))
                    if key in self.trait_defaults:
                        tgts.append(self.trait_defaults[key])
                    for m in tgts:
                        es.append((m, "virtual", bi))
                elif t.get("callee") and t.get("local") and t["callee"] in f.bodies:
                    es.append((t["callee"], "exact", bi))
            for i, j, s in F.stmts(b):
                if s[0] == "assign" and s[2][0] == "aggregate" and s[2][1]["k"] == "closure":
                    c = s[2][1]["closure"]
                    if c in f.bodies:
                        es.append((c, "closure", i))
            # fn items passed as values (`.map(MaybeRef::Indirect)`, `.and_then(parse_cmap)`)
            for bi, t in F.calls(b):
                for nm in t.get("fn_targs", []):
                    if nm in f.bodies and (nm, "fnptr", bi) not in es and not any(e[0] == nm for e in es if e[1] == "closure"):
                        es.append((nm, "fnptr", bi))
            self.edges[b["id"]] = es

    def is_write_only(self, b):
        im = b.get("impl") or {}
        if im.get("trait") in WRITE_TRAITS or im.get("trait") in BORING_TRAITS:
            return True
        if b["_file"] in WRITE_FILES:
            return True
        base = b["id"]
        while "::{closure#" in base:
            base = base[: base.rindex("::{closure#")]
        if base.split("::")[-1] in WRITE_FNS and not base.startswith("<"):
            return True
        if base.split("::")[-1] in WRITE_FNS and (self.f.bodies.get(base, {}).get("impl") or {}).get("trait") is None:
            return True
        if "NoUpdate" in base:
            return True
        return False

    def read_roots(self):
        roots = []
        for b in self.f.bodies.values():
            if b["kind"] == "Closure" or self.is_write_only(b):
                continue
            im = b.get("impl") or {}
            # tokeniser / parser / cipher / xref-table internals are entered only through the document-level
            # entry points (File, Storage, the resolver, the typed model); their unused public helpers are not
            # part of "reading a document"
            if b["_file"].startswith(INTERNAL_FILES) and not im.get("trait") in ("object::Object", "object::FromDict", "backend::Backend"):
                continue
            if b.get("pub") or im.get("trait") in ("object::Object", "object::FromDict", "object::Resolve", "backend::Backend", "backend::IndexRange",
                                                  "file::Cache", "std::ops::Deref", "std::convert::TryInto", "std::iter::Iterator", "std::convert::From"):
                roots.append(b["id"])
        return roots

    def reachable(self, roots, skip=None):
        seen = set()
        st = list(roots)
        parent = {}
        while st:
            x = st.pop()
            if x in seen:
                continue
            b = self.f.bodies.get(x)
            if b is None:
                continue
            if skip and skip(b):
                continue
            seen.add(x)
            for (c, kind, bi) in self.edges.get(x, []):
                if c not in seen:
                    parent.setdefault(c, (x, kind))
                    st.append(c)
        return seen, parent

    def read_universe(self):
        return self.reachable(self.read_roots(), skip=self.is_write_only)

    def path_to(self, parent, x, limit=8):
        out = []
        while x in parent and len(out) < limit:
            p, kind = parent[x]
            out.append("%s -[%s]-> %s" % (p, kind, x))
            x = p
        return out[::-1]

    def sccs(self, nodes, edge_filter=lambda e: True):
        """Tarjan SCCs restricted to `nodes`"""
        index = {}
        low = {}
        onst = set()
        st = []
        out = []
        counter = [0]
        import sys
        sys.setrecursionlimit(10000)

        def strong(v):
            index[v] = low[v] = counter[0]
            counter[0] += 1
            st.append(v)
            onst.add(v)
            for e in self.edges.get(v, []):
                w = e[0]
                if w not in nodes or not edge_filter(e):
                    continue
                if w not in index:
                    strong(w)
                    low[v] = min(low[v], low[w])
                elif w in onst:
                    low[v] = min(low[v], index[w])
            if low[v] == index[v]:
                comp = []
                while True:
                    w = st.pop()
                    onst.discard(w)
                    comp.append(w)
                    if w == v:
                        break
                out.append(comp)
        for v in nodes:
            if v not in index:
                strong(v)
        return out
