"""Path enumeration and syntactic expression reconstruction along a CFG path (A3).

Nothing is executed or solved here: a path is a list of basic blocks; the "value" of a local at a
point of the path is the expression tree obtained by substituting, backwards along that path,
the right-hand sides of the assignments that define it.  Rules compare the *shape* of these
trees (which call produced a value, which field it was read from, which constant it is compared
with).
"""
from facts import succ

MAXDEPTH = 40


def enum_paths(cfg, start, is_stop, limit=4000, avoid=(), max_len=400):
    """all acyclic paths start..stop (stop blocks included; a path also ends at a block with no
    successors).  Raises if more than `limit` paths exist."""
    out = []
    stack = [(start, [start])]
    while stack:
        node, path = stack.pop()
        if (node != start or len(path) > 1) and is_stop(node, path):
            out.append(path)
            if len(out) > limit:
                raise RuntimeError("path explosion")
            continue
        ss = [s for s in cfg.succ[node] if s not in avoid]
        if not ss:
            out.append(path)
            continue
        ext = False
        for s in ss:
            if s in path:
                # back edge: record the path as ending in a revisit
                out.append(path + [s])
                ext = True
                continue
            if len(path) < max_len:
                stack.append((s, path + [s]))
                ext = True
        if not ext:
            out.append(path)
    return out


def prefix_to(cfg, target):
    """a shortest acyclic path from the entry block to `target` (exclusive), giving the
    definitions made in the dominators of `target` as context"""
    from collections import deque
    prev = {0: None}
    dq = deque([0])
    while dq:
        x = dq.popleft()
        if x == target:
            break
        for s in cfg.succ[x]:
            if s not in prev:
                prev[s] = x
                dq.append(s)
    if target not in prev:
        return []
    out = []
    x = prev[target]
    while x is not None:
        out.append(x)
        x = prev[x]
    return out[::-1]


def feasible(ps):
    """False if the path takes a branch that contradicts a constant discriminant"""
    for e, taken, _bb in ps.branch_conditions():
        e = strip_copy(e)
        if isinstance(e, tuple) and e[0] == "const" and e[1] in ("bool", "int"):
            v = int(e[2])
            if taken[0] == "eq" and v not in taken[1]:
                return False
            if taken[0] == "not" and v in taken[1]:
                return False
    return True


def strip_copy(e):
    return e


class PathSym:
    """expression reconstruction along one path"""

    def __init__(self, body, path):
        self.body = body
        self.path = path
        # flatten: list of (kind, blockidx, payload)
        self.events = []
        for pi, b in enumerate(path):
            bb = body["blocks"][b]
            for s in bb["stmts"]:
                if s[0] == "assign":
                    self.events.append(("assign", b, s))
            t = bb["term"]
            nxt = path[pi + 1] if pi + 1 < len(path) else None
            self.events.append(("term", b, t, nxt))

    def position_after_block(self, idx_in_path):
        """event index just after the terminator of path[idx_in_path]"""
        cnt = -1
        seen = 0
        for i, e in enumerate(self.events):
            if e[0] == "term":
                if seen == idx_in_path:
                    return i + 1
                seen += 1
        return len(self.events)

    def expr_of_operand(self, op, pos=None, depth=0):
        if pos is None:
            pos = len(self.events)
        if op[0] == "const":
            c = op[1]
            for k in ("int", "str", "bytes", "bool", "float", "fn"):
                if k in c:
                    return ("const", k, c[k])
            return ("const", "ty", c.get("ty"))
        if op[0] in ("copy", "move"):
            return self.expr_of_place(op[1], pos, depth)
        return ("unknown", str(op))

    def expr_of_place(self, place, pos, depth=0):
        base = self.expr_of_local(place[0], pos, depth)
        for e in place[1:]:
            if e[0] == "deref":
                base = ("deref", base)
            elif e[0] == "field":
                base = ("field", base, e[2])
            elif e[0] == "downcast":
                base = ("downcast", base, e[1])
            elif e[0] == "index":
                base = ("index", base, self.expr_of_local(e[1], pos, depth + 1))
            else:
                base = (e[0], base) + tuple(e[1:])
        return simplify(base)

    def expr_of_local(self, local, pos, depth=0):
        if depth > MAXDEPTH:
            return ("local", local)
        # search backwards for the defining event
        for i in range(pos - 1, -1, -1):
            e = self.events[i]
            if e[0] == "assign":
                tgt = e[2][1]
                if tgt[0] == local and len(tgt) == 1:
                    return self.expr_of_rvalue(e[2][2], i, depth + 1)
            else:
                t = e[2]
                if t["k"] == "call" and t.get("dest") and t["dest"][0] == local and len(t["dest"]) == 1:
                    # only if the path continues into the normal target
                    return self.call_expr(t, i, depth + 1)
        if 1 <= local <= self.body["argc"]:
            return ("arg", local)
        return ("local", local)

    def call_expr(self, t, pos, depth):
        name = t.get("resolved") or t.get("callee") or "<indirect>"
        args = tuple(self.expr_of_operand(a, pos, depth + 1) for a in t["args"])
        # 5th element: the block of the call site (distinguishes two calls of the same function)
        return ("call", name, args, t.get("callee_full") or name, self.events[pos][1])

    def expr_of_rvalue(self, rv, pos, depth):
        k = rv[0]
        if k == "use":
            return self.expr_of_operand(rv[1], pos, depth)
        if k == "ref":
            return ("ref", self.expr_of_place(rv[1], pos, depth))
        if k == "rawptr":
            return ("ref", self.expr_of_place(rv[1], pos, depth))
        if k == "cast":
            return ("cast", self.expr_of_operand(rv[2], pos, depth), rv[3], rv[1])
        if k == "binop":
            return ("binop", rv[1], self.expr_of_operand(rv[2], pos, depth),
                    self.expr_of_operand(rv[3], pos, depth))
        if k == "unop":
            return simplify(("unop", rv[1], self.expr_of_operand(rv[2], pos, depth)))
        if k == "discr":
            return ("discr", self.expr_of_place(rv[1], pos, depth))
        if k == "aggregate":
            kd = rv[1]
            name = kd.get("adt", kd["k"])
            if "variant" in kd:
                name += "::" + kd["variant"]
            if kd["k"] == "closure":
                name = "closure:" + kd["closure"]
            return ("agg", name, tuple(self.expr_of_operand(o, pos, depth) for o in rv[2]),
                    tuple(kd.get("fields", [])))
        if k == "repeat":
            return ("repeat", self.expr_of_operand(rv[1], pos, depth), rv[2])
        return ("other", str(rv)[:80])

    def branch_conditions(self):
        """list of (expr of switch discriminant, value taken or ('not', [values])) along the path"""
        out = []
        for i, e in enumerate(self.events):
            if e[0] != "term":
                continue
            t, nxt = e[2], e[3]
            if t["k"] == "switch" and nxt is not None:
                ex = self.expr_of_operand(t["discr"], i)
                vals = [a[0] for a in t["arms"] if a[1] == nxt]
                if vals and nxt != t["otherwise"]:
                    out.append((ex, ("eq", vals), e[1]))
                elif vals:
                    out.append((ex, ("any",), e[1]))
                else:
                    out.append((ex, ("not", [a[0] for a in t["arms"]]), e[1]))
        return out


def simplify(e):
    """ref/deref cancellation and reading a field out of an aggregate literal"""
    if not isinstance(e, tuple) or not e:
        return e
    if e[0] == "deref" and isinstance(e[1], tuple) and e[1][0] == "ref":
        return e[1][1]
    if e[0] == "unop" and e[1] == "Not" and isinstance(e[2], tuple) and e[2][0] == "const" and e[2][1] == "bool":
        return ("const", "bool", not e[2][2])
    if e[0] == "field" and isinstance(e[1], tuple) and e[1][0] == "agg":
        agg = e[1]
        names = agg[3]
        if e[2] in names:
            return agg[2][names.index(e[2])]
        if e[2].isdigit() and int(e[2]) < len(agg[2]):
            return agg[2][int(e[2])]
    return e


def walk(e):
    """pre-order traversal of an expression tree"""
    yield e
    if isinstance(e, tuple):
        for x in e[1:]:
            if isinstance(x, tuple):
                if x and isinstance(x[0], str):
                    yield from walk(x)
                else:
                    for y in x:
                        if isinstance(y, tuple):
                            yield from walk(y)


def mentions(e, pred):
    return any(pred(x) for x in walk(e))


def strip(e):
    """peel refs, derefs, copies-as-casts of the same width, clones and `into`/`from` identity
    conversions; used when only the origin of a value matters"""
    while isinstance(e, tuple):
        if e[0] in ("ref", "deref"):
            e = e[1]
        elif e[0] == "cast":
            e = e[1]
        elif e[0] == "call" and len(e[2]) >= 1 and e[1].split("::")[-1] in (
                "clone", "deref", "deref_mut", "as_ref", "as_mut", "borrow", "into", "from",
                "as_slice", "as_mut_slice", "to_owned", "as_str", "as_bytes", "borrow_mut",
                "into_iter", "iter", "unwrap", "expect", "copied", "cloned", "branch", "from_residual"):
            e = e[2][0]
        else:
            break
    return e


def show(e, depth=0):
    if not isinstance(e, tuple):
        return str(e)
    if depth > 8:
        return "…"
    k = e[0]
    if k == "const":
        return repr(e[2])
    if k == "arg":
        return "arg%d" % e[1]
    if k == "local":
        return "_%d" % e[1]
    if k == "field":
        return "%s.%s" % (show(e[1], depth + 1), e[2])
    if k == "deref":
        return "*%s" % show(e[1], depth + 1)
    if k == "ref":
        return "&%s" % show(e[1], depth + 1)
    if k == "downcast":
        return "(%s as %s)" % (show(e[1], depth + 1), e[2])
    if k == "call":
        return "%s(%s)" % (e[1].split("::")[-1] if len(e[1]) > 40 else e[1],
                           ", ".join(show(a, depth + 1) for a in e[2]))
    if k == "binop":
        return "%s(%s, %s)" % (e[1], show(e[2], depth + 1), show(e[3], depth + 1))
    if k == "unop":
        return "%s(%s)" % (e[1], show(e[2], depth + 1))
    if k == "cast":
        return "(%s as %s)" % (show(e[1], depth + 1), e[2])
    if k == "discr":
        return "discr(%s)" % show(e[1], depth + 1)
    if k == "agg":
        return "%s{%s}" % (e[1], ", ".join(show(a, depth + 1) for a in e[2]))
    if k == "index":
        return "%s[%s]" % (show(e[1], depth + 1), show(e[2], depth + 1))
    return "%s(…)" % k
