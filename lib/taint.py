"""File-number taint with upper bounds (A4) and guard detection.

A value is *tainted* when it derives from a number an attacker chooses in the file:
results of Primitive::as_{integer,u8,u32,usize,number}, Substr::to / str::parse / next_as,
read_u64_from_stream, payloads of Primitive::Integer / Number, integral fields of the typed
models (every ADT with an Object impl), xref entry fields.  Every value has an upper bound of its
magnitude computed from its definition (constants, casts, + * << min % & len …); `INF` when
nothing bounds it below its type's maximum.  A use is *guarded* when a comparison that involves
the value (or a value it was computed from) dominates it — direction-insensitive on purpose.
"""
import re
import json
import facts as F
from cfg import CFG
from flow import last_seg

INF = float("inf")
MEM = 1 << 40          # lengths of in-memory collections
TYPEMAX = {"u8": 255, "i8": 128, "u16": 65535, "i16": 32768, "u32": (1 << 32) - 1, "i32": 1 << 31, "u64": (1 << 64) - 1, "i64": 1 << 63,
           "usize": (1 << 64) - 1, "isize": 1 << 63, "u128": (1 << 128) - 1, "i128": 1 << 127, "bool": 1, "char": 0x10ffff, "f32": INF, "f64": INF}
SIGNED = ("i8", "i16", "i32", "i64", "isize", "i128", "f32", "f64")

SRC_CALLS = {"as_integer": ("i32", True), "as_u8": ("u8", False), "as_u32": ("i32", False), "as_usize": ("i32", False), "as_number": ("f32", True),
             "read_u64_from_stream": ("u64", False)}
PARSE_CALLS = ("to", "next_as", "parse", "from_str", "from_str_radix")
INT_TYPES = set(TYPEMAX)
CONTAINER = re.compile(r"^&?(?:'\w+ )?(?:mut )?(?:\[u8\]|std::vec::Vec<u8>|str|std::string::String|std::sync::Arc<\[u8\]>|std::borrow::Cow<'?\w*,? ?(?:str|\[u8\])>)$")


def typemax(ty):
    ty = ty.strip().lstrip("&").replace("mut ", "")
    return TYPEMAX.get(ty, INF)


class Val:
    __slots__ = ("taint", "bound", "neg", "why", "g")

    def __init__(self, taint=False, bound=0, neg=False, why=None, g=False):
        self.taint = taint
        self.bound = bound
        self.neg = neg
        self.why = why
        self.g = g      # every tainted contribution was compared with something in a caller before it was passed in

    @property
    def eb(self):
        """bound used for overflow questions: an untainted machine-word value is a size / position of in-memory data"""
        return self.bound if self.taint else min(self.bound, MEM)

    def __repr__(self):
        return "Val(%s%s%s bound=%s%s)" % ("T" if self.taint else "-", " neg" if self.neg else "", " guarded" if self.g else "", "inf" if self.bound == INF else self.bound, " " + self.why if self.why else "")


def join(vals):
    vals = [v for v in vals if v is not None]
    if not vals:
        return Val()
    w = None
    for v in vals:
        if v.taint and v.why:
            w = v.why
    tv = [v for v in vals if v.taint]
    # the bound of a joined tainted value is the largest tainted contribution (untainted contributions count as in-memory sizes)
    bd = max(v.eb for v in vals) if tv else max(v.bound for v in vals)
    return Val(bool(tv), bd, any(v.neg for v in vals), w, bool(tv) and all(v.g for v in tv))


class Taint:
    def __init__(self, f, cg, universe=None):
        self.f = f
        self.cg = cg
        self.universe = universe
        # ADTs with an Object / FromDict impl (typed models): their numeric fields are file numbers
        self.model_adts = set()
        for im in f.impls:
            if im.get("trait") in ("object::Object", "object::FromDict") and im["self"].get("adt") in f.adts:
                self.model_adts.add(im["self"]["adt"])
        self.model_adts |= {"xref::XRef", "xref::XRefSection", "object::stream::ObjectStream", "object::stream::ObjStmInfo"}
        self.model_adts -= {"primitive::Dictionary", "primitive::PdfString", "primitive::Name", "primitive::PdfStream"}
        self._defs = {}
        self._memo = {}
        self._inprog = set()
        self._param = {}
        self._callers = None
        self._cfg = {}
        self._anc = {}
        self._depth = 0
        self.field_taint = {}

    # ---- numeric fields of the crate's own structs that ever receive a file number ----------------
    def solve_fields(self, bodies, rounds=3):
        """global, flow-insensitive: (adt, field) -> join of every value stored into that field, by construction
        (`S { size: s as usize, .. }`) or by assignment (`self.first_char = cid`).  Without this a file number
        that is parked in a helper struct would come back out untainted."""
        self.field_taint = {}
        for _ in range(rounds):
            changed = False
            self._memo = {}
            self._param = {}
            for b in bodies:
                for i, j, st in F.stmts(b):
                    if st[0] != "assign":
                        continue
                    rv = st[2]
                    if rv[0] == "aggregate" and rv[1].get("k") == "adt" and rv[1].get("fields") and rv[1]["adt"] in self.f.adts and rv[1]["adt"] not in self.model_adts:
                        for fname, op in zip(rv[1]["fields"], rv[2]):
                            fty, _ = self._field_type(rv[1]["adt"], rv[1].get("variant"), fname)
                            if fty not in INT_TYPES:
                                continue
                            v = self.operand(b, op)
                            if v.taint:
                                changed |= self._join_field((rv[1]["adt"], fname), v)
                    elif len(st[1]) > 1 and st[1][-1][0] == "field" and rv[0] == "use":
                        adt = self._adt_of_place(b, st[1][:-1])
                        fname = st[1][-1][2]
                        if adt and adt in self.f.adts and adt not in self.model_adts:
                            fty, _ = self._field_type(adt, None, fname)
                            if fty in INT_TYPES:
                                v = self.operand(b, rv[1])
                                if v.taint and self._clamped_after(b, i, st[1]):
                                    continue        # re-clamped to an in-memory bound before the body ends: no file magnitude survives
                                if v.taint:
                                    changed |= self._join_field((adt, fname), v)
            if not changed:
                break
        self._memo = {}
        self._param = {}

    def _clamped_after(self, b, bi, pl):
        """the stored field is compared again on every path from the store to the exit (`self.pos += n; if self.pos >= len { self.pos = .. }`)"""
        cfg = self.cfg(b)
        key = self.canon_place(b, pl)
        for ci, bb in enumerate(b["blocks"]):
            if ci == bi or not cfg.postdominates(ci, bi):
                continue
            for st in bb["stmts"]:
                if st[0] == "assign" and st[2][0] == "binop" and st[2][1] in ("Lt", "Le", "Gt", "Ge"):
                    for o in (st[2][2], st[2][3]):
                        if o[0] in ("copy", "move") and self.canon_place(b, o[1]) == key:
                            # the value compared must have been read after the store (a copy taken before it is the old value)
                            if len(o[1]) == 1:
                                rb = self._read_site(b, o[1][0])
                                if rb is None:
                                    continue
                                rblk, ridx = rb
                                if rblk == bi:
                                    si = None
                                    for k2, s2 in enumerate(b["blocks"][bi]["stmts"]):
                                        if s2[0] == "assign" and s2[1] == list(pl):
                                            si = k2
                                    if si is None or ridx < si:
                                        continue
                                elif not (rblk == ci or rblk in cfg.reachable_from(bi)):
                                    continue
                            return True
        return False

    def _read_site(self, b, tmp, depth=0):
        """(block, statement index) where the value of a single-definition temporary was read out of memory"""
        ds = self.defs(b).get(tmp, [])
        if len(ds) != 1 or ds[0][0] != "assign" or depth > 8:
            return None
        rv = ds[0][2]
        if rv[0] != "use" or rv[1][0] not in ("copy", "move"):
            return None
        src = rv[1][1]
        if len(src) == 1:
            return self._read_site(b, src[0], depth + 1)
        for k2, s2 in enumerate(b["blocks"][ds[0][1]]["stmts"]):
            if s2[0] == "assign" and s2[1] == [tmp]:
                return ds[0][1], k2
        return None

    def _join_field(self, key, v):
        old = self.field_taint.get(key)
        nv = join([old, v]) if old is not None else Val(v.taint, v.bound, v.neg, v.why, v.g)
        if old is None or (nv.bound, nv.g, nv.neg) != (old.bound, old.g, old.neg):
            self.field_taint[key] = nv
            return True
        return False

    def _adt_of_place(self, b, pl):
        cur = b["locals"][pl[0]].get("adt")
        if cur is None:
            m = re.match(r"^&(?:mut )?([\w:]+)(?:<.*)?$", b["locals"][pl[0]]["s"])
            cur = m.group(1) if m else None
        for e in pl[1:]:
            if e[0] == "field":
                _, cur = self._field_type(cur, None, e[2])
        return cur

    # ---- per-body indices ---------------------------------------------------
    def defs(self, b):
        d = self._defs.get(b["id"])
        if d is None:
            d = {}
            for bi, bb in enumerate(b["blocks"]):
                for s in bb["stmts"]:
                    if s[0] == "assign" and len(s[1]) == 1:
                        d.setdefault(s[1][0], []).append(("assign", bi, s[2]))
                    elif s[0] == "assign":
                        d.setdefault(s[1][0], []).append(("partial", bi, s[2], s[1][1:]))
                t = bb["term"]
                if t["k"] == "call" and t.get("dest") and len(t["dest"]) == 1:
                    d.setdefault(t["dest"][0], []).append(("call", bi, t))
            self._defs[b["id"]] = d
        return d

    def cfg(self, b):
        c = self._cfg.get(b["id"])
        if c is None:
            c = CFG(b)
            self._cfg[b["id"]] = c
        return c

    def callers(self, bid):
        if self._callers is None:
            self._callers = {}
            for x, es in self.cg.edges.items():
                for (c, kind, bi) in es:
                    if kind in ("exact", "virtual") and (self.universe is None or x in self.universe):
                        self._callers.setdefault(c, []).append((x, bi))
        return self._callers.get(bid, [])

    # ---- value of an operand / place / local --------------------------------
    def operand(self, b, op, depth=0):
        if op[0] == "const":
            c = op[1]
            if "int" in c:
                return Val(False, abs(c["int"]), c["int"] < 0)
            if "bool" in c:
                return Val(False, 1)
            if "float" in c:
                try:
                    return Val(False, abs(float(c["float"])))
                except ValueError:
                    return Val(False, INF)
            return Val(False, typemax(c.get("ty", "")))
        if op[0] in ("copy", "move"):
            return self.place(b, op[1], depth)
        return Val(False, INF)

    def place(self, b, pl, depth=0):
        base = pl[0]
        proj = pl[1:]
        if not proj:
            return self.local(b, base, depth)
        # projections: a field of a typed model / a payload of Primitive::Integer|Number is a source
        cur_ty = b["locals"][base]
        adt = cur_ty.get("adt")
        variant = None
        v = None
        fields = []
        for e in proj:
            if e[0] == "downcast":
                variant = e[1]
            elif e[0] == "field":
                fields.append((adt, variant, e[2]))
                # type of the field
                fty, fadt = self._field_type(adt, variant, e[2])
                if (adt == "primitive::Primitive" or adt is None) and variant in ("Integer", "Number"):
                    v = Val(True, 1 << 31 if variant == "Integer" else INF, True, "payload of Primitive::%s" % variant)
                elif adt in self.model_adts and fty in INT_TYPES:
                    v = Val(True, typemax(fty), fty in SIGNED, "field %s.%s (%s)" % (adt.split("::")[-1], e[2], fty))
                elif adt in self.model_adts and fty and re.match(r"^(std::vec::Vec|std::option::Option)<(u8|u16|u32|u64|usize|i32|i64|f32)>$", fty):
                    inner = re.search(r"<(\w+)>", fty).group(1)
                    v = Val(True, typemax(inner), inner in SIGNED, "elements of %s.%s (%s)" % (adt.split("::")[-1], e[2], fty))
                adt = fadt
                variant = None
            elif e[0] == "index":
                pass
        if v is not None:
            return v
        # an element loaded from a slice / Vec / array: its value is an element, not the container's provenance
        if any(e[0] in ("index", "cindex") for e in proj):
            bt = b["locals"][base]["s"]
            m = re.search(r"\[(\w+)(?:; \d+)?\]|Vec<(\w+)>", bt)
            et = (m.group(1) or m.group(2)) if m else None
            # a collection of numbers that itself came from the file (a numeric array field of a model, or a copy /
            # conversion of one) hands out file numbers; byte buffers and strings never count (CONTAINER)
            cv = self.local(b, base, depth + 1)
            if cv.taint and et in INT_TYPES and et != "u8":
                return Val(True, typemax(et), et in SIGNED, "element of " + (cv.why or "a file-derived collection"), cv.g)
            if et in INT_TYPES:
                return Val(False, typemax(et), et in SIGNED)
            return Val(False, INF)
        # a named field of a struct that is not a typed model: field-sensitive when the struct is built here,
        # otherwise unknown (NOT the join of everything that ever flowed into the struct)
        named = [e for e in proj if e[0] == "field" and not e[2].isdigit()]
        if named:
            fname = named[-1][2]
            vals = []
            for d in self.defs(b).get(base, []):
                if d[0] == "assign" and d[2][0] == "aggregate" and fname in d[2][1].get("fields", []):
                    vals.append(self.operand(b, d[2][2][d[2][1]["fields"].index(fname)], depth + 1))
            if vals and len(proj) == len([e for e in proj if e[0] in ("field", "deref")]) and len(named) == 1:
                return join(vals)
            fty = None
            a0 = b["locals"][base].get("adt")
            if a0 is None:
                m0 = re.match(r"^&(?:mut )?([\w:]+)(?:<.*)?$", b["locals"][base]["s"])
                a0 = m0.group(1) if m0 else None
            cur = a0
            owner = None
            for e in proj:
                if e[0] == "field":
                    owner = cur
                    fty, cur = self._field_type(cur, None, e[2])
            ft = self.field_taint.get((owner, fname))
            if ft is not None:
                return Val(True, ft.bound, ft.neg, "field %s.%s (set from %s)" % ((owner or "?").split("::")[-1], fname, ft.why), ft.g)
            return Val(False, typemax(fty) if fty in INT_TYPES else INF)
        # tuple components / payloads of Ok, Some, Continue: follow the component through constructions and calls
        if all(e[0] in ("downcast", "field", "deref") for e in proj):
            cv = self.component(b, base, [e for e in proj if e[0] != "deref"], 0)
            if cv is not None:
                return cv
        # otherwise: the value of the base (tuple fields of checked arithmetic, Option payloads ...)
        bv = self.local(b, base, depth)
        ty = self._place_type(b, pl)
        if ty in INT_TYPES and bv.bound != INF:
            return Val(bv.taint, min(bv.bound, typemax(ty)) if not bv.taint else bv.bound, bv.neg, bv.why)
        return bv

    WRAP = {"branch": ("Continue", ("Ok", "Some")), "unwrap": (None, ("Ok", "Some")), "expect": (None, ("Ok", "Some")), "unwrap_or_default": (None, ("Ok", "Some"))}

    def component(self, b, base, path, depth):
        """value of base.<path> where path is a list of downcast / numeric-field projections, resolved through tuple
        and variant constructions, copies, `?` and calls of crate functions; None when it cannot be followed"""
        if depth > 12:
            return None
        key = ("comp", b["id"], base, json.dumps(path))
        if key in self._memo:
            return self._memo[key]
        if key in self._inprog:
            return None
        self._inprog.add(key)
        try:
            r = self._component(b, base, path, depth)
        finally:
            self._inprog.discard(key)
        self._memo[key] = r
        return r

    def _component(self, b, base, path, depth):
        if not path:
            return self.local(b, base)
        ds = self.defs(b).get(base, [])
        if not ds or (1 <= base <= b["argc"]):
            return None
        vals = []
        for d in ds:
            if d[0] == "assign":
                rv = d[2]
                if rv[0] == "aggregate":
                    info = rv[1]
                    p = list(path)
                    if info.get("k") == "adt" and p and p[0][0] == "downcast":
                        if info.get("variant") != p[0][1]:
                            continue            # a different variant flows here: not the one projected
                        p = p[1:]
                    if not p:
                        return None
                    if p[0][0] != "field":
                        return None
                    idx = p[0][1]
                    if idx >= len(rv[2]):
                        return None
                    op = rv[2][idx]
                    rest = p[1:]
                    if not rest:
                        vals.append(self.operand(b, op))
                    else:
                        pl = F.op_place(op)
                        if pl is None:
                            return None
                        v = self.component(b, pl[0], [e for e in pl[1:] if e[0] != "deref"] + rest, depth + 1)
                        if v is None:
                            return None
                        vals.append(v)
                elif rv[0] == "use" and rv[1][0] in ("copy", "move"):
                    pl = rv[1][1]
                    v = self.component(b, pl[0], [e for e in pl[1:] if e[0] != "deref"] + list(path), depth + 1)
                    if v is None:
                        return None
                    vals.append(v)
                elif rv[0] == "binop" and rv[1].endswith("WithOverflow") and path and path[0][0] == "field" and path[0][1] == 0:
                    vals.append(self.rvalue(b, rv, 0, base, d[1]))
                else:
                    return None
            elif d[0] == "call":
                t = d[2]
                seg = last_seg(F.callee_name(t))
                if seg in self.WRAP and t["args"]:
                    outv, inv = self.WRAP[seg]
                    p = list(path)
                    if outv is not None:
                        if not (p and p[0][0] == "downcast"):
                            return None
                        if p[0][1] != outv:
                            continue        # the Break arm: not the payload asked for
                        if len(p) < 2:
                            return None
                        p = p[2:] if p[1][0] == "field" else p[1:]
                    al = F.op_place(t["args"][0])
                    if al is None:
                        return None
                    got = None
                    for iv in inv:
                        v = self.component(b, al[0], [e for e in al[1:] if e[0] != "deref"] + [["downcast", iv, 0], ["field", 0, "0"]] + p, depth + 1)
                        if v is not None:
                            got = v if got is None else join([got, v])
                    if got is None:
                        return None
                    vals.append(got)
                    continue
                if seg == "from_residual":
                    # `?` propagating a failure: this definition only ever holds Err / None
                    if path and path[0][0] == "downcast" and path[0][1] in ("Ok", "Some", "Continue"):
                        continue
                    return None
                r = t.get("resolved")
                if r and t.get("resolved_local") and r in self.f.bodies:
                    v = self.component(self.f.bodies[r], 0, list(path), depth + 1)
                    if v is None:
                        return None
                    if v.taint and not v.g and self._ret_guarded(self.f.bodies[r]):
                        v = Val(v.taint, v.bound, v.neg, v.why, True)
                    vals.append(v)
                else:
                    return None
            else:
                return None
        if not vals:
            return None
        return join(vals)

    def _field_type(self, adt, variant, fname):
        a = self.f.adts.get(adt or "")
        if not a:
            return None, None
        for v in a["variants"]:
            if variant is not None and v["name"] != variant:
                continue
            for fl in v["fields"]:
                if fl["name"] == fname:
                    return fl["s"], fl.get("adt")
        return None, None

    def _place_type(self, b, pl):
        ty = b["locals"][pl[0]]["s"]
        return ty if len(pl) == 1 else None

    def local(self, b, l, depth=0):
        key = (b["id"], l)
        if key in self._memo:
            return self._memo[key]
        if key in self._inprog or self._depth > 150:
            # cyclic definition (loop-carried) or very deep chain: unbounded unless proven otherwise by a guard at the use
            self._cut = True
            return Val(False, INF)
        self._inprog.add(key)
        self._depth += 1
        cut_before = getattr(self, "_cut", False)
        self._cut = False
        try:
            vals = []
            ds = self.defs(b).get(l, [])
            if 1 <= l <= b["argc"]:
                vals.append(self.param(b, l))
            for d in ds:
                if d[0] == "assign":
                    vals.append(self.rvalue(b, d[2], depth + 1, l, d[1]))
                elif d[0] == "call":
                    vals.append(self.call(b, d[2], depth + 1))
                elif d[0] == "partial":
                    # tuple / struct field initialised separately: join of the parts
                    vals.append(self.rvalue(b, d[2], depth + 1, l))
            if not ds and not (1 <= l <= b["argc"]):
                vals.append(Val(False, typemax(b["locals"][l]["s"])))
            v = join(vals)
            ty = b["locals"][l]["s"]
            if ty in INT_TYPES and not v.taint:
                v.bound = min(v.bound, typemax(ty))
            if CONTAINER.match(ty):
                # byte buffers / strings: their contents are data, not numbers that size or index anything
                v = Val(False, INF)
        finally:
            self._inprog.discard(key)
            self._depth -= 1
            cut_here = self._cut
            self._cut = cut_before or cut_here
        # a value computed while a cycle / depth cut-off was in effect is provisional: do not remember it
        # (the outermost frame of a cycle does remember: its own in-progress marker was the only cut)
        if not cut_here or not self._inprog:
            self._memo[key] = v
        return v

    def rvalue(self, b, rv, depth, target=None, at=None):
        k = rv[0]
        if k == "use":
            return self.operand(b, rv[1], depth)
        if k in ("ref", "rawptr"):
            return self.place(b, rv[1], depth)
        if k == "discr":
            return Val(False, 64)
        if k == "cast":
            v = self.operand(b, rv[2], depth)
            tgt = rv[3]
            tm = typemax(tgt)
            if v.neg and tgt not in SIGNED:
                # a possibly negative number reinterpreted as unsigned -- unless its sign was tested on the way here (`n if n >= 0 => n as usize`)
                ol = F.op_local(rv[2])
                if at is not None and ol is not None and v.bound != INF and self.guarded(b, at, ol):
                    return Val(v.taint, min(v.bound, tm), False, v.why, v.g)
                return Val(v.taint, tm, False, (v.why or "") + " cast to " + tgt)
            return Val(v.taint, min(v.bound, tm) if tm != INF else v.bound, v.neg and tgt in SIGNED, v.why, v.g)
        if k == "binop":
            op = rv[1].replace("WithOverflow", "").replace("Unchecked", "")
            a = self.operand(b, rv[2], depth)
            c = self.operand(b, rv[3], depth)
            t = a.taint or c.taint
            why = a.why if a.taint else c.why
            if t:
                ab, cb_ = a.eb, c.eb
            else:
                ab, cb_ = a.bound, c.bound
            # a compared / clamped file number plus or minus an in-memory size is still a vetted quantity
            keep_g = t and all(x.g for x in (a, c) if x.taint)
            if op == "Add":
                return Val(t, ab + cb_, a.neg or c.neg, why, keep_g)
            if op == "Sub":
                return Val(t, ab if not c.neg else ab + cb_, True if (a.neg or c.taint or a.taint) else False, why, keep_g)
            if op == "Mul":
                return Val(t, ab * cb_ if 0 not in (ab, cb_) else 0, a.neg or c.neg, why)
            if op == "Div":
                return Val(t, a.bound, a.neg or c.neg, why)
            if op == "Rem":
                return Val(t, max(c.bound - 1, 0) if c.bound != INF else a.bound, a.neg, why)
            if op == "BitAnd":
                return Val(t, min(a.bound, c.bound), False, why)
            if op in ("BitOr", "BitXor"):
                m = max(a.bound, c.bound)
                return Val(t, (1 << (int(m).bit_length())) - 1 if m != INF else INF, False, why)
            if op == "Shl":
                return Val(t, a.bound * (1 << min(int(c.bound), 128)) if c.bound != INF and a.bound != INF else INF, a.neg, why)
            if op == "Shr":
                return Val(t, a.bound, a.neg, why)
            if op in ("Lt", "Le", "Gt", "Ge", "Eq", "Ne", "Cmp"):
                return Val(False, 1)
            return Val(t, INF, True, why)
        if k == "unop":
            v = self.operand(b, rv[2], depth)
            if rv[1] == "Neg":
                return Val(v.taint, v.bound, True, v.why)
            if rv[1] == "PtrMetadata":
                return Val(False, MEM)
            return v
        if k == "aggregate":
            return join([self.operand(b, o, depth) for o in rv[2]]) if rv[2] else Val()
        if k == "repeat":
            return self.operand(b, rv[1], depth)
        return Val(False, INF)

    def call(self, b, t, depth):
        n = F.callee_name(t)
        seg = last_seg(n)
        full = t.get("callee_full", "") + " " + t.get("resolved_full", "")
        args = [self.operand(b, a, depth) for a in t["args"]]
        rty = b["locals"][t["dest"][0]]["s"] if t.get("dest") else ""
        if seg in SRC_CALLS and ("primitive::Primitive" in n or seg == "read_u64_from_stream"):
            ty, neg = SRC_CALLS[seg]
            return Val(True, typemax(ty), neg, seg + "()")
        if seg in PARSE_CALLS and ("Substr" in n or "Lexer" in n or "str" in n.split("::")[:3] or "FromStr" in n):
            m = re.search(r"::<(\w+)>", full)
            ty = m.group(1) if m else None
            if ty is None:
                m2 = re.search(r"Result<(\w+),", rty)
                ty = m2.group(1) if m2 else "u64"
            return Val(True, typemax(ty), ty in SIGNED, "%s::<%s>()" % (seg, ty))
        if seg == "from_primitive" and re.search(r"<(i32|u32|usize|f32|u8|u16|i64|u64) as object::Object>", full):
            ty = re.search(r"<(\w+) as object::Object>", full).group(1)
            return Val(True, typemax("i32") if ty in ("u32", "usize") else typemax(ty), ty in SIGNED, "%s::from_primitive" % ty)
        a0 = args[0] if args else Val()
        if seg in ("min",):
            known = [a for a in args]
            bmin = min(a.bound for a in known) if known else INF
            # clamped by an untainted quantity (`wanted.min(self.buf.len())`): as good as compared
            clamped = any(not a.taint and a.bound <= MEM for a in known)
            return Val(any(a.taint for a in args), bmin, all(a.neg for a in args), join(args).why, clamped or join(args).g)
        if seg == "max":
            return join(args)
        if seg == "clamp" and len(args) == 3:
            return Val(args[0].taint, args[2].bound, args[1].neg, args[0].why)
        if seg in ("len", "count", "position", "rposition", "capacity", "get_pos", "get_offset", "file_offset"):
            return Val(False, MEM)
        if seg in ("checked_add", "saturating_add", "wrapping_add", "overflowing_add") and len(args) == 2:
            tm = typemax(b["arg_tys_cache"] if False else t["arg_tys"][0]["s"])
            return Val(args[0].taint or args[1].taint, min(args[0].bound + args[1].bound, tm), False, join(args).why)
        if seg in ("checked_sub", "saturating_sub", "wrapping_sub") and len(args) == 2:
            return Val(args[0].taint or args[1].taint, args[0].bound, seg == "wrapping_sub", join(args).why)
        if seg in ("checked_mul", "saturating_mul", "wrapping_mul") and len(args) == 2:
            tm = typemax(t["arg_tys"][0]["s"])
            return Val(args[0].taint or args[1].taint, min(args[0].bound * args[1].bound if 0 not in (args[0].bound, args[1].bound) else 0, tm), False, join(args).why)
        if seg in ("try_from", "try_into", "from", "into", "clone", "unwrap", "expect", "unwrap_or", "unwrap_or_default", "ok_or", "ok_or_else", "ok", "branch", "from_residual",
                   "cloned", "copied", "deref", "as_ref", "borrow", "map_err", "unwrap_or_else", "get_or_insert", "abs", "unsigned_abs", "to_owned", "must_use", "next",
                   "into_iter", "iter", "enumerate", "rev", "get", "first", "last", "index", "and_then", "map", "transpose", "as_deref", "peekable", "step_by", "zip", "by_ref"):
            v = join(args) if args else Val()
            m = re.search(r"(?:Result|Option)<(\w+)[,>]", rty)
            tyn = rty if rty in INT_TYPES else (m.group(1) if m else None)
            if tyn in INT_TYPES and seg in ("try_from", "try_into"):
                return Val(v.taint, min(v.bound, typemax(tyn)), False, v.why)
            return v
        if seg in ("pow",):
            return Val(a0.taint or (len(args) > 1 and args[1].taint), INF, a0.neg, join(args).why)
        # crate-local function: the bound of what it returns
        r = t.get("resolved")
        if r and t.get("resolved_local") and r in self.f.bodies and depth < 40:
            cb = self.f.bodies[r]
            v = self.local(cb, 0, depth + 1)
            return Val(v.taint or False, v.bound, v.neg, v.why, v.taint and self._ret_guarded(cb))
        tm = INF
        m = re.search(r"(?:Result|Option)<(\w+)[,>]", rty)
        tyn = rty if rty in INT_TYPES else (m.group(1) if m else None)
        if tyn in INT_TYPES:
            tm = typemax(tyn)
        return Val(any(a.taint for a in args), tm, tyn in SIGNED if tyn else False, join(args).why)

    def param(self, b, n):
        key = (b["id"], n)
        if key in self._param:
            return self._param[key]
        ty = b["locals"][n]["s"]
        self._param[key] = Val(False, typemax(ty) if ty.lstrip("&") in INT_TYPES else INF)
        vals = []
        for (cid, bi) in self.callers(b["id"]):
            cb = self.f.bodies.get(cid)
            if cb is None:
                continue
            t = cb["blocks"][bi]["term"]
            if t["k"] != "call" or len(t["args"]) < n:
                continue
            v = self.operand(cb, t["args"][n - 1], 1)
            al = F.op_local(t["args"][n - 1])
            if v.taint and not v.g and al is not None and self.guarded_exact(cb, bi, t["args"][n - 1]):
                v = Val(v.taint, v.bound, v.neg, v.why, True)
            vals.append(v)
        if vals:
            v = join(vals)
        else:
            v = Val(False, typemax(ty) if ty.lstrip("&") in INT_TYPES else INF)
        self._param[key] = v
        return v

    # ---- guards ---------------------------------------------------------------
    def ancestors(self, b, l, through_access=False):
        """through_access: a value fetched with get()/len()/first()/last() also depends on the index / collection (used for loop exit
        conditions only: for guards it would make `refs.get(id)` a comparison of everything `id` was computed from)"""
        key = (b["id"], l, through_access)
        if key in self._anc:
            return self._anc[key]
        seen = set()
        st = [l]
        d = self.defs(b)
        while st:
            x = st.pop()
            if x in seen:
                continue
            seen.add(x)
            if not isinstance(x, int):
                continue
            for df in d.get(x, []):
                if df[0] in ("assign", "partial"):
                    rv = df[2]
                    for o in _rv_operands(rv):
                        if o[0] in ("copy", "move"):
                            st.append(o[1][0])
                            if len(o[1]) > 1:
                                # the place itself: two reads of `(*p as Integer).0` are the same number
                                seen.add(("place", json.dumps(self.canon_place(b, o[1]))))
                    if rv[0] in ("ref", "rawptr", "discr"):
                        st.append(rv[1][0])
                        if len(rv[1]) > 1:
                            seen.add(("place", json.dumps(self.canon_place(b, rv[1]))))
                elif df[0] == "call":
                    t = df[2]
                    seg = last_seg(F.callee_name(t))
                    if (through_access and seg in ("len", "get", "first", "last", "eq", "ne", "lt", "le", "gt", "ge", "cmp", "partial_cmp", "is_some", "is_none", "is_ok", "is_err", "contains", "starts_with")) or seg in ("min", "max", "checked_add", "checked_sub", "checked_mul", "saturating_sub", "saturating_add", "wrapping_add", "wrapping_sub", "into", "from", "try_from",
                               "try_into", "clone", "unwrap", "branch", "ok_or", "ok_or_else", "cloned", "copied", "deref", "abs", "unwrap_or", "map_err", "expect", "ok", "from_residual"):
                        for a in t["args"]:
                            if a[0] in ("copy", "move"):
                                st.append(a[1][0])
        self._anc[key] = seen
        return seen

    def canon_place(self, b, pl, depth=0):
        """rewrite the base of a place through single-definition copies / borrows, so that two reads of the same
        memory through different temporaries get the same key"""
        base = pl[0]
        ds = self.defs(b).get(base, [])
        if depth < 8 and len(ds) == 1 and ds[0][0] == "assign" and not (1 <= base <= b["argc"]):
            rv = ds[0][2]
            if rv[0] == "use" and rv[1][0] in ("copy", "move"):
                return self.canon_place(b, list(rv[1][1]) + list(pl[1:]), depth + 1)
            if rv[0] in ("ref", "rawptr") and len(pl) > 1 and pl[1][0] == "deref":
                return self.canon_place(b, list(rv[1]) + list(pl[2:]), depth + 1)
        return list(pl)

    def expr_key(self, b, op_or_place, depth=0):
        """canonical form (nested tuples) of the expression a temporary holds, through single-definition temporaries:
        two operands with the same key carry the same value"""
        if depth > 10:
            return ("?",)
        if isinstance(op_or_place, (list, tuple)) and op_or_place and op_or_place[0] == "const":
            c = op_or_place[1]
            return ("c", c.get("int", c.get("str", c.get("bool", "?"))))
        pl = op_or_place[1] if (isinstance(op_or_place, (list, tuple)) and op_or_place and op_or_place[0] in ("copy", "move")) else op_or_place
        pl = self.canon_place(b, list(pl))
        base = pl[0]
        ds = self.defs(b).get(base, [])
        if len(ds) == 1 and not (1 <= base <= b["argc"]):
            d = ds[0]
            if d[0] == "assign":
                rv = d[2]
                proj = pl[1:]
                if rv[0] == "binop" and (not proj or (len(proj) == 1 and proj[0][0] == "field" and proj[0][1] == 0)):
                    op = rv[1].replace("WithOverflow", "").replace("Unchecked", "")
                    a, c = self.expr_key(b, rv[2], depth + 1), self.expr_key(b, rv[3], depth + 1)
                    if op in ("Add", "Mul", "BitAnd", "BitOr", "BitXor") and repr(c) < repr(a):
                        a, c = c, a
                    return (op, a, c)
                if rv[0] == "cast" and not proj:
                    return self.expr_key(b, rv[2], depth + 1)
                if rv[0] == "use" and rv[1][0] == "const" and not proj:
                    return self.expr_key(b, rv[1], depth + 1)
                if rv[0] in ("ref", "rawptr") and not proj:
                    # a reference to x stands for x where values are compared (`(5..=16).contains(&key_size)`)
                    return self.expr_key(b, rv[1], depth + 1)
            if d[0] == "call" and len(pl) == 1:
                t = d[2]
                seg = last_seg(F.callee_name(t))
                if seg in ("len", "min", "max", "checked_add", "checked_sub", "checked_mul", "saturating_sub", "saturating_add", "wrapping_add", "wrapping_sub", "into", "from", "clone", "as_ref", "deref"):
                    return (seg,) + tuple(self.expr_key(b, a, depth + 1) for a in t["args"])
        return ("p", json.dumps(pl))

    def _places_in(self, key):
        out = set()
        if isinstance(key, tuple):
            if key and key[0] == "p":
                pl = json.loads(key[1])
                if len(pl) > 1:
                    out.add(key[1])
            else:
                for x in key[1:]:
                    out |= self._places_in(x)
        return out

    def _places_stable(self, b, places, from_bb, to_bb, count_to=True):
        cfg = self.cfg(b)
        stores = getattr(self, "_stores", None)
        if stores is None:
            stores = self._stores = {}
        st = stores.get(b["id"])
        if st is None:
            st = []
            for i, j, s in F.stmts(b):
                if s[0] == "assign" and len(s[1]) > 1:
                    st.append((i, json.dumps(self.canon_place(b, s[1]))))
            stores[b["id"]] = st
        for i, pj in st:
            if i == to_bb and not count_to:
                continue
            if pj in places and i != from_bb and cfg.dominates(from_bb, i) and (i == to_bb or to_bb in cfg.reachable_from(i, avoid={from_bb})):
                return False
        return True

    @staticmethod
    def _covers(compared, key):
        """a comparison of `compared` bounds `key`: the same expression, or key + something (checked, so no wrap)"""
        if compared == key:
            return True
        if compared and compared[0] == "Add" and key in compared[1:]:
            return True
        return False

    def separates(self, b, bi, site_bb):
        """the decision taken at the end of block bi (or, for a call that returns a flag / Option / Result, at the first switch that follows it)
        keeps one of its outcomes away from site_bb: a test whose both outcomes flow into the use (`if n > MAX { warn!(..) }`) bounds nothing"""
        cfg = self.cfg(b)
        t = b["blocks"][bi]["term"]
        hops = 0
        while t["k"] != "switch" and hops < 4:
            nxt = t.get("target")
            if t["k"] == "assert" or nxt is None:
                return True               # an assertion (or a diverging call) is a decision by itself
            if nxt == site_bb:
                return False if t["k"] in ("call", "goto") and hops == 0 and False else self._sep_value(b, bi, site_bb)
            bi = nxt
            t = b["blocks"][bi]["term"]
            hops += 1
        if t["k"] != "switch":
            return True                   # no decision nearby: the value itself carries the test (get / checked_* results)
        succ = {a[1] for a in t["arms"]} | {t.get("otherwise")}
        for x in succ:
            if x is None:
                continue
            if x != site_bb and site_bb not in cfg.reachable_from(x, avoid={bi}):
                return True
        return False

    def _sep_value(self, b, bi, site_bb):
        return True

    def guarded_exact(self, b, site_bb, op, arith=True, upper=False):
        """a comparison of the very same value (same expression, or the value plus something) dominates site_bb, or it
        was looked up with get() / tested by a checked_* / contains call before"""
        cfg = self.cfg(b)
        key = self.expr_key(b, op)
        if key[0] == "c":
            return True
        places = self._places_in(key)
        for bi, bb in enumerate(b["blocks"]):
            if not cfg.dominates(bi, site_bb):
                continue
            if places and not self._places_stable(b, places, bi, site_bb):
                continue        # a field the expression reads is stored to between the comparison and the use
            t = bb["term"]
            if t["k"] == "switch":
                for st in bb["stmts"]:
                    if st[0] == "assign" and st[2][0] == "binop" and st[2][1] in ("Lt", "Le", "Gt", "Ge", "Eq", "Ne"):
                        if upper and 0 in (F.const_int(st[2][2]), F.const_int(st[2][3])):
                            continue        # a sign / zero test does not limit a size from above
                        if (self._covers(self.expr_key(b, st[2][2]), key) or self._covers(self.expr_key(b, st[2][3]), key)) and self.separates(b, bi, site_bb):
                            return True
            # a validating helper of the crate that was handed the struct the value is read from (`predictor_stride(params)?`) and compares
            # that very field
            if t["k"] == "call" and bi != site_bb and t.get("resolved_local") and t.get("resolved") in self.f.bodies:
                cb = self.f.bodies[t["resolved"]]
                rty = b["locals"][t["dest"][0]]["s"] if t.get("dest") else ""
                if rty.startswith(("std::result::Result<", "std::option::Option<")) and len(cb["blocks"]) <= 60 and not cb.get("pub"):
                    for k2, a in enumerate(t["args"], start=1):
                        if a[0] not in ("copy", "move") or k2 > cb["argc"]:
                            continue
                        # the value itself is handed to the helper, which compares it (`xref_entry_len(w0, w1, w2)?`)
                        if self._covers(self.expr_key(b, a), key) and "" in self._compared_fields(cb, k2) and self.separates(b, bi, site_bb):
                            return True
                        if not places:
                            continue
                        abase = self.canon_place(b, list(a[1]))[0]
                        for _ in range(4):      # `&*params` re-borrows and copies of the reference
                            ds0 = self.defs(b).get(abase, [])
                            if len(ds0) == 1 and ds0[0][0] == "assign" and not (1 <= abase <= b["argc"]):
                                rv0 = ds0[0][2]
                                if rv0[0] == "ref" and len(rv0[1]) == 2 and rv0[1][1][0] == "deref":
                                    abase = rv0[1][0]
                                    continue
                                if rv0[0] == "use" and rv0[1][0] in ("copy", "move") and len(rv0[1][1]) == 1:
                                    abase = rv0[1][1][0]
                                    continue
                            break
                        for pj in places:
                            pl = json.loads(pj)
                            flds = [e[2] for e in pl[1:] if e[0] == "field"]
                            if pl[0] == abase and flds and flds[-1] in self._compared_fields(cb, k2) and self.separates(b, bi, site_bb):
                                return True
            # (surviving checked arithmetic says that the NUMBER is representable - enough for an overflow, nothing about the length of a
            # collection the number is then used to index: arith=False for index and range bounds)
            if t["k"] == "call" and bi != site_bb and last_seg(F.callee_name(t)) in (("get", "get_mut", "contains", "read", "contains_key") +
                                                                                      (("checked_add", "checked_sub", "checked_mul", "try_from", "try_into") if arith else ())):
                for a in t["args"]:
                    if self._covers(self.expr_key(b, a), key) and self.separates(b, bi, site_bb):
                        return True
                    # a range argument built from the value
                    al = F.op_local(a)
                    for d in self.defs(b).get(al, []) if al is not None else []:
                        if d[0] == "assign" and d[2][0] == "aggregate":
                            if any(self._covers(self.expr_key(b, o), key) for o in d[2][2]) and self.separates(b, bi, site_bb):
                                return True
        return False

    def captured_len_guarded(self, cb, op):
        """cb is a closure and op holds the length of a slice it captured (by copy or by shared reference): a comparison of that very length
        dominates the creation of the closure in the enclosing function and sends one outcome away from it
        (`assert!(!key.is_empty() && key.len() <= 256); (0..256).fold(0, |j, i| .. key[i % key.len()] ..)`)"""
        if cb.get("kind") != "Closure":
            return False
        key = self.expr_key(cb, op)
        if not (isinstance(key, tuple) and len(key) == 2 and key[0] == "len" and key[1][0] == "p"):
            return False
        pl = json.loads(key[1][1])
        if not (len(pl) >= 3 and pl[0] == 1 and pl[1][0] == "deref" and pl[2][0] == "field" and all(e[0] == "deref" for e in pl[3:])):
            return False
        k = pl[2][1]
        parent = self.f.bodies.get(cb.get("parent") or cb.get("owner_fn") or "")
        if parent is None:
            return False

        def strip(pl2):
            pl2 = list(pl2)
            while len(pl2) > 1 and pl2[-1][0] == "deref":
                pl2.pop()
            return pl2
        sites = [(i, st) for i, j, st in F.stmts(parent) if st[0] == "assign" and st[2][0] == "aggregate" and st[2][1].get("k") == "closure" and st[2][1].get("closure") == cb["id"]]
        if not sites:
            return False
        for i, st in sites:
            if k >= len(st[2][2]) or st[2][2][k][0] not in ("copy", "move"):
                return False
            base = strip(self.canon_place(parent, list(st[2][2][k][1]) + [["deref"]]))
            if len(base) != 1:
                return False
            ty = parent["locals"][base[0]]["s"]
            if not ty.startswith("&") or ty.startswith("&mut") or len(self.defs(parent).get(base[0], [])) > (0 if 1 <= base[0] <= parent["argc"] else 1):
                return False        # only a shared reference that is never re-assigned: its referent's length cannot change
            ok = False
            for bi, t in F.calls(parent):
                if last_seg(F.callee_name(t)) == "len" and t.get("dest") and len(t["dest"]) == 1 and t["args"] and t["args"][0][0] in ("copy", "move"):
                    ak = self.expr_key(parent, t["args"][0])
                    if ak[0] == "p" and strip(json.loads(ak[1])) == base and self.guarded_exact(parent, i, ["copy", [t["dest"][0]]]):
                        ok = True
                        break
            if not ok:
                return False
        return True

    def _ret_guarded(self, cb):
        """every value the function hands back in Ok(..) / Some(..) (or directly) was compared, as that very expression, before the return:
        `if w0 + w1 + w2 == 0 { bail } Ok(w0 + w1 + w2)`"""
        memo = self.__dict__.setdefault("_retg", {})
        if cb["id"] in memo:
            return memo[cb["id"]]
        memo[cb["id"]] = False
        if cb.get("pub"):
            # only private helpers (an extracted validation): a public conversion such as Primitive::as_u32 compares for the sign, which
            # says nothing about the size its callers need
            return False
        sites = []
        for i, j, st in F.stmts(cb):
            if st[0] == "assign" and st[1] == [0]:
                rv = st[2]
                if rv[0] == "aggregate" and rv[1].get("variant") in ("Ok", "Some") and rv[2]:
                    sites.append((i, rv[2][0]))
                elif rv[0] == "aggregate" and rv[1].get("variant") in ("Err", "None"):
                    continue
                elif rv[0] == "use":
                    sites.append((i, rv[1]))
                else:
                    sites.append((i, None))
        ok = bool(sites) and all(op is not None and op[0] in ("copy", "move") and self.guarded_exact(cb, i, op) for i, op in sites)
        memo[cb["id"]] = ok
        return ok

    def _compared_fields(self, cb, k):
        """names of the fields of parameter k (a struct passed by reference) that the body, or a closure of it, compares with something;
        "" stands for the parameter itself"""
        key = (cb["id"], k, "fields")
        memo = self.__dict__.setdefault("_cmpp", {})
        if key in memo:
            return memo[key]
        out = set()
        for body in [cb] + [x for x in self.f.bodies.values() if x["id"].startswith(cb["id"] + "::{closure")]:
            for i, j, st in F.stmts(body):
                if st[0] == "assign" and st[2][0] == "binop" and st[2][1] in ("Lt", "Le", "Gt", "Ge", "Eq", "Ne"):
                    for o in (st[2][2], st[2][3]):
                        if o[0] in ("copy", "move"):
                            anc = self.ancestors(body, o[1][0])
                            root = k if body is cb else 1
                            if root in anc:
                                out.add("")
                                for x in anc:
                                    if isinstance(x, tuple) and x[0] == "place":
                                        for e in json.loads(x[1])[1:]:
                                            if e[0] == "field":
                                                out.add(e[2])
        memo[key] = out
        return out

    def _compares_param(self, cb, k):
        """the body (or one of its closures) has a comparison one side of which is read from parameter k"""
        key = (cb["id"], k)
        memo = self.__dict__.setdefault("_cmpp", {})
        if key in memo:
            return memo[key]
        res = False
        for body in [cb] + [x for x in self.f.bodies.values() if x["id"].startswith(cb["id"] + "::{closure")]:
            for i, j, st in F.stmts(body):
                if st[0] == "assign" and st[2][0] == "binop" and st[2][1] in ("Lt", "Le", "Gt", "Ge", "Eq", "Ne"):
                    for o in (st[2][2], st[2][3]):
                        if o[0] in ("copy", "move"):
                            anc = self.ancestors(body, o[1][0])
                            if body is cb and k in anc:
                                res = True
                            if body is not cb and 1 in anc:
                                res = True        # a captured variable of the helper's closure
        memo[key] = res
        return res

    def guarded(self, b, site_bb, l, upper=False):
        """a comparison involving l (or something l was computed from / that was computed from the same
        tainted ancestors) dominates site_bb.  upper=True: the value is used as an upper limit (the end of a range, a size) - a test against
        the constant 0 (a sign test) says nothing about how large it is and does not count"""
        cfg = self.cfg(b)
        anc = self.ancestors(b, l)
        tainted_anc = {x for x in anc if (self.local(b, x).taint if isinstance(x, int) else self.place(b, json.loads(x[1])).taint)} or anc
        for bi, bb in enumerate(b["blocks"]):
            if not cfg.dominates(bi, site_bb):
                continue
            t = bb["term"]
            cmp_locals = set()
            for s in bb["stmts"]:
                if s[0] == "assign" and s[2][0] == "binop" and s[2][1] in ("Lt", "Le", "Gt", "Ge", "Eq", "Ne"):
                    if upper and 0 in (F.const_int(s[2][2]), F.const_int(s[2][3])):
                        continue
                    for o in (s[2][2], s[2][3]):
                        if o[0] in ("copy", "move"):
                            cmp_locals.add(o[1][0])
            if t["k"] == "call" and last_seg(F.callee_name(t)) in ("contains", "checked_add", "checked_sub", "checked_mul", "get", "get_mut", "checked_div", "cmp", "partial_cmp",
                                                                    "try_from", "try_into", "is_empty", "read"):
                if bi != site_bb:
                    for a in t["args"]:
                        if a[0] in ("copy", "move"):
                            cmp_locals.add(a[1][0])
            # a validating helper of the crate: `let stride = predictor_stride(params)?` - the callee compares (something read from) the
            # parameter it is given, and its failure leaves (separates() looks at the `?` that follows)
            if t["k"] == "call" and bi != site_bb and t.get("resolved_local") and t.get("resolved") in self.f.bodies:
                cb = self.f.bodies[t["resolved"]]
                rty = b["locals"][t["dest"][0]]["s"] if t.get("dest") else ""
                if rty.startswith(("std::result::Result<", "std::option::Option<")) and len(cb["blocks"]) <= 60 and not cb.get("pub"):
                    for k, a in enumerate(t["args"], start=1):
                        if a[0] in ("copy", "move") and k <= cb["argc"] and self._compares_param(cb, k):
                            cmp_locals.add(a[1][0])
            if t["k"] != "switch" and not (t["k"] == "call"):
                continue
            for c in cmp_locals:
                ca = self.ancestors(b, c)
                if (ca & tainted_anc or c in anc) and self.separates(b, bi, site_bb):
                    return True
        return False


def _rv_operands(rv):
    k = rv[0]
    if k == "use":
        return [rv[1]]
    if k == "cast":
        return [rv[2]]
    if k == "binop":
        return [rv[2], rv[3]]
    if k == "unop":
        return [rv[2]]
    if k == "aggregate":
        return list(rv[2])
    if k == "repeat":
        return [rv[1]]
    return []
