"""Type-instantiated call graph (A1 with substitutions) for the recursion rule.

The ordinary call graph joins every `T::from_primitive` call in a generic container
(`Vec<T>`, `Option<T>`, `HashMap<Name, V>`, `MaybeRef<T>` ...) with every implementation, which
merges all typed loaders into one strongly connected component.  Here a node is a body together
with the concrete types of its generic parameters; a call on a type parameter is resolved by
substituting the node's types into the callee's self type and unifying the result with the `impl`
headers of the trait (rustc already resolved every call whose self type is concrete; the facts
carry the instantiated type arguments of each call).

The resolver parameter (`impl Resolve`) stays abstract.  `Resolve::get::<X>` is an edge of kind
"get" to `<X as Object>::from_primitive` (the load runs inside the recursion guard of
`StorageResolver::get`); `Resolve::resolve*` / `Primitive::resolve` mark the node as
reference-following.
"""
import re
import facts as F
from flow import last_seg

ABSTRACT = ("impl Resolve", "impl pdf::object::Resolve", "impl object::Resolve", "impl Updater", "impl Cloner")


def split_top(s, sep=","):
    out = []
    depth = 0
    cur = ""
    for ch in s:
        if ch in "<([":
            depth += 1
        elif ch in ">)]":
            depth -= 1
        if ch == sep and depth == 0:
            out.append(cur.strip())
            cur = ""
        else:
            cur += ch
    if cur.strip():
        out.append(cur.strip())
    return out


def parse_ty(s):
    """-> (head, [args]) ; head is the path / '(' for tuples / '[' for slices and arrays / '&' refs"""
    s = s.strip()
    if s.startswith("(") and s.endswith(")"):
        return ("(", [parse_ty(x) for x in split_top(s[1:-1])])
    if s.startswith("&"):
        r = s[1:].strip()
        if r.startswith("mut "):
            r = r[4:]
        r = re.sub(r"^'\w+ ", "", r)
        return ("&", [parse_ty(r)])
    if s.startswith("[") and s.endswith("]"):
        inner = s[1:-1]
        parts = split_top(inner, ";")
        return ("[" + (parts[1] if len(parts) > 1 else ""), [parse_ty(parts[0])])
    i = s.find("<")
    if i < 0 or not s.endswith(">") or s.startswith(("impl ", "dyn ")):
        return (s, [])
    return (s[:i], [parse_ty(x) for x in split_top(s[i + 1:-1])])


def show_ty(t):
    h, a = t
    if h == "(":
        return "(" + ", ".join(show_ty(x) for x in a) + ")"
    if h == "&":
        return "&" + show_ty(a[0])
    if h.startswith("["):
        return "[" + show_ty(a[0]) + ("; " + h[1:] if h[1:] else "") + "]"
    return h + ("<" + ", ".join(show_ty(x) for x in a) + ">" if a else "")


def subst(t, env):
    h, a = t
    if not a and h in env:
        return env[h]
    return (h, [subst(x, env) for x in a])


def unify(pat, conc, params, env):
    h, a = pat
    if not a and h in params:
        if h in env:
            return env[h] == conc
        env[h] = conc
        return True
    ch, ca = conc
    if h != ch or len(a) != len(ca):
        return False
    return all(unify(x, y, params, env) for x, y in zip(a, ca))


def has_params(t, params):
    h, a = t
    if not a and h in params:
        return True
    return any(has_params(x, params) for x in a)


def _symbolic(t):
    """a type that still is (or contains only) an unsubstituted generic parameter such as `T`"""
    h, a = t
    return (not a and "::" not in h and len(h) <= 2 and h.isupper()) or (a and all(_symbolic(x) for x in a) and h in ("(",))


class Inst:
    def __init__(self, f, limit=6000):
        self.f = f
        self.limit = limit
        self.nodes = {}     # key -> {"body", "env", "follows", "edges": [(key, kind, bb, via)]}
        self.impls_by_trait = {}
        for im in f.impls:
            if im.get("trait"):
                self.impls_by_trait.setdefault(im["trait"], []).append(im)
        self.truncated = False
        self.unresolved = []

    # -- keys ---------------------------------------------------------------
    def key(self, bid, env):
        if not env:
            return bid
        return bid + " {" + ", ".join("%s=%s" % (k, show_ty(v)) for k, v in sorted(env.items())) + "}"

    def impl_params(self, body):
        """names of the generic parameters of a body that denote types to substitute"""
        return [g for g in body.get("generics", []) if not g.startswith(("impl ", "'"))]

    def find_impl(self, trait, conc, method):
        """-> (body id, env) of the impl of `trait` for the concrete self type, or None"""
        cands = []
        for im in self.impls_by_trait.get(trait, []):
            items = dict(im["items"])
            if method not in items or items[method] not in self.f.bodies:
                continue
            body = self.f.bodies[items[method]]
            params = set(self.impl_params(body))
            env = {}
            if unify(parse_ty(im["self"]["s"]), conc, params, env):
                cands.append((len(env), items[method], env))
        if not cands:
            return None
        cands.sort(key=lambda c: c[0])     # most specific impl (fewest bound parameters) first
        return cands[0][1], cands[0][2]

    def add(self, bid, env):
        k = self.key(bid, env)
        if k in self.nodes:
            return k
        if len(self.nodes) >= self.limit:
            self.truncated = True
            return None
        node = {"body": bid, "env": env, "follows": [], "edges": []}
        self.nodes[k] = node
        b0 = self.f.bodies[bid]
        work = []
        for b in self.f.with_closures(bid):
            for bi, t in F.calls(b):
                work.append((b, bi, t))
        for b, bi, t in work:
            n = F.callee_name(t)
            seg = last_seg(n)
            tr = t.get("trait")
            if tr == "object::Resolve" or n == "primitive::Primitive::resolve":
                if seg == "get" and len(t.get("targs", [])) >= 2:
                    # walking from a loaded object to another loaded object is following a reference too
                    node["follows"].append((b["id"], bi, seg))
                    x = subst(parse_ty(t["targs"][1]), env)
                    r = self.find_impl("object::Object", x, "from_primitive")
                    if r is None:
                        if not _symbolic(x):
                            self.unresolved.append((k, "get::<%s>" % show_ty(x)))
                        continue
                    ck = self.add(r[0], r[1])
                    if ck:
                        node["edges"].append((ck, "get", bi, b["id"]))
                elif seg in ("resolve", "resolve_flags"):
                    node["follows"].append((b["id"], bi, seg))
                continue
            st = t.get("self_ty") or {}
            if tr and t.get("local") is not False and (t.get("unresolved") or st.get("k") in ("param",) or (t.get("resolved") and t.get("resolved_local"))):
                # trait method: substitute the self type and look the impl up
                if not t.get("targs"):
                    continue
                conc = subst(parse_ty(t["targs"][0]), env)
                if conc[0] in ABSTRACT or conc[0].startswith(("impl ", "dyn ")):
                    continue
                r = self.find_impl(tr, conc, seg)
                if r is None:
                    # provided method of the trait?
                    dflt = None
                    for bb in self.f.bodies.values():
                        if bb.get("in_trait") == tr and bb["id"].split("::")[-1] == seg:
                            dflt = bb["id"]
                    if dflt is None:
                        if tr.startswith(("object::", "backend::", "file::")) and not has_params(conc, set(env) | {"T", "U", "V", "I"}):
                            pass
                        if tr.startswith("object::") and not _symbolic(conc):
                            self.unresolved.append((k, "<%s as %s>::%s" % (show_ty(conc), tr, seg)))
                        continue
                    r = (dflt, {"Self": conc})
                cenv = dict(r[1])
                # method-level type arguments (after Self) keep their names; bind by position
                cb = self.f.bodies[r[0]]
                ck = self.add(r[0], cenv)
                if ck:
                    node["edges"].append((ck, "trait", bi, b["id"]))
                continue
            r = t.get("resolved")
            if r and t.get("resolved_local") and r in self.f.bodies:
                cb = self.f.bodies[r]
                params = self.impl_params(cb)
                targs = [subst(parse_ty(x), env) for x in t.get("targs", []) if not x.startswith("'")]
                cenv = {}
                # inherent / free fn: generics are bound positionally (impl generics first)
                ps = [g for g in cb.get("generics", []) if not g.startswith("'")]
                for g, a in zip(ps, targs):
                    if not g.startswith("impl ") and a[0] not in ABSTRACT:
                        cenv[g] = a
                ck = self.add(r, cenv)
                if ck:
                    node["edges"].append((ck, "exact", bi, b["id"]))
        return k

    # -- graph algorithms ---------------------------------------------------------
    def sccs(self):
        import sys
        sys.setrecursionlimit(20000)
        index = {}
        low = {}
        onst = set()
        st = []
        out = []
        c = [0]

        def strong(v):
            index[v] = low[v] = c[0]
            c[0] += 1
            st.append(v)
            onst.add(v)
            for e in self.nodes[v]["edges"]:
                w = e[0]
                if w not in index:
                    strong(w)
                    low[v] = min(low[v], low[w])
                elif w in onst:
                    low[v] = min(low[v], index[w])
            if low[v] == index[v]:
                comp = []
                while True:
                    w = st.pop()
                    onst.discard(w)
                    comp.append(w)
                    if w == v:
                        break
                out.append(comp)
        for v in list(self.nodes):
            if v not in index:
                strong(v)
        return [c_ for c_ in out if len(c_) > 1 or any(e[0] == c_[0] for e in self.nodes[c_[0]]["edges"])]
