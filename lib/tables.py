"""Constant-table extraction from match-like control flow (A6).

`str_arms`   — arms of a `match <str> { "lit" => … }` (lowered to <str as PartialEq>::eq + switch)
`enum_arms`  — arms of a `match <enum value>` (switch on a discriminant)
`exclusive_regions` — for a list of arm entry blocks, the blocks reachable from one arm and from
                      no other (code after the join is shared and therefore excluded)
"""
import facts as F
from cfg import CFG
from flow import last_seg

STR_EQ = ("core::str::traits::<impl std::cmp::PartialEq for str>::eq",)


def is_str_eq(t):
    n = F.callee_name(t)
    return n in STR_EQ or (last_seg(n) == "eq" and "for str" in n)


def str_arms(body, subject_pred=None):
    """[{const, eq_bb, true_bb, false_bb, span}] in source order of the comparisons"""
    out = []
    for bi, t in F.calls(body):
        if not is_str_eq(t):
            continue
        c = None
        for a in t["args"]:
            s = F.const_str(a)
            if s is not None:
                c = s
        if c is None or t.get("target") is None:
            continue
        sw = body["blocks"][t["target"]]["term"]
        if sw["k"] != "switch" or F.op_local(sw["discr"]) != t["dest"][0]:
            continue
        true_bb = None
        false_bb = None
        for v, tg in sw["arms"]:
            if v == 0:
                false_bb = tg
            elif v == 1:
                true_bb = tg
        if true_bb is None:
            true_bb = sw["otherwise"]
        if false_bb is None:
            false_bb = sw["otherwise"]
        out.append({"const": c, "eq_bb": bi, "true_bb": true_bb, "false_bb": false_bb, "span": t["span"], "call": t})
    return out


def exclusive_regions(cfg, entries, avoid=()):
    """entries: {key: entry block}.  -> {key: set(blocks reachable only from this entry)}.  `avoid`: blocks not to walk through (the head of
    a loop the switch sits in: an arm that ends in `continue` would otherwise reach every other arm)"""
    reach = {k: cfg.reachable_from(b, avoid=set(avoid)) for k, b in entries.items()}
    out = {}
    for k, r in reach.items():
        others = set()
        for k2, r2 in reach.items():
            if k2 != k and entries[k2] != entries[k]:
                others |= r2
        out[k] = r - others
    return out


def arm_regions(cfg, entries):
    """entries: {key: entry block}.  Region of an arm = blocks reachable from its entry minus the
    code reachable from EVERY arm (the code after the match).  Arms written as or-patterns bind
    their variables in separate blocks and then share one body: each of them gets that body."""
    reach = {k: cfg.reachable_from(b) for k, b in entries.items()}
    big = [r for r in reach.values() if len(r) > 1]
    common = set.intersection(*big) if big else set()
    return {k: (r - common) | {entries[k]} for k, r in reach.items()}


def enum_switches(body, adt_path, f=None):
    """[(bb, place, {variant_index: target}, otherwise)] for switches on discriminant(place) where
    the place's type is the ADT"""
    out = []
    for i, bb in enumerate(body["blocks"]):
        t = bb["term"]
        if t["k"] != "switch":
            continue
        dl = F.op_local(t["discr"])
        if dl is None:
            continue
        for s in bb["stmts"]:
            if s[0] == "assign" and s[1] == [dl] and s[2][0] == "discr":
                pl = s[2][1]
                ty = place_adt(body, pl, f)
                if ty == adt_path:
                    out.append((i, pl, {a[0]: a[1] for a in t["arms"]}, t["otherwise"]))
    return out


def place_adt(body, pl, f=None):
    """ADT path of the type of a place (follows derefs and, with the ADT table, fields)"""
    lt = body["locals"][pl[0]]
    cur = lt.get("adt")
    cur_s = lt["s"]
    for e in pl[1:]:
        if e[0] == "deref":
            continue
        if e[0] == "field" and f is not None and cur in f.adts:
            fld = None
            for v in f.adts[cur]["variants"]:
                for fl in v["fields"]:
                    if fl["name"] == e[2]:
                        fld = fl
            if fld is None:
                return None
            cur = fld.get("adt")
            cur_s = fld["s"]
        elif e[0] == "downcast":
            continue
        else:
            return None
    return cur


def region_aggregates(body, region, adt=None):
    out = []
    for r in sorted(region):
        for s in body["blocks"][r]["stmts"]:
            if s[0] == "assign" and s[2][0] == "aggregate" and (adt is None or s[2][1].get("adt") == adt):
                out.append((r, s))
    return out


def region_calls(body, region):
    out = []
    for r in sorted(region):
        t = body["blocks"][r]["term"]
        if t["k"] == "call":
            out.append((r, t))
    return out


def transitive_callees(f, body, depth=3, include_closures=True):
    """names of functions reachable from `body` through resolved calls (crate-local bodies are
    followed up to `depth`)"""
    seen = set()
    names = set()
    st = [(body, 0)]
    while st:
        b, d = st.pop()
        if b["id"] in seen:
            continue
        seen.add(b["id"])
        bodies = [b] + (f.closures_of(b["id"]) if include_closures else [])
        for bb in bodies:
            for bi, t in F.calls(bb):
                n = F.callee_name(t)
                names.add(n)
                names.add(t.get("callee_full", n))
                names.add(t.get("resolved_full", n))
                if d < depth and t.get("resolved_local"):
                    cb = f.body(t.get("resolved"))
                    if cb is not None:
                        st.append((cb, d + 1))
    return names
