"""Offset units (A5): Rel = byte offset as written in the file (relative to the %PDF- header),
Abs = index into the backend buffer, Base = position of the header.

A value's unit is read off its provenance (flow-insensitive atoms, with the reaching-definition
filter when a CFG is given):
  Rel sources  : locate_xref_offset(); Dictionary::get(.., "Prev"); the `pos` field of XRef::Raw;
                 XRefInfo.prev
  Base sources : field `start_offset`; locate_start_offset(); a parameter that receives Base at
                 every call site in the crate
  Abs sources  : Backend::len(), Vec::len() of the backend; fields file_range / file_offset;
                 StreamInner::InFile / StreamData::Original ranges
`classify(local)` returns the set of unit tags found in the provenance.  Rules then state
obligations on sinks: an Abs sink must not see Rel without Base, nor Base on top of Abs.
"""
import facts as F
from flow import Flow, last_seg, arg_local, PASS_LAST

REL_CALLS = ("locate_xref_offset",)
BASE_CALLS = ("locate_start_offset",)
ABS_FIELDS = ("file_range", "file_offset")
REL_FIELDS = ("pos", "prev")
BASE_FIELDS = ("start_offset",)


class Units:
    def __init__(self, f):
        self.f = f
        self._callers = None
        self._param_base = {}

    def callers(self, bid):
        if self._callers is None:
            self._callers = {}
            for b in self.f.bodies.values():
                for bi, t in F.calls(b):
                    for key in (t.get("resolved"), t.get("callee")):
                        if key:
                            self._callers.setdefault(key, []).append((b, bi, t))
        seen = set()
        out = []
        for k in (bid,):
            for c in self._callers.get(k, []):
                if id(c[2]) not in seen:
                    seen.add(id(c[2]))
                    out.append(c)
        # trait method bodies are called through the trait path
        b = self.f.body(bid)
        if b is not None and b.get("in_trait"):
            name = bid
            for c in self._callers.get(name, []):
                if id(c[2]) not in seen:
                    seen.add(id(c[2]))
                    out.append(c)
        return out

    def param_is_base(self, body, n, depth=0):
        key = (body["id"], n)
        if key in self._param_base:
            return self._param_base[key]
        self._param_base[key] = False
        # by name, as a tie-breaker for public entry points without in-crate callers
        names = {v[0] for v in body["vars"] if v[1] == [n]}
        cs = self.callers(body["id"])
        res = False
        if cs and depth < 3:
            res = True
            for (cb, bi, t) in cs:
                l = arg_local(t, n - 1)
                if l is None:
                    res = False
                    break
                tags = self.classify(cb, l, depth=depth + 1)
                if "base" not in tags:
                    res = False
                    break
        elif not cs:
            res = "start_offset" in names
        self._param_base[key] = res
        return res

    def classify(self, body, local, at=None, cfg=None, depth=0, fl=None):
        fl = fl or Flow(body)
        tags = set()
        fields = set()
        atoms = fl.origins(local, fields=fields, at=at, cfg=cfg)
        for a in atoms:
            if a[0] == "call":
                seg = last_seg(a[1])
                t = a[3]
                if seg in REL_CALLS:
                    tags.add("rel")
                elif seg in BASE_CALLS:
                    tags.add("base")
                elif seg == "len":
                    tags.add("abs")
                elif seg == "get" and a[1] == "primitive::Dictionary::get":
                    k = F.const_str(t["args"][1]) if len(t["args"]) > 1 else None
                    if k is None and len(t["args"]) > 1:
                        kl = arg_local(t, 1)
                        for x in fl.origins(kl) if kl is not None else []:
                            if x[0] == "const" and "str" in x[1]:
                                k = x[1]["str"]
                    if k in ("Prev", "XRefStm"):
                        tags.add("rel")
                elif seg in ("file_range",):
                    tags.add("abs")
                elif seg in ("and_then", "map", "map_or", "unwrap_or_else", "or_else") and depth < 4:
                    # the value is what the closure returns: add the units of the closure's result
                    for x in t["args"][1:]:
                        xl = F.op_local(x)
                        for o in fl.origins(xl, passthrough=()) if xl is not None else []:
                            if o[0] == "agg" and o[1].get("k") == "closure" and o[1].get("closure") in self.f.bodies:
                                cb = self.f.bodies[o[1]["closure"]]
                                tags |= self.classify(cb, 0, depth=depth + 1)
            elif a[0] == "arg" and body["kind"] == "Closure" and a[1] >= 2 and depth < 4:
                # a closure parameter: the payload of the Option / Result / iterator the closure is applied to in its parent
                parent = self.f.bodies.get(body.get("parent") or "")
                if parent is not None:
                    pfl = Flow(parent)
                    for bi, t in F.calls(parent):
                        if last_seg(F.callee_name(t)) not in ("and_then", "map", "map_or", "map_or_else", "filter", "is_some_and", "then", "unwrap_or_else", "or_else", "filter_map", "for_each"):
                            continue
                        passed = False
                        for x in t["args"][1:]:
                            xl = F.op_local(x)
                            for o in pfl.origins(xl, passthrough=()) if xl is not None else []:
                                if o[0] == "agg" and o[1].get("k") == "closure" and o[1].get("closure") == body["id"]:
                                    passed = True
                        if passed:
                            rl = arg_local(t, 0)
                            if rl is not None:
                                tags |= self.classify(parent, rl, depth=depth + 1, fl=pfl)
            elif a[0] == "arg":
                if self.param_is_base(body, a[1], depth):
                    tags.add("base")
                else:
                    ty = body["locals"][a[1]]["s"]
                    if "Range<usize>" in ty:
                        tags.add("abs-param")
            elif a[0] == "const":
                pass
        for fld in fields:
            if fld in BASE_FIELDS:
                tags.add("base")
            if fld in ABS_FIELDS or fld in ("as:InFile", "as:Original"):
                tags.add("abs")
            if fld in REL_FIELDS:
                tags.add("rel")
        return tags


def range_bounds(body, fl, op):
    """[(bound name, local)] of a Range / RangeFrom / RangeTo operand built in this body"""
    l = F.op_local(op)
    out = []
    if l is None:
        return out
    for d in fl.defs.get(l, []):
        if d[0] == "assign" and d[2][0] == "aggregate" and "fields" in d[2][1]:
            for name, o in zip(d[2][1]["fields"], d[2][2]):
                if name in ("start", "end"):
                    out.append((name, F.op_local(o), o))
    return out
