"""MIR-level inlining of private helpers (on the exported facts, not on the program).

Several rules speak about one function ("in the typed load the key is tested, pushed, and popped by an RAII value").  A maintainer may move
a part of that function into a private helper of the same impl (`self.enter(key)?`).  Behaviour is unchanged, so the rules must not care:
`inlined(f, body)` returns a copy of the body in which every call to such a helper is replaced by the helper's blocks (locals and block
numbers shifted, parameters assigned from the arguments, `return` turned into an assignment of the destination and a jump to the call's
continuation).  One level, helpers only: non-public bodies of the same impl (or free functions of the same file) that are not recursive.
"""
import copy
import re
import facts as F


def _place(pl, off):
    out = [pl[0] + off]
    for e in pl[1:]:
        if e and e[0] == "index":
            out.append(["index", e[1] + off] + list(e[2:]))
        else:
            out.append(e)
    return out


def _op(op, off):
    if isinstance(op, list) and op and op[0] in ("copy", "move"):
        return [op[0], _place(op[1], off)]
    return op


def _rv(rv, off):
    k = rv[0]
    if k == "use":
        return ["use", _op(rv[1], off)]
    if k in ("ref", "rawptr"):
        return [k, _place(rv[1], off)] + list(rv[2:])
    if k == "discr":
        return ["discr", _place(rv[1], off)]
    if k == "binop":
        return ["binop", rv[1], _op(rv[2], off), _op(rv[3], off)]
    if k == "unop":
        return ["unop", rv[1], _op(rv[2], off)] + list(rv[3:])
    if k == "cast":
        return ["cast", rv[1], _op(rv[2], off)] + list(rv[3:])
    if k == "aggregate":
        return ["aggregate", rv[1], [_op(o, off) for o in rv[2]]] + list(rv[3:])
    if k == "repeat":
        return ["repeat", _op(rv[1], off)] + list(rv[2:])
    if k == "other":
        return ["other", re.sub(r"_(\d+)", lambda m: "_%d" % (int(m.group(1)) + off), rv[1])] + list(rv[2:])
    return rv


def _stmt(s, off):
    if s[0] in ("assign", "partial") and len(s) >= 3:
        return [s[0], _place(s[1], off), _rv(s[2], off)] + list(s[3:])
    return s


def _term(t, off, boff):
    t = copy.deepcopy(t)
    k = t["k"]
    for key in ("target", "otherwise"):
        if isinstance(t.get(key), int):
            t[key] = t[key] + boff
    if isinstance(t.get("unwind"), int):
        t["unwind"] = t["unwind"] + boff
    if k == "switch":
        t["discr"] = _op(t["discr"], off)
        t["arms"] = [[a[0], a[1] + boff] for a in t["arms"]]
    elif k == "call":
        t["args"] = [_op(a, off) for a in t["args"]]
        if t.get("dest"):
            t["dest"] = _place(t["dest"], off)
    elif k == "drop":
        t["place"] = _place(t["place"], off)
    elif k == "assert":
        if isinstance(t.get("cond"), list):
            t["cond"] = _op(t["cond"], off)
    return t


def helper_calls(f, b):
    """(block, terminator, helper body) for calls from b to private, non-recursive bodies of the same impl / same file"""
    out = []
    im = (b.get("impl") or {}).get("self")
    for bi, t in F.calls(b):
        if not t.get("resolved_local"):
            continue
        h = f.bodies.get(t.get("resolved") or "")
        if h is None or h is b or h.get("pub") or h["kind"] == "Closure" or h.get("_file") != b.get("_file"):
            continue
        if any((tt.get("resolved") or "") == h["id"] for _, tt in F.calls(h)):
            continue
        if len(h["blocks"]) > 120:
            continue
        same_impl = (h.get("impl") or {}).get("self") is not None and ((h.get("impl") or {}).get("self") == im or
                                                                        (h.get("impl") or {}).get("self", "").split("<")[0] == (im or "").split("<")[0])
        # a private free function of the same file is a helper of every body of that file (methods and trait defaults included)
        if same_impl or h.get("impl") is None:
            out.append((bi, t, h))
    return out


def inlined(f, b, only=None):
    """b with its private helpers inlined (one level); `only` = predicate on the helper body"""
    calls = [(bi, t, h) for bi, t, h in helper_calls(f, b) if only is None or only(h)]
    if not calls:
        return b
    nb = copy.deepcopy({k: v for k, v in b.items()})
    nb["inlined"] = [h["id"] for _, _, h in calls]
    for bi, t, h in calls:
        off = len(nb["locals"])
        boff = len(nb["blocks"])
        nb["locals"] = nb["locals"] + copy.deepcopy(h["locals"])
        blk = nb["blocks"][bi]
        # parameters
        for k, a in enumerate(t["args"], start=1):
            if k <= h["argc"]:
                blk["stmts"].append(["assign", [off + k], ["use", a], []])
        blk["term"] = {"k": "goto", "target": boff, "span": t.get("span", "")}
        for hb in h["blocks"]:
            stmts = [_stmt(s, off) for s in hb["stmts"]]
            term = _term(hb["term"], off, boff)
            if term["k"] == "return":
                if t.get("dest") is not None and t.get("target") is not None:
                    stmts.append(["assign", list(t["dest"]), ["use", ["move", [off]]], []])
                    term = {"k": "goto", "target": t["target"], "span": term.get("span", "")}
                else:
                    term = {"k": "unreachable", "span": term.get("span", "")}
            elif term["k"] == "resume" and isinstance(t.get("unwind"), int):
                term = {"k": "goto", "target": t["unwind"], "span": term.get("span", "")}
            nblk = {"stmts": stmts, "term": term}
            if hb.get("cleanup"):
                nblk["cleanup"] = True
            nb["blocks"].append(nblk)
    return nb
