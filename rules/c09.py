"""C09 — a reload sees exactly the saved modifications and nothing else changes.

Decided (structure): reads consult pending changes before the xref table (G1); writes invalidate
the object cache (PAIR1, shared with C12); positions written by save are relative to the header
(UNITS); the xref-stream promise made by save is turned into an entry before anything can fail
(PAIR2); update keeps the caller's reference for every storage form (G2); save only appends to
the backend (G3); object framing separates body and keywords (ADJ, with C04).
Not decided: equality of untouched objects after reload, /Size arithmetic, merge semantics of
repeated dictionary updates.
"""
import facts as F
from cfg import CFG
from flow import Flow, call_sites, arg_local, last_seg, PASS_LAST
from units import Units
import c12
import adj


def storage_method(f, name):
    out = []
    for b in f.bodies.values():
        im = b.get("impl") or {}
        if im.get("self", "").startswith("file::Storage<") and b["id"].endswith("::" + name):
            out.append(b)
    return out


def rule_g1(ctx, f):
    ctx.rule("C09-G1", "in the object lookup the pending-changes map is consulted first: the HashMap lookup dominates every use of the xref table, "
             "and a hit returns the pending value without touching the table")
    bs = [b for b in storage_method(f, "resolve_ref")]
    if not ctx.floor("C09-G1", len(bs), 1, "Storage::resolve_ref"):
        return
    for b in bs:
        cfg = CFG(b)
        fl = Flow(b)
        ch = []
        for bi, t in F.calls(b):
            if last_seg(F.callee_name(t)) == "get" and "HashMap" in F.callee_name(t):
                flds = set()
                fl.origins(arg_local(t, 0), fields=flds)
                if "changes" in flds:
                    ch.append((bi, t))
        refs = [(bi, t) for bi, t in F.calls(b) if F.callee_name(t).startswith("xref::XRefTable::")]
        ok = len(ch) == 1 and bool(refs) and all(cfg.dominates(ch[0][0], r[0]) for r in refs)
        ctx.check(ok, "C09-G1", b["id"] + "#changes-first", "the xref table is consulted before (or without) the pending changes: a read after "
                  "update/create returns the stale stored object", b["span"], detail="changes.get(id) dominates refs.get(id)")
        if ch:
            t = ch[0][1]
            sw = b["blocks"][t["target"]]["term"]
            some_t = None
            if sw["k"] == "switch":
                for v, tg in sw["arms"]:
                    if v == 1:
                        some_t = tg
                if some_t is None:
                    some_t = sw["otherwise"]
                none_ts = [tg for v, tg in sw["arms"] if v == 0] or [sw["otherwise"]]
                reg = cfg.reachable_from(some_t) - cfg.reachable_from(none_ts[0])
                ok2 = not any(r[0] in reg for r in refs)
                ctx.check(ok2, "C09-G1", b["id"] + "#hit-returns-pending", "a pending value is not returned as is", t["span"], detail="Some((p, _)) => Ok(p.clone())")


def rel_shape(b, fl, cfg, at, l):
    """Rel = Abs - Base: the header position is subtracted, and never added back"""
    subs, adds_base = 0, 0
    for a in fl.origins(l, at=at, cfg=cfg):
        if a[0] == "binop":
            op = a[1].replace("WithOverflow", "").replace("Unchecked", "")
            rv = a[3]
            if op in ("Sub", "Add"):
                flds = set()
                for o in (rv[2], rv[3]):
                    ol = F.op_local(o)
                    pl = F.op_place(o)
                    if pl is not None:
                        Flow._note_fields(pl, flds)
                    if ol is not None:
                        fl.origins(ol, fields=flds, passthrough=())
                rhs = set()
                pl = F.op_place(rv[3])
                if pl is not None:
                    Flow._note_fields(pl, rhs)
                    if len(pl) == 1:
                        fl.origins(pl[0], fields=rhs, passthrough=())
                if op == "Sub" and "start_offset" in rhs:
                    subs += 1
                if op == "Add" and "start_offset" in flds:
                    adds_base += 1
    return subs >= 1 and adds_base == 0


def rule_units(ctx, f):
    ctx.rule("C09-UNITS", "positions stored into XRef::Raw.pos and printed after startxref by save are relative to the header "
             "(buffer length minus Storage.start_offset)")
    u = Units(f)
    bs = storage_method(f, "save")
    if not ctx.floor("C09-UNITS", len(bs), 1, "Storage::save"):
        return
    for b in bs:
        fl = Flow(b)
        cfg = CFG(b)
        n = 0
        for i, j, s in F.stmts(b):
            if s[0] == "assign" and s[2][0] == "aggregate" and s[2][1].get("adt") == "xref::XRef" and s[2][1]["variant"] == "Raw":
                n += 1
                op = s[2][2][s[2][1]["fields"].index("pos")]
                l = F.op_local(op)
                tags = u.classify(b, l, at=i, cfg=cfg, fl=fl) if l is not None else set()
                ok = "abs" in tags and "base" in tags and rel_shape(b, fl, cfg, i, l)
                ctx.check(ok, "C09-UNITS", b["id"] + "#Raw.pos-%d" % n,
                          "an absolute buffer position (units %s) is stored as the object's file offset: a document loaded from a file with "
                          "bytes before %%PDF- cannot be reloaded after save" % sorted(tags), b["blocks"][i]["term"]["span"],
                          detail="pos = backend.len() - start_offset")
        ctx.floor("C09-UNITS", n, 2, "XRef::Raw constructions in save (changed objects, xref stream)")
        # the position is taken where the object begins: the first thing written to the backend after the length was read is the
        # `N G obj` header of that object
        import adj as _adj
        import re as _re
        a_ = _adj.get_adj(f, _adj.OBJECT_KEYWORDS)
        fn_ = a_.ast.fn_for_body(b)
        fmts = {}
        if fn_ is not None:
            def _walk(x):
                if isinstance(x, dict):
                    yield x
                    for v in x.values():
                        yield from _walk(v)
                elif isinstance(x, list):
                    for y in x:
                        yield from _walk(y)
            for nd in _walk(fn_["body"]):
                if nd.get("k") == "macro" and nd.get("fmt") is not None and nd.get("line") is not None:
                    fmts[(nd["line"], nd.get("col"))] = nd["fmt"]
        writes = {}
        for bi, t in F.calls(b):
            if any(ty["k"] == "refmut" and ty["s"] == "&mut std::vec::Vec<u8>" for ty in t["arg_tys"]) and last_seg(F.callee_name(t)) in ("write_fmt", "serialize", "write_all", "extend_from_slice", "write", "push"):
                m2 = _re.search(r":(\d+):(\d+)$", t["span"])
                writes[bi] = fmts.get((int(m2.group(1)), int(m2.group(2)))) if m2 else None
        k2 = 0
        for i, j, st in F.stmts(b):
            if st[0] == "assign" and st[2][0] == "aggregate" and st[2][1].get("adt") == "xref::XRef" and st[2][1]["variant"] == "Raw":
                op = st[2][2][st[2][1]["fields"].index("pos")]
                l = F.op_local(op)
                lens = [a0[2] for a0 in fl.origins(l) if a0[0] == "call" and last_seg(a0[1]) == "len" and "Vec" in a0[1]] if l is not None else []
                for L in lens:
                    k2 += 1
                    # first writes reachable from L
                    first = set()
                    seen = set()
                    stack = list(cfg.succ[L])
                    while stack:
                        x = stack.pop()
                        if x in seen:
                            continue
                        seen.add(x)
                        if x in writes:
                            first.add(x)
                            continue
                        stack.extend(cfg.succ[x])
                    okh = bool(first) and all(writes[x] is not None and _re.match(r"^\{\} \{\} obj", writes[x]) for x in first)
                    # ... and that header carries the number the position is stored under (`refs.set(id, Raw { pos })`)
                    def roots(loc):
                        return {(a0[1], a0[2]) for a0 in fl.origins(loc, passthrough=PASS_LAST + ("get_inner", "get_ref")) if a0[0] == "call" and
                                last_seg(a0[1]) in ("next", "promise", "create", "len", "push")} if loc is not None else set()
                    set_ids = set()
                    for sb, stt in F.calls(b):
                        if F.callee_name(stt) == "xref::XRefTable::set" and len(stt["args"]) >= 3:
                            vl = arg_local(stt, 2)
                            if vl is not None and any(a0[0] == "agg" and a0[2] == i and a0[1].get("variant") == "Raw" for a0 in fl.origins(vl, passthrough=())):
                                set_ids |= roots(arg_local(stt, 1))
                    same_obj = bool(set_ids) and bool(first)
                    for x in first:
                        sp = b["blocks"][x]["term"]["span"]
                        argcalls = sorted((ab, at) for ab, at in F.calls(b) if F.callee_name(at).startswith("core::fmt::rt::Argument") and at["span"] == sp)
                        hid = roots(arg_local(argcalls[0][1], 0)) if argcalls else set()
                        same_obj = same_obj and bool(hid & set_ids)
                    ctx.check(same_obj, "C09-UNITS", b["id"] + "#Raw.pos-of-object-%d" % k2, "the position is stored for one object but the header written at that position is another "
                              "object's: the cross-reference entry (and, for the cross-reference stream, startxref) points at the wrong object", b["blocks"][L]["term"]["span"],
                              detail="the `N G obj` header after the read carries the id passed to refs.set")
                    ctx.check(okh, "C09-UNITS", b["id"] + "#Raw.pos-at-header-%d" % k2, "the position stored for an object is not read right before its `N G obj` header is "
                              "written (next output after the read: %s): the cross-reference entry points into the object instead of at its start" %
                              sorted(str(writes[x]) for x in first), b["blocks"][L]["term"]["span"], detail="pos = len(); then `N G obj`")
        ctx.floor("C09-UNITS", k2, 2, "reads of the backend length that become object positions")
        # every pending change is written: each turn of the loop over the changes reaches the entry store and the serialiser
        loops = cfg.loops()
        for sb, stt in F.calls(b):
            if F.callee_name(stt) != "xref::XRefTable::set":
                continue
            for h, blk in loops.items():
                if sb not in blk:
                    continue
                sers = [wb for wb, wt in F.calls(b) if wb in blk and last_seg(F.callee_name(wt)) == "serialize"]
                backs = [a_ for a_, h2 in cfg.back_edges() if h2 == h]
                every = bool(backs) and bool(sers) and all(cfg.all_paths_pass(h, [a_], {sb}) and cfg.all_paths_pass(h, [a_], set(sers)) for a_ in backs)
                ctx.check(every, "C09-UNITS", b["id"] + "#every-change-written", "a turn of the loop over the pending changes can go on to the next change without storing the entry "
                          "and writing the object: that modification (a null that deletes an object, say) is not in the saved file", stt["span"],
                          detail="every path round the loop passes refs.set and serialize")
        # startxref operand: usize values formatted into the backend
        m = 0
        for bi, t in F.calls(b):
            if F.callee_name(t).startswith("core::fmt::rt::Argument") and "usize" in (t.get("callee_full", "") + t.get("resolved_full", "")):
                l = arg_local(t, 0)
                tags = u.classify(b, l, at=bi, cfg=cfg, fl=fl) if l is not None else set()
                if "abs" in tags or "base" in tags:
                    m += 1
                    ctx.check("base" in tags and rel_shape(b, fl, cfg, bi, l), "C09-UNITS", b["id"] + "#startxref", "the startxref value is an absolute buffer position", t["span"],
                              detail="startxref = backend.len() - start_offset")
        ctx.floor("C09-UNITS", m, 1, "startxref operand in save")


def rule_pair2(ctx, f):
    ctx.rule("C09-PAIR2", "the placeholder save allocates for its cross-reference stream becomes a Raw entry before any exit of save "
             "(otherwise a failed save leaves XRef::Promised in the table and every later save fails)")
    for b in storage_method(f, "save"):
        cfg = CFG(b)
        fl = Flow(b)
        ps = [(bi, t) for bi, t in F.calls(b) if last_seg(F.callee_name(t)) == "promise"]
        if not ctx.floor("C09-PAIR2", len(ps), 1, "promise() in save"):
            continue
        sets = []
        for bi, t in F.calls(b):
            if F.callee_name(t) == "xref::XRefTable::set":
                idl = arg_local(t, 1)
                if idl is not None and any(a[0] == "call" and last_seg(a[1]) == "promise" for a in fl.origins(idl, passthrough=PASS_LAST + ("get_inner", "get_ref"))):
                    sets.append(bi)
        for bi, t in ps:
            ok = bool(sets) and cfg.all_paths_pass(t["target"], cfg.exits, set(sets))
            ctx.check(ok, "C09-PAIR2", b["id"] + "#xref-promise", "save can return (e.g. with a serialisation error) between promising the "
                      "xref-stream id and storing its entry", t["span"], detail="promise(); refs.set(id, Raw) with no exit in between")


def rule_identity(ctx, f):
    ctx.rule("C09-G2", "update returns the reference it was given for every storage form of the old entry (never a freshly created one)")
    bs = [b for b in f.bodies.values() if (b.get("impl") or {}).get("trait") == "object::Updater" and b["id"].endswith("::update")
          and (b.get("impl") or {}).get("self", "").startswith("file::Storage<")]
    if not ctx.floor("C09-G2", len(bs), 1, "<Storage as Updater>::update"):
        return
    for b in bs:
        fl = Flow(b)
        creates = [t for bi, t in F.calls(b) if last_seg(F.callee_name(t)) == "create"]
        ctx.check(not creates, "C09-G2", b["id"] + "#no-create", "an arm of update delegates to create(): the caller's reference keeps its old value "
                  "after save and reload", creates[0]["span"] if creates else b["span"], detail="no arm calls create()")
        rets = [(bi, t) for bi, t in F.calls(b) if F.callee_name(t).endswith("RcRef::<T>::new")]
        ok = bool(rets)
        for bi, t in rets:
            l = arg_local(t, 0)
            aggs = [a for a in fl.origins(l, passthrough=()) if a[0] == "agg" and a[1].get("adt") == "object::PlainRef"]
            for a in aggs:
                names = a[3][1]["fields"]
                idop = a[3][2][names.index("id")]
                pl = F.op_place(idop)
                src_ok = pl is not None and pl[0] == 2 or (F.op_local(idop) is not None and fl.derives_from_arg(F.op_local(idop), 2))
                ok = ok and src_ok
            ok = ok and bool(aggs)
        ctx.check(ok, "C09-G2", b["id"] + "#same-id", "the returned reference's id is not the id of the reference passed in", b["span"], detail="PlainRef{id: old.id, ..}")


def rule_append(ctx, f):
    ctx.rule("C09-G3", "save writes to the backend only by appending (io::Write / extend): no truncate, clear, index store, splice, insert, drain")
    bad_names = ("truncate", "clear", "splice", "insert", "drain", "remove", "set_len", "swap", "resize", "retain", "split_off", "index_mut", "as_mut_slice", "iter_mut", "copy_within", "fill")
    for b in storage_method(f, "save"):
        fl = Flow(b)
        n = 0
        # what may be done with a mutable borrow of the buffer: append, or pass it through unchanged
        appenders = ("write", "write_all", "write_fmt", "extend", "extend_from_slice", "push", "reserve", "flush", "by_ref", "deref_mut", "borrow_mut", "as_mut")
        for bi, t in F.calls(b):
            for k, a in enumerate(t["args"]):
                l = F.op_local(a)
                if l is None:
                    continue
                flds = set()
                fl.origins(l, fields=flds)
                if "backend" not in flds:
                    continue
                nm = last_seg(F.callee_name(t))
                mut = t["arg_tys"][k]["s"].startswith("&mut")
                if k == 0:
                    n += 1
                    ctx.check(nm not in bad_names and (not mut or nm in appenders), "C09-G3", b["id"] + "#backend." + nm,
                              "save calls %s on the backend buffer: the previous revision is no longer an unmodified prefix" % nm, t["span"], detail="backend.%s" % nm)
                elif mut:
                    # handed to a writer: that writer only knows it as `impl io::Write` (it can append and nothing else)
                    cb = f.bodies.get(t.get("resolved") or "") if t.get("resolved_local") else None
                    pty = cb["locals"][k + 1]["s"] if cb is not None and k + 1 < len(cb["locals"]) else ""
                    generic = cb is not None and "Vec<" not in pty and "[u8]" not in pty
                    ctx.check(generic, "C09-G3", b["id"] + "#backend->" + nm, "save hands the backend buffer as %s to %s, which is not limited to io::Write: the previous revision "
                              "may be changed there" % (pty or "&mut Vec<u8>", F.callee_name(t)), t["span"], detail="%s(.., out: %s)" % (nm, pty))
        # direct stores through the backend
        for i, j, s in F.stmts(b):
            if s[0] == "assign" and any(e[0] == "field" and e[2] == "backend" for e in s[1][1:]):
                ctx.bad("C09-G3", b["id"] + "#backend-store", "save assigns into the backend buffer", b["blocks"][i]["term"]["span"])
        ctx.floor("C09-G3", n, 5, "calls on Storage.backend in save")


def rule_reserve(ctx, f):
    ctx.rule("C09-ORDER", "create / promise: the new object number (the length of the table) is reserved by pushing the placeholder before the "
             "storage is handed to anything else - serialising the object may create nested objects, which must get numbers of their own")
    n = 0
    for b in f.bodies.values():
        im = b.get("impl") or {}
        if im.get("trait") != "object::Updater" or not im.get("self", "").startswith("file::Storage<") or b["kind"] == "Closure":
            continue
        lens = [(bi, t) for bi, t in F.calls(b) if F.callee_name(t) == "xref::XRefTable::len"]
        pushes = [(bi, t) for bi, t in F.calls(b) if F.callee_name(t) == "xref::XRefTable::push"]
        if not lens or not pushes:
            continue
        n += 1
        cfg = CFG(b)
        fl = Flow(b)
        bad = []
        for bi, t in F.calls(b):
            if (bi, t) in lens or (bi, t) in pushes:
                continue
            takes_self = any(ty["k"] == "refmut" and "file::Storage<" in ty["s"] for ty in t["arg_tys"])
            if takes_self and any(cfg.can_reach(l[0], bi) for l in lens) and any(cfg.can_reach(bi, p[0]) for p in pushes):
                bad.append(t)
        ctx.check(not bad, "C09-ORDER", b["id"] + "#reserve-first", "the storage is handed to %s between reading the next object number and reserving it: "
                  "objects created in there get the same number, and one overwrites the other" % ", ".join(sorted({last_seg(F.callee_name(t)) for t in bad})),
                  bad[0]["span"] if bad else b["span"], detail="refs.len() .. refs.push(Promised) with no &mut Storage call in between")
    ctx.floor("C09-ORDER", n, 2, "Storage methods that allocate an object number (create, promise)")


def rule_last_write(ctx, f):
    ctx.rule("C09-G4", "update stores the new value whether or not the object already has a pending one: the vacant case inserts, the occupied case "
             "overwrites (or merges into) the stored value; no or_insert-style call that keeps the old value")
    bs = [b for b in f.bodies.values() if (b.get("impl") or {}).get("trait") == "object::Updater" and b["id"].endswith("::update")
          and (b.get("impl") or {}).get("self", "").startswith("file::Storage<")]
    if not ctx.floor("C09-G4", len(bs), 1, "<Storage as Updater>::update"):
        return
    for b in bs:
        fl = Flow(b)
        names = [last_seg(F.callee_name(t)) for bi, t in F.calls(b)]
        keep = [n for n in names if n in ("or_insert", "or_insert_with", "or_default", "or_insert_with_key", "try_insert")]
        ins = [bi for bi, t in F.calls(b) if last_seg(F.callee_name(t)) == "insert" and ("VacantEntry" in F.callee_name(t) or "HashMap" in F.callee_name(t) or "OccupiedEntry" in F.callee_name(t))]
        gm = [(bi, t) for bi, t in F.calls(b) if last_seg(F.callee_name(t)) in ("get_mut", "into_mut") and "OccupiedEntry" in F.callee_name(t)]
        over = False
        for bi, t in gm:
            d = t["dest"][0]
            for i, j, st in F.stmts(b):
                if st[0] == "assign" and len(st[1]) > 1 and st[1][1][0] == "deref":
                    if any(a[0] == "call" and a[2] == bi for a in fl.origins(st[1][0])):
                        over = True
        plain_insert = any("HashMap" in F.callee_name(t) and last_seg(F.callee_name(t)) == "insert" for bi, t in F.calls(b))
        occ_insert = any("OccupiedEntry" in F.callee_name(t) and last_seg(F.callee_name(t)) == "insert" for bi, t in F.calls(b))
        ok = not keep and bool(ins) and (over or plain_insert or occ_insert)
        # the merge of a second update into a pending dictionary takes every entry of the new value, a null one included (null is how an
        # entry is removed)
        ap = f.body("primitive::Dictionary::append")
        if ap is not None and any(last_seg(F.callee_name(t)) == "append" and "Dictionary" in F.callee_name(t) for bi, t in F.calls(b)):
            names = {last_seg(F.callee_name(t)) for bb in f.with_closures(ap["id"]) for bi, t in F.calls(bb)}
            drop = sorted(names & {"filter", "filter_map", "skip", "take", "take_while", "skip_while", "retain", "step_by"})
            # ... unconditionally: the only decisions in the merge are those of the iteration itself (a test of what is already there, or of
            # the new value, keeps an entry back)
            cond = []
            for bb in f.with_closures(ap["id"]):
                bfl = Flow(bb)
                for i2, blk2 in enumerate(bb["blocks"]):
                    t2 = blk2["term"]
                    if t2["k"] != "switch" or blk2.get("cleanup"):
                        continue
                    dl2 = F.op_local(t2["discr"])
                    ats2 = bfl.origins(dl2, passthrough=()) if dl2 is not None else []
                    calls2 = [last_seg(a2[1]) for a2 in ats2 if a2[0] == "call"]
                    if calls2 == ["next"] or (not calls2 and ats2 and all(a2[0] == "const" for a2 in ats2)):
                        continue
                    cond.append(calls2 or ["test"])
            if cond:
                drop = drop + ["a test (%s)" % ", ".join(sorted({x for c_ in cond for x in c_}))]
            ctx.check(not drop and bool(names & {"extend", "insert", "append"}), "C09-G4", "primitive::Dictionary::append#all-entries", "Dictionary::append (the merge used by a "
                      "second update of the same object) applies %s to the new entries: some of what the caller wrote - a null that removes a key, say - does not reach "
                      "the pending value" % drop, ap["span"], detail="self.dict.extend(other.dict)")
        ctx.check(ok, "C09-G4", b["id"] + "#overwrites", "a second update of the same object does not replace the pending value (%s): reads before save and the saved file "
                  "show the first value written, not the last" % (("uses " + ", ".join(keep)) if keep else "no store on the occupied entry"), b["span"],
                  detail="Vacant => insert, Occupied => *old = new")


def run(ctx):
    f = F.load("default")
    ctx.count("bodies", len(f.bodies))
    rule_g1(ctx, f)
    c12.rule_invalidate(ctx, f, "C09")
    rule_units(ctx, f)
    rule_pair2(ctx, f)
    rule_reserve(ctx, f)
    rule_identity(ctx, f)
    rule_last_write(ctx, f)
    import c10
    ctx.rule("C09-G5", "what save writes can be read back and saved again: /Size is exactly the number of the cross-reference stream plus one (shared with C10-G2)")
    c10.rule_size_exact(ctx, f, "C09-G5")
    rule_append(ctx, f)
    adj.rule_framing(ctx, f, "C09")
    return ctx.finish(
        "Static analysis of MIR facts of file.rs (+ the format strings of the object framing from the syntax tree): dominance of the "
        "pending-changes lookup over xref-table uses; invalidate-on-write pairing; unit analysis of positions written by save; "
        "must-pass-through of the entry store after the xref promise; provenance of the reference returned by update; who-may-write on "
        "the backend; token adjacency of the object framing. Equality of the reloaded objects is value-level and not decided.",
        ["rustc nightly MIR construction", "mirx exporter", "astx (syn) format-literal extraction", "units seeds in lib/units.py"])
