"""C07 — page n is the n-th leaf of the page tree; attributes come from the nearest ancestor.

Decided (structure): the descent carries a budget that is tested and decremented (REC); in the
kid loop every path back to the loop head advances the running position by the subtree's count
or by one, descent and leaf hits are guarded by comparisons with the running position, and the
normal loop exit reports PageOutOfBounds (G1); `inherit` examines the current node before it
follows the parent link and stops at the first hit, the page's own entry is looked at first, and
the crop box falls back to the inherited media box (G2); the page count is the root's /Count and
iteration ranges over it (G3).
Not decided: the arithmetic that maps an index to a leaf (`..` vs `..=`, page_nr - pos).
"""
import facts as F
from cfg import CFG
from flow import Flow, call_sites, arg_local, last_seg
from tables import enum_switches, exclusive_regions, region_calls


def rule_rec(ctx, f):
    ctx.rule("C07-REC", "the page descent has a depth budget: an integer parameter compared with zero on a path that returns an error, passed "
             "decremented to every recursive call, and initialised with a constant by the public entry")
    b = f.body("object::types::PageTree::page_limited")
    if b is None:
        ctx.lost("C07-REC", "PageTree::page_limited")
        return None
    cfg = CFG(b)
    fl = Flow(b)
    depth = [k for k in range(1, b["argc"] + 1) if b["locals"][k]["s"] == "usize"]
    ok0 = False
    for i, j, s in F.stmts(b):
        if s[0] == "assign" and s[2][0] == "binop" and s[2][1] in ("Eq", "Le", "Lt") and F.const_int(s[2][3]) in (0, 1):
            l = F.op_local(s[2][2])
            if l is not None and any(fl.derives_from_arg(l, d) for d in depth):
                # the true branch returns an error before any recursion
                sw = b["blocks"][i]["term"]
                if sw["k"] == "switch":
                    ok0 = True
    rec = [(bi, t) for bi, t in F.calls(b) if F.callee_name(t) == b["id"]]
    ctx.floor("C07-REC", len(rec), 1, "recursive call in page_limited")
    ok_dec = True
    for bi, t in rec:
        l = arg_local(t, 3)
        ats = fl.origins(l, passthrough=()) if l is not None else []
        subs = [a for a in ats if a[0] == "binop" and a[1].startswith("Sub") and F.const_int(a[3][3]) == 1]
        from_depth = any(a[0] == "arg" and a[1] in depth for a in ats)
        consts = [a for a in ats if a[0] == "const" and a[1].get("int", 1) != 1]
        if not (subs and from_depth and not consts):
            ok_dec = False
    ctx.check(ok0, "C07-REC", "page_limited#zero-test", "the depth budget is not compared with zero before descending: a cyclic /Kids graph recurses until the stack overflows", b["span"], detail="if depth == 0 { bail }")
    ctx.check(ok_dec, "C07-REC", "page_limited#decrement", "a recursive call does not pass depth - 1 (budget reset or not decremented)", b["span"], detail="page_limited(.., depth - 1)")
    e = f.body("object::types::PageTree::page")
    if e is None:
        ctx.lost("C07-REC", "PageTree::page")
    else:
        cs = [(bi, t) for bi, t in F.calls(e) if F.callee_name(t) == b["id"]]
        # large enough for the trees the property names ("at least a dozen levels deep": 12 levels of /Pages nodes need a budget of 12), small
        # enough to bound the stack
        ok = bool(cs) and all(F.const_int(t["args"][3]) is not None and 12 <= F.const_int(t["args"][3]) <= 64 for bi, t in cs)
        ctx.check(ok, "C07-REC", "PageTree::page#budget", "the public entry starts the descent with the budget %s: it has to be a constant between 12 (a dozen levels of "
                  "/Pages nodes must be walkable) and 64" % [F.const_int(t["args"][3]) for bi, t in cs], e["span"], detail="page_limited(.., 16)")
    return b


def rule_position(ctx, f, b):
    ctx.rule("C07-G1", "in the kid loop every path back to the loop head adds the subtree's count or 1 to the running position; the descent is guarded "
             "by a range test on the running position, a leaf hit by equality with it; leaving the loop normally constructs PageOutOfBounds")
    cfg = CFG(b)
    fl = Flow(b)
    loops = cfg.loops()
    gets = [bi for bi, t in F.calls(b) if t.get("callee") == "object::Resolve::get"]
    if not gets:
        ctx.lost("C07-G1", "resolve.get(kid) in the kid loop")
        return
    heads = [h for h, blk in loops.items() if gets[0] in blk]
    if not ctx.floor("C07-G1", len(heads), 1, "kid loop"):
        return
    head = heads[0]
    body = loops[head]
    # the running position: a u32 local that is the left operand of `pos + x` / `pos.checked_add(x)` inside the loop
    adders = {}     # (kind, bb) -> (lhs operand, rhs operand)
    for i, j, s in F.stmts(b):
        if i in body and s[0] == "assign" and s[2][0] == "binop" and s[2][1].startswith("Add"):
            adders[("binop", i)] = (s[2][2], s[2][3])
    for bi, t in F.calls(b):
        if bi in body and last_seg(F.callee_name(t)) in ("checked_add", "saturating_add") and len(t["args"]) == 2:
            adders[("call", bi)] = (t["args"][0], t["args"][1])
    pos_locals = set()
    for (k, i), (lhs, rhs) in adders.items():
        a = F.op_local(lhs)
        if a is not None and b["locals"][a]["s"] == "u32":
            pos_locals.add(a)
            # a copy of the running position made for the call
            for x in fl.origins(a, passthrough=()):
                pass
    # locals that hold the running position: u32 locals copied into an adder's left operand
    for (k, i), (lhs, rhs) in list(adders.items()):
        a = F.op_local(lhs)
        if a is None:
            continue
        for d in fl.defs.get(a, []):
            if d[0] == "assign" and d[2][0] == "use":
                src = F.op_local(d[2][1])
                if src is not None and b["locals"][src]["s"] == "u32":
                    pos_locals.add(src)
    incr_blocks = set()
    kinds = set()
    for i, j, s in F.stmts(b):
        # `pos = move (_x.0)` after the checked add / `pos = end` after `pos.checked_add(count)?`
        if i in body and s[0] == "assign" and len(s[1]) == 1 and s[1][0] in pos_locals and s[2][0] == "use":
            src = F.op_place(s[2][1])
            if src is None:
                continue
            for a in fl.origins(src[0]):
                key = None
                if a[0] == "binop" and a[1].startswith("Add"):
                    key = ("binop", a[2])
                elif a[0] == "call" and last_seg(a[1]) in ("checked_add", "saturating_add"):
                    key = ("call", a[2])
                if key is None or key not in adders:
                    continue
                lhs, rhs = adders[key]
                ll = F.op_local(lhs)
                if ll is None or not (ll in pos_locals):
                    continue
                incr_blocks.add(i)
                c = F.const_int(rhs)
                if c == 1:
                    kinds.add("one")
                else:
                    fs = set()
                    l = F.op_local(rhs)
                    pl = F.op_place(rhs)
                    if pl is not None:
                        Flow._note_fields(pl, fs)
                    if l is not None:
                        fl.origins(l, fields=fs, passthrough=())
                    # ... the count of the kid that was just loaded (not this node's own /Count)
                    base = pl[0] if pl is not None else l
                    from_kid = base is not None and any(a2[0] == "call" and a2[2] in gets for a2 in fl.origins(base))
                    if "count" in fs and from_kid:
                        kinds.add("count")
                    elif "count" in fs:
                        kinds.add("count of another node")
    # every back edge source is reached from the Ok(get) point only through an increment
    backs = [a for a, h in cfg.back_edges() if h == head]
    start = b["blocks"][gets[0]]["term"]["target"]
    ok = bool(incr_blocks) and all(cfg.all_paths_pass(start, [bk], incr_blocks) for bk in backs)
    ctx.check(ok and kinds == {"one", "count"}, "C07-G1", "page_limited#advance",
              "a path through the kid loop reaches the next kid without advancing the running position (advances found: %s): later kids are "
              "numbered as if the earlier ones were not there" % sorted(kinds), b["span"], detail="pos += tree.count | pos += 1 on every path to the next kid")
    # guards: Range::contains for descent, Eq for the leaf
    contains = [bi for bi, t in F.calls(b) if last_seg(F.callee_name(t)) == "contains" and "Range" in F.callee_name(t) + t.get("callee_full", "")]
    rec = [bi for bi, t in F.calls(b) if F.callee_name(t) == b["id"]]
    # the same test written out: `pos <= page_nr && page_nr < end`.  Each comparison is normalised to the outcome that means "inside"
    def role(op):
        l = F.op_local(op)
        if l is None:
            return None
        if fl.derives_from_arg(l, 3, passthrough=()) and not any(a[0] in ("binop", "call") for a in fl.origins(l, passthrough=())):
            return "index"
        if l in pos_locals or any(x in pos_locals for x in [F.op_place(d[2][1])[0] for d in fl.defs.get(l, []) if d[0] == "assign" and d[2][0] == "use" and F.op_place(d[2][1])]):
            return "pos"
        if any((a[0] == "binop" and a[1].startswith("Add")) or (a[0] == "call" and last_seg(a[1]) in ("checked_add", "saturating_add")) for a in fl.origins(l)):
            return "end"
        return None
    written_out = {}        # block -> local holding the outcome that is true when the index is on the inner side of that bound
    for i, j, st in F.stmts(b):
        if i in body and st[0] == "assign" and st[2][0] == "binop" and st[2][1] in ("Lt", "Le", "Gt", "Ge"):
            ra, rb = role(st[2][2]), role(st[2][3])
            op = st[2][1]
            inner = None
            if (ra, rb) == ("pos", "index"):
                inner = {"Le": True, "Gt": False}.get(op)
            elif (ra, rb) == ("index", "pos"):
                inner = {"Ge": True, "Lt": False}.get(op)
            elif (ra, rb) == ("index", "end"):
                inner = {"Lt": True, "Ge": False}.get(op)
            elif (ra, rb) == ("end", "index"):
                inner = {"Gt": True, "Le": False}.get(op)
            if inner is not None:
                written_out[i] = (st[1][0], inner, "lower" if "pos" in (ra, rb) else "upper")
    both_bounds = {k for k in ("lower", "upper") if any(v[2] == k for v in written_out.values())} == {"lower", "upper"}
    okd = (bool(contains) and all(any(cfg.dominates(c, r) for c in contains) for r in rec)) or \
        (both_bounds and all(any(cfg.dominates(i, r) for i, v in written_out.items() if v[2] == k) for r in rec for k in ("lower", "upper")))
    ctx.check(okd, "C07-G1", "page_limited#descent-guard", "the descent into a subtree is not guarded by a range test on the running position", b["span"], detail="(pos .. pos + count).contains(page_nr)")
    # ... on the side of the test where the index lies inside the subtree, into the kid that was just loaded, with the index made relative to it
    def sides(test_bb, dest_local):
        """(blocks reachable when the test is true, when it is false), both without going round the loop"""
        for i2, bb2 in enumerate(b["blocks"]):
            t2 = bb2["term"]
            if t2["k"] == "switch" and F.op_local(t2["discr"]) == dest_local and (i2 == test_bb or cfg.dominates(test_bb, i2)):
                arms2 = {a[0]: a[1] for a in t2["arms"]}
                ft = arms2.get(0)
                tt_ = t2["otherwise"] if 0 in arms2 else arms2.get(1)
                if ft is None or tt_ is None or ft == tt_:
                    return None
                return cfg.reachable_from(tt_, avoid={head}) | {tt_}, cfg.reachable_from(ft, avoid={head}) | {ft}
        return None
    for r in rec:
        t = b["blocks"][r]["term"]
        pol = False
        for c in contains:
            if cfg.dominates(c, r) and b["blocks"][c]["term"].get("dest"):
                sd = sides(c, b["blocks"][c]["term"]["dest"][0])
                pol = pol or (sd is not None and r in sd[0] and r not in sd[1])
        if not contains and both_bounds:
            pol = True
            for i, (dl, inner, which) in written_out.items():
                if cfg.dominates(i, r):
                    sd = sides(i, dl)
                    good, badside = (sd[0], sd[1]) if (sd is not None and inner) else ((sd[1], sd[0]) if sd is not None else (set(), set()))
                    pol = pol and sd is not None and r in good and r not in badside
        ctx.check(pol, "C07-G1", "page_limited#descent-side", "the descent into a subtree sits on the side of the range test where the index is NOT in the subtree (or on both sides)",
                  t["span"], detail="descent only when (pos .. end).contains(page_nr)")
        rl = arg_local(t, 0)
        ra = fl.origins(rl) if rl is not None else []
        from_kid = any(a[0] == "call" and a[2] in gets for a in ra)
        ctx.check(from_kid, "C07-G1", "page_limited#descent-node", "the recursive call does not descend into the kid that was just loaded (its receiver does not derive from "
                  "resolve.get(kid)): the same node is searched again with the reduced index", t["span"], detail="tree.page_limited(..) with tree from resolve.get(kid)")
        il = arg_local(t, 2)
        subs = [a for a in (fl.origins(il) if il is not None else []) if a[0] == "binop" and a[1].startswith("Sub")]
        rel = False
        for a in subs:
            l1, l2 = F.op_local(a[3][2]), F.op_local(a[3][3])
            rel = rel or (l1 is not None and l2 is not None and fl.derives_from_arg(l1, 3, passthrough=()) and
                          (l2 in pos_locals or any(x in pos_locals for x in [F.op_place(d[2][1])[0] for d in fl.defs.get(l2, []) if d[0] == "assign" and d[2][0] == "use" and F.op_place(d[2][1])])))
        ctx.check(rel, "C07-G1", "page_limited#descent-index", "the index handed to the subtree is not the requested index minus the running position", t["span"],
                  detail="page_nr - pos")
    eqs = [i for i, j, s in F.stmts(b) if i in body and s[0] == "assign" and s[2][0] == "binop" and s[2][1] == "Eq"]
    leaf_ret = [i for i, j, s in F.stmts(b) if cfg.dominates(head, i) and s[0] == "assign" and s[2][0] == "aggregate" and s[2][1].get("adt") == "object::types::PageRc"]
    okl = bool(eqs) and bool(leaf_ret) and all(any(cfg.dominates(e, r) for e in eqs) for r in leaf_ret)
    if okl:
        # ... and is returned on the equal side
        okl = False
        for e in eqs:
            for s_ in b["blocks"][e]["stmts"]:
                if s_[0] == "assign" and s_[2][0] == "binop" and s_[2][1] == "Eq":
                    sd = sides(e, s_[1][0])
                    if sd is not None and all(r in sd[0] and r not in sd[1] for r in leaf_ret if cfg.dominates(e, r)) and any(cfg.dominates(e, r) for r in leaf_ret):
                        okl = True
    ctx.check(okl, "C07-G1", "page_limited#leaf-guard", "a leaf is returned without comparing the running position with the requested index", b["span"], detail="if pos == page_nr { return leaf }")
    # normal exit
    oob = [i for i, j, s in F.stmts(b) if s[0] == "assign" and s[2][0] == "aggregate" and s[2][1].get("adt") == "error::PdfError" and s[2][1]["variant"] == "PageOutOfBounds"]
    exits = [x for x in cfg.succ[head] if x not in body] + [s for n in body for s in cfg.succ[n] if s not in body and b["blocks"][n]["term"]["k"] == "switch" and n == head]
    loop_exit = set()
    for n in body:
        t = b["blocks"][n]["term"]
        if t["k"] == "switch":
            dl = F.op_local(t["discr"])
            for s2 in cfg.succ[n]:
                if s2 not in body:
                    # exit taken when the kid iterator is exhausted
                    calls_ = [last_seg(a[1]) for a in fl.origins(dl, passthrough=()) if a[0] == "call"] if dl is not None else []
                    if calls_ == ["next"] and b["blocks"][s2]["term"]["k"] != "unreachable":
                        loop_exit.add(s2)
    oke = bool(oob) and bool(loop_exit) and all(cfg.all_paths_pass(x, cfg.exits, set(oob)) for x in loop_exit)
    ctx.check(oke, "C07-G1", "page_limited#out-of-bounds", "running out of kids does not end in PageOutOfBounds", b["span"], detail="after the loop: Err(PageOutOfBounds)")


def rule_inherit(ctx, f):
    ctx.rule("C07-G2", "inherit() asks the current node before following /Parent and returns the first hit; media box / resources look at the page's "
             "own entry first; the crop box falls back to the (inheriting) media_box() method")
    b = f.body("object::types::inherit")
    if b is None:
        ctx.lost("C07-G2", "object::types::inherit")
    else:
        cfg = CFG(b)
        fl = Flow(b)
        loops = cfg.loops()
        fcalls = [(bi, t) for bi, t in F.calls(b) if last_seg(F.callee_name(t)) == "call" and "Fn" in F.callee_name(t) + t.get("callee_full", "")]
        ok = len(fcalls) == 1 and any(fcalls[0][0] in blk for blk in loops.values())
        where = b["span"]
        if ok:
            bi, t = fcalls[0]
            # argument of f is the loop-carried node (arg 1 or its reassignment), never its parent
            al = arg_local(t, 1)
            flds = set()
            fl.origins(al, fields=flds, passthrough=())
            arg_is_node = "parent" not in flds
            # assignments to the loop-carried node
            # (the parameter itself, or a variable initialised from it: `let mut node = self;`)
            node = al
            for _ in range(6):
                ds = fl.defs.get(node, [])
                if len(ds) == 1 and ds[0][0] == "assign" and not ds[0][3] and ds[0][2][0] == "use" and F.op_place(ds[0][2][1]) and len(F.op_place(ds[0][2][1])) == 1 \
                        and not (1 <= node <= b["argc"]):
                    node = F.op_place(ds[0][2][1])[0]
                elif len(ds) == 1 and ds[0][0] == "assign" and not ds[0][3] and ds[0][2][0] == "aggregate" and ds[0][2][1].get("k") == "tuple" and len(ds[0][2][2]) == 1 \
                        and F.op_place(ds[0][2][2][0]) and len(F.op_place(ds[0][2][2][0])) == 1:
                    node = F.op_place(ds[0][2][2][0])[0]        # the argument tuple of Fn::call
                elif len(ds) == 1 and ds[0][0] == "assign" and not ds[0][3] and ds[0][2][0] == "ref" and len(ds[0][2][1]) == 2 and ds[0][2][1][1][0] == "deref":
                    node = ds[0][2][1][0]                       # a re-borrow `&*node`
                else:
                    break
            lblk = set().union(*[blk for blk in loops.values() if bi in blk])
            reassign = [(i, s) for i, j, s in F.stmts(b) if s[0] == "assign" and s[1] == [node] and (node == 1 or i in lblk)]
            init = [(i, s) for i, j, s in F.stmts(b) if s[0] == "assign" and s[1] == [node] and node != 1 and i not in lblk]
            ok_re = bool(reassign)
            for i, s in init:
                # the walk starts at the node it was asked about
                fs = set()
                src = F.op_local(s[2][1]) if s[2][0] == "use" else None
                ok_re = ok_re and src is not None and fl.derives_from_arg(src, 1, passthrough=()) and not (fl.origins(src, fields=fs, passthrough=()) and "parent" in fs)
            ok_re = ok_re and (node == 1 or len(init) == 1)
            for i, s in reassign:
                # dominated by the call of f and by the `None` test on f's result
                ok_re = ok_re and cfg.dominates(bi, i)
                src = F.op_local(s[2][1]) if s[2][0] == "use" else None
                fs = set()
                if src is not None:
                    fl.origins(src, fields=fs)
                ok_re = ok_re and "parent" in fs
            # the Some(result) arm returns without touching the parent
            res = t["dest"][0]
            ret_some = False
            for i, j, s in F.stmts(b):
                if s[0] == "assign" and s[2][0] == "aggregate" and s[2][1].get("variant") == "Some":
                    l = F.op_local(s[2][2][0])
                    if l is not None and any(a[0] == "call" and a[2] == bi for a in fl.origins(l)):
                        ret_some = cfg.all_paths_pass(i, cfg.exits, set(cfg.exits)) and not any(cfg.can_reach(i, r[0]) for r in reassign)
            # the parent is followed only on the branch where f's result is None
            none_targets = []
            for i, bb in enumerate(b["blocks"]):
                tt = bb["term"]
                if tt["k"] != "switch":
                    continue
                dl = F.op_local(tt["discr"])
                for s in bb["stmts"]:
                    if s[0] == "assign" and s[1] == [dl] and s[2][0] == "discr":
                        pl = s[2][1]
                        root_from_f = any(a[0] == "call" and a[2] == bi for a in fl.origins(pl[0]))
                        # which tuple component: the one holding f's result
                        comp_ok = True
                        if len(pl) > 1 and pl[1][0] == "field":
                            comp_ok = False
                            for d in fl.defs.get(pl[0], []):
                                if d[0] == "assign" and d[2][0] == "aggregate" and d[2][1]["k"] == "tuple":
                                    idx = pl[1][1]
                                    op = d[2][2][idx] if idx < len(d[2][2]) else None
                                    if op is not None and F.op_local(op) == res:
                                        comp_ok = True
                        if root_from_f and comp_ok:
                            nt = [a[1] for a in tt["arms"] if a[0] == 0] or [tt["otherwise"]]
                            none_targets.append(nt[0])
            only_after_none = bool(none_targets) and all(any(cfg.dominates(nt, i) for nt in none_targets) for i, s in reassign)
            ok = arg_is_node and ok_re and ret_some and only_after_none
            where = t["span"]
        ctx.check(ok, "C07-G2", "inherit#nearest-first", "the inheritance walk does not return the nearest ancestor's value (own value examined after the "
                  "parent is followed, or the walk continues after a hit)", where, detail="loop { match f(node) { Some(v) => return v, None => node = node.parent } }")
    for meth, fld in (("media_box", "media_box"), ("resources", "resources"), ("crop_box", "crop_box")):
        m = f.body("object::types::Page::" + meth)
        if m is None:
            ctx.lost("C07-G2", "Page::" + meth)
            continue
        cfg = CFG(m)
        own = None
        for i, bb in enumerate(m["blocks"]):
            t = bb["term"]
            for s in bb["stmts"]:
                if s[0] == "assign" and s[2][0] == "discr" and any(e[0] == "field" and e[2] == fld for e in s[2][1][1:]) and t["k"] == "switch":
                    own = i
        inh = [bi for bi, t in F.calls(m) if F.callee_name(t) == "object::types::inherit"]
        ok = own is not None and bool(inh) and all(cfg.dominates(own, x) for x in inh)
        ctx.check(ok, "C07-G2", "Page::%s#own-first" % meth, "the page's own /%s is not examined before the ancestors" % fld, m["span"], detail="match self.%s { Some => own, None => inherit }" % fld)
        if meth == "crop_box":
            mb = [bi for bi, t in F.calls(m) if F.callee_name(t) == "object::types::Page::media_box"]
            ok2 = bool(mb) and bool(inh) and all(cfg.dominates(inh[0], x) for x in mb)
            ctx.check(ok2, "C07-G2", "Page::crop_box#fallback", "without any crop box the page does not fall back to the inherited media box (media_box())", m["span"], detail="None => self.media_box()")
    # closures handed to inherit read the matching field of the ancestor
    for meth, fld in (("media_box", "media_box"), ("resources", "resources"), ("crop_box", "crop_box")):
        for c in f.closures_of("object::types::Page::" + meth):
            fs = set()
            for i, j, s in F.stmts(c):
                if s[0] == "assign":
                    rv = s[2]
                    pl = rv[1] if rv[0] in ("ref", "discr") else (F.op_place(rv[1]) if rv[0] == "use" else None)
                    if pl:
                        Flow._note_fields(pl, fs)
            for bi, t in F.calls(c):
                for a in t["args"]:
                    if F.op_place(a):
                        Flow._note_fields(F.op_place(a), fs)
            fs -= {"0", "1"}
            if fs:
                ctx.check(fld in fs and len([x for x in fs if x in ("media_box", "crop_box", "resources")]) == 1, "C07-G2", "Page::%s#ancestor-field" % meth,
                          "the ancestors are asked for %s instead of /%s" % (sorted(fs), fld), c["span"], detail="inherit(.., |pt| pt.%s)" % fld)


def rule_count(ctx, f):
    ctx.rule("C07-G3", "num_pages is the root page-tree node's /Count; pages() ranges over 0..num_pages and calls get_page")
    nb = [b for b in f.bodies.values() if b["id"].endswith("::num_pages") and "file::File" in b["id"]]
    if not ctx.floor("C07-G3", len(nb), 1, "File::num_pages"):
        return
    for b in nb:
        fs = []
        for i, j, s in F.stmts(b):
            if s[0] == "assign" and s[1] == [0] and s[2][0] == "use":
                pl = F.op_place(s[2][1])
                if pl:
                    fs = [e[2] for e in pl[1:] if e[0] == "field"]
        allf = set()
        for i, j, s in F.stmts(b):
            if s[0] == "assign":
                rv = s[2]
                pl = rv[1] if rv[0] in ("ref",) else (F.op_place(rv[1]) if rv[0] == "use" else None)
                if pl:
                    allf |= {e[2] for e in pl[1:] if e[0] == "field"}
        ok = "count" in allf and "pages" in allf and "root" in allf
        ctx.check(ok, "C07-G3", "File::num_pages#root-count", "the page count is not trailer.root.pages.count (fields read: %s)" % sorted(allf), b["span"], detail="trailer.root.pages.count")
    pb = [b for b in f.bodies.values() if b["id"].endswith("::pages") and "file::File" in b["id"]]
    for b in pb:
        rng = [s for i, j, s in F.stmts(b) if s[0] == "assign" and s[2][0] == "aggregate" and s[2][1].get("adt", "").startswith("std::ops::Range")]
        npg = [t for bi, t in F.calls(b) if last_seg(F.callee_name(t)) == "num_pages"]
        ok = bool(rng) and bool(npg) and any(F.const_int(s[2][2][0]) == 0 for s in rng)
        gp = any(last_seg(F.callee_name(t)) == "get_page" for c in f.closures_of(b["id"]) for bi, t in F.calls(c))
        ctx.check(ok and gp, "C07-G3", "File::pages#range", "pages() does not iterate 0..num_pages through get_page", b["span"], detail="(0 .. num_pages()).map(get_page)")


def run(ctx):
    f = F.load("default")
    ctx.count("bodies", len(f.bodies))
    b = rule_rec(ctx, f)
    if b is not None:
        rule_position(ctx, f, b)
    rule_inherit(ctx, f)
    rule_count(ctx, f)
    import c18
    c18.rule_vec_reader(ctx, f, "C07-G4")
    return ctx.finish(
        "Static analysis of MIR facts of types.rs / file.rs: budget rule on the page descent; must-advance on every path of the kid loop, "
        "dominance of the range / equality guards, must-fail after the loop; dominance structure of the inheritance walk and of the own-entry "
        "tests; provenance of the page count. The arithmetic mapping an index to a leaf is value-level and not decided.",
        ["rustc nightly MIR construction", "mirx exporter"])
