"""C11 — an object's value does not depend on how it is stored.

Decided (structure): the direct and the compressed lookup arms apply the same type filter and
nothing else to the caller's flags (SIB); an integer as the last token of a member slice parses
(G1 = C03-G2); member slices are [first + offsets[i], first + offsets[i+1]) resp. to the end of
the data for the last member, under a dominating index test (G2); an indirect /Length is resolved
through the caller's resolver with an integer-only filter on every path that parses a stream (G3).
Not decided: filters on the object stream (C05), value equality.
"""
import facts as F
from cfg import CFG
from flow import Flow, call_sites, arg_local, last_seg
from sym import PathSym, enum_paths, walk, show, feasible
from tables import enum_switches, exclusive_regions, region_calls
import c03


def rule_same_gate(ctx, f):
    ctx.rule("C11-SIB", "in the object lookup the Raw arm and the Stream (compressed) arm hand the caller's type filter to the parser and apply no "
             "other test to it")
    bs = [b for b in f.bodies.values() if b["id"].endswith("::resolve_ref") and (b.get("impl") or {}).get("self", "").startswith("file::Storage<")]
    if not ctx.floor("C11-SIB", len(bs), 1, "Storage::resolve_ref"):
        return
    for b in bs:
        cfg = CFG(b)
        fl = Flow(b)
        xv = {v["vi"]: v["name"] for v in f.adts["xref::XRef"]["variants"]}
        sws = enum_switches(b, "xref::XRef", f)
        if not sws:
            ctx.lost("C11-SIB", "switch on the xref entry in " + b["id"])
            continue
        i, pl, arms, other = sws[0]
        regs = exclusive_regions(cfg, {xv[k]: tg for k, tg in arms.items()})
        flag_arg = [k for k in range(1, b["argc"] + 1) if b["locals"][k]["s"] == "parser::ParseFlags"]
        parsers = {"parse_indirect_object", "parse", "parse_with_lexer", "parse_with_lexer_ctx"}

        def flag_uses(body, blocks, params, depth=0):
            """names of the functions the caller's filter is handed to; private helpers of the crate are looked through"""
            bfl = Flow(body)
            out = []
            for r, t in (region_calls(body, blocks) if blocks is not None else [(bi, t) for bi, t in F.calls(body)]):
                for k, a in enumerate(t["args"]):
                    l = F.op_local(a)
                    if l is not None and any(x[0] == "arg" and x[1] in params for x in bfl.origins(l, passthrough=("clone",))):
                        nm = last_seg(F.callee_name(t))
                        cal = f.bodies.get(t.get("resolved") or "")
                        if nm not in parsers and cal is not None and t.get("resolved_local") and depth < 3 and not cal.get("pub"):
                            out += flag_uses(cal, None, [k + 1], depth + 1)
                        else:
                            out.append(nm)
            return out
        uses = {}
        for vn in ("Raw", "Stream"):
            reg = regs.get(vn, set()) | {arms[[k for k in arms if xv[k] == vn][0]]}
            uses[vn] = sorted(flag_uses(b, reg, flag_arg))
        for vn in ("Raw", "Stream"):
            extra = [u for u in uses[vn] if u not in parsers]
            ok = any(u in parsers for u in uses[vn]) and not extra
            ctx.check(ok, "C11-SIB", b["id"] + "#" + vn + "-gate",
                      "the %s arm applies %s to the caller's type filter (the other arm: %s): the same value is accepted or rejected depending on "
                      "where it is stored" % (vn, extra or "no parser", uses["Stream" if vn == "Raw" else "Raw"]), b["blocks"][i]["term"]["span"],
                      detail="%s arm: flags go to the parser only (%s)" % (vn, uses[vn]))


def rule_slicing(ctx, f):
    ctx.rule("C11-G2", "member i of an object stream is data[first + offsets[i] .. first + offsets[i+1]] and the last member extends to the end of the "
             "data; the index is tested against the number of members before offsets[] is indexed")
    b = f.body("object::stream::ObjectStream::get_object_slice")
    if b is None:
        ctx.lost("C11-G2", "ObjectStream::get_object_slice")
        return
    cfg = CFG(b)
    # index test dominates all offsets[..] uses
    idx_calls = [(bi, t) for bi, t in F.calls(b) if last_seg(F.callee_name(t)) == "index" and "Vec<usize>" in F.callee_name(t) + t.get("callee_full", "")]
    # the checked spelling `offsets.get(i)` needs no separate test
    get_calls = [(bi, t) for bi, t in F.calls(b) if last_seg(F.callee_name(t)) == "get" and ("[usize]" in F.callee_name(t) + t.get("callee_full", "") or
                                                                                              "Vec<usize>" in F.callee_name(t) + t.get("callee_full", ""))]
    ctx.floor("C11-G2", len(idx_calls) + len(get_calls), 2, "offsets[..] / offsets.get(..) uses")
    tests = []
    for i, j, s in F.stmts(b):
        if s[0] == "assign" and s[2][0] == "binop" and s[2][1] in ("Ge", "Lt", "Gt", "Le"):
            tests.append(i)
    first_test = min(tests) if tests else None
    ok = (first_test is not None and all(cfg.dominates(first_test, bi) for bi, t in idx_calls)) or not idx_calls
    ctx.check(ok, "C11-G2", "get_object_slice#index-test", "offsets[index] is not dominated by a comparison of index with the member count", b["span"], detail="index >= offsets.len() -> Err")
    # shapes of the returned range
    shapes = set()
    rets = [i for i, j, s in F.stmts(b) if s[0] == "assign" and s[1] == [0] and s[2][0] == "aggregate" and s[2][1].get("variant") == "Ok"]
    for p in enum_paths(cfg, 0, lambda n, path: n in rets):
        if p[-1] not in rets:
            continue
        ps = PathSym(b, p)
        if not feasible(ps):
            continue
        e = ps.expr_of_local(0, len(ps.events))
        rng = [x for x in walk(e) if x[0] == "agg" and x[1].startswith("std::ops::Range")]
        if not rng:
            continue
        names = rng[0][3]
        st = rng[0][2][names.index("start")]
        en = rng[0][2][names.index("end")]
        shapes.add((canon(st), canon(en)))
    want_start = "Add(first,offsets[index])"
    ok_s = bool(shapes) and all(s == want_start for s, e in shapes)
    ends = {e for s, e in shapes}
    ok_e = ends == {"len(data)", "Add(first,offsets[Add(index,1)])"}
    ctx.check(ok_s, "C11-G2", "get_object_slice#start", "member start is %s (expected first + offsets[index])" % sorted(s for s, e in shapes), b["span"], detail="start = first + offsets[index]")
    ctx.check(ok_e, "C11-G2", "get_object_slice#end", "member end is %s (expected first + offsets[index+1], or the data length for the last member)" % sorted(ends), b["span"],
              detail="end = first + offsets[index+1] | data.len()")
    # the "last member" test
    last = None
    for i, j, s in F.stmts(b):
        if s[0] == "assign" and s[2][0] == "binop" and s[2][1] == "Eq":
            last = (i, s)
    ok_l = False
    if last:
        for pth in enum_paths(cfg, 0, lambda n, path: n == last[0]):
            if pth[-1] != last[0]:
                continue
            ps = PathSym(b, pth)
            e = ps.expr_of_rvalue(last[1][2], len(ps.events), 0)
            ok_l = canon(e) in ("Eq(index,Sub(len(offsets),1))", "Eq(Sub(len(offsets),1),index)")
            break
    if not ok_l and get_calls:
        # `match offsets.get(index + 1) { None => data.len(), Some(next) => first + next }`: the last member is the one without a successor
        fl2 = Flow(b)
        for bi, t in get_calls:
            al = F.op_local(t["args"][1]) if len(t["args"]) > 1 else None
            plus1 = al is not None and any(a[0] == "binop" and a[1].startswith("Add") and 1 in (F.const_int(a[3][2]), F.const_int(a[3][3])) for a in fl2.origins(al, passthrough=()))
            if plus1 and "len(data)" in ends:
                ok_l = True
    ctx.check(ok_l, "C11-G2", "get_object_slice#last-test", "the last member is not recognised by index == offsets.len() - 1", b["span"], detail="index == offsets.len() - 1")


def canon(e):
    """canonical text of an expression tree: strips refs/derefs/casts/checked-add tuples and names fields / arguments"""
    if not isinstance(e, tuple):
        return str(e)
    k = e[0]
    if k in ("ref", "deref"):
        return canon(e[1])
    if k == "cast":
        return canon(e[1])
    if k == "arg":
        return {2: "index", 1: "self", 3: "resolve"}.get(e[1], "arg%d" % e[1])
    if k == "const":
        return str(e[2])
    if k == "field":
        if e[2] in ("0", "1") and isinstance(e[1], tuple) and e[1][0] == "binop":
            return canon(e[1])
        if e[2] in ("first", "offsets"):
            return e[2]
        return canon(e[1]) + "." + e[2] if e[2] not in ("0",) else canon(e[1])
    if k == "downcast":
        return canon(e[1])
    if k == "binop":
        return "%s(%s,%s)" % (e[1].replace("WithOverflow", ""), canon(e[2]), canon(e[3]))
    if k == "call":
        seg = last_seg(e[1])
        if seg in ("index", "get") and len(e[2]) == 2:
            return "%s[%s]" % (canon(e[2][0]), canon(e[2][1]))
        if seg == "len":
            inner = canon(e[2][0])
            return "len(%s)" % ("data" if "data" in inner or "branch" in inner or "Stream" in inner else inner)
        if seg in ("checked_add", "saturating_add", "wrapping_add") and len(e[2]) == 2:
            # overflow-checked spelling of the same sum
            return "Add(%s,%s)" % (canon(e[2][0]), canon(e[2][1]))
        if seg in ("ok_or", "ok_or_else", "unwrap", "expect") and e[2]:
            return canon(e[2][0])
        if seg in ("deref", "branch", "clone", "as_ref"):
            return canon(e[2][0]) if e[2] else seg
        if seg == "data":
            return "data"
        return seg + "(" + ",".join(canon(a) for a in e[2]) + ")"
    if k == "local":
        return "_%d" % e[1]
    return k


def rule_length(ctx, f, rid="C11-G3"):
    ctx.rule(rid, "an indirect /Length is resolved through the resolver the parser was given, with the integer-only filter, wherever a stream "
             "body is delimited; both callers pass their own resolver on")
    b = f.body("parser::parse_stream_object")
    if b is None:
        ctx.lost(rid, "parser::parse_stream_object")
        return
    fl = Flow(b)
    rf = [(bi, t) for bi, t in F.calls(b) if t.get("callee") == "object::Resolve::resolve_flags"]
    ctx.floor(rid, len(rf), 1, "resolve_flags call for /Length")
    for bi, t in rf:
        c = F.op_const(t["args"][2])
        bits = c.get("bits") if c else None
        res_l = arg_local(t, 0)
        ok = bits == 1 and res_l is not None and fl.derives_from_arg(res_l, 3)
        ctx.check(ok, rid, "parse_stream_object#length-filter",
                  "/Length is resolved with filter bits %s (expected INTEGER = 1) or not through the caller's resolver" % bits, t["span"],
                  detail="r.resolve_flags(len_ref, ParseFlags::INTEGER, ..)")
        rl = arg_local(t, 1)
        flds = set()
        ats = fl.origins(rl, fields=flds) if rl is not None else []
        getlen = [a for a in ats if a[0] == "call" and a[1] == "primitive::Dictionary::get"]
        keys = sorted({a[1]["str"] for a in ats if a[0] == "const" and "str" in a[1]})
        key = keys[0] if len(keys) == 1 and getlen else None
        ctx.check(key == "Length" and "as:Reference" in flds, rid, "parse_stream_object#length-key", "the resolved reference is not the value of /Length (key %r)" % key, t["span"], detail="dict.get(\"Length\") -> Reference")
    callers = []
    for cb in f.bodies.values():
        for bi, t in F.calls(cb):
            if F.callee_name(t) == "parser::parse_stream_object":
                callers.append((cb, t))
    ctx.floor(rid, len(callers), 2, "callers of parse_stream_object (object parser, stream parser)")
    for cb, t in callers:
        fl2 = Flow(cb)
        l = arg_local(t, 2)
        rparams = [k for k in range(1, cb["argc"] + 1) if cb["locals"][k]["s"].startswith("&impl Resolve") or "Resolve" in cb["locals"][k]["s"]]
        ok = l is not None and any(fl2.derives_from_arg(l, k) for k in rparams)
        ctx.check(ok, rid, cb["id"] + "#passes-resolver", "the stream parser is not given the caller's resolver (indirect lengths cannot be followed)", t["span"], detail="parse_stream_object(dict, lexer, r, ctx)")


def rule_header(ctx, f):
    ctx.rule("C11-G5", "the header of an object stream is N pairs (object number, offset): the reader takes two integers per member and keeps the second "
             "as the member's offset")
    b = f.impl_method("object::Object", "object::stream::ObjectStream", "from_primitive")
    if b is None:
        ctx.lost("C11-G5", "<ObjectStream as Object>::from_primitive")
        return
    cfg = CFG(b)
    fl = Flow(b)
    loops = cfg.loops()
    pushes = [(bi, t) for bi, t in F.calls(b) if last_seg(F.callee_name(t)) == "push" and any(bi in body for body in loops.values())]
    nexts = [bi for bi, t in F.calls(b) if last_seg(F.callee_name(t)) == "next" and "Lexer" in F.callee_name(t)]
    if not ctx.floor("C11-G5", len(pushes), 1, "offsets.push in the header loop of the object-stream reader"):
        return
    for bi, t in pushes:
        body = [bd for bd in loops.values() if bi in bd]
        body = min(body, key=len)
        inl = sorted(n for n in nexts if n in body)
        vl = arg_local(t, 1)
        src = sorted({a[2] for a in fl.origins(vl) if a[0] == "call" and a[2] in inl}) if vl is not None else []
        ok = len(inl) == 2 and len(src) == 1 and any(cfg.dominates(o, src[0]) for o in inl if o != src[0])
        ctx.check(ok, "C11-G5", "ObjectStream::from_primitive#pairs", "the header loop reads %d integer(s) per member and keeps the one read %s: the offsets of the members are "
                  "taken from the wrong numbers and every compressed object is cut out at the wrong place" % (len(inl), "first" if src and inl and src[0] == inl[0] else "?"),
                  t["span"], detail="(object number, offset) per member; offsets.push(offset)")


def run(ctx):
    f = F.load("default")
    ctx.count("bodies", len(f.bodies))
    rule_same_gate(ctx, f)
    rule_header(ctx, f)
    # G1: shared with C03-G2
    sub = type(ctx)(ctx.prop, ctx.tier, ctx.seed)
    c03.rule_lookahead(sub, f)
    ctx.rule("C11-G1", "an integer as the last token of a member slice parses: the reference look-ahead tolerates the end of the buffer (= C03-G2)")
    for r, inst, ok, d in sub.obligations:
        if ok:
            ctx.ok("C11-G1", inst, d)
    for v in sub.violations:
        ctx.bad("C11-G1", v["key"].split("@", 1)[1], v["msg"], v["where"])
    c03.rule_eof_token(ctx, f, "C11-G4")
    rule_slicing(ctx, f)
    rule_length(ctx, f)
    return ctx.finish(
        "Static analysis of MIR facts of file.rs / stream.rs / parser: arm-wise comparison of what the direct and the compressed lookup do with the "
        "caller's type filter; error-propagation check of the integer look-ahead; syntactic reconstruction of the member range on every path; "
        "constant and provenance of the /Length resolution. Value equality of direct and compressed twins is value-level and not decided.",
        ["rustc nightly MIR construction", "mirx exporter"])
