"""C10 — documents built from scratch reload with the same pages and are valid PDF.

Decided (structure): every page promise of the catalog builder is fulfilled exactly once and
/Kids lists exactly the promised references (PAIR); the xref-stream writer derives /W from the
widths it uses for the entry bytes, /Index and /Size from the bound of the entries it emits, and
emits one entry per object (SIB); a stream's /Length is the length of the very buffer written
between `stream` and `endstream` (PROV); the header is the first bytes of an empty storage (G1);
object framing and written positions as in C04 / C09 (ADJ, UNITS).
Not decided: equality of reloaded pages, cross-reader validity.
"""
import facts as F
from cfg import CFG
from flow import Flow, call_sites, arg_local, last_seg, PASS_LAST
import adj
import c09

ADAPTERS_OK = {"iter", "into_iter", "map", "zip", "collect", "next", "from_iter", "enumerate", "by_ref", "deref", "as_slice", "clone", "cloned", "copied"}


def rule_pair(ctx, f):
    ctx.rule("C10-PAIR", "in the catalog builder one promise is made per page, /Kids holds exactly those references, and each promise is fulfilled "
             "exactly once by zipping pages with promises (no skipping / truncating adapter in between)")
    b = f.body("build::CatalogBuilder::build")
    if b is None:
        ctx.lost("C10-PAIR", "build::CatalogBuilder::build")
        return
    fl = Flow(b)
    cfg = CFG(b)
    loops = cfg.loops()
    ful = [(bi, t) for bi, t in F.calls(b) if last_seg(F.callee_name(t)) == "fulfill"]
    ctx.floor("C10-PAIR", len(ful), 1, "fulfill call in CatalogBuilder::build")
    proms = []
    for cb in f.closures_of(b["id"]):
        for bi, t in F.calls(cb):
            if last_seg(F.callee_name(t)) == "promise":
                proms.append((cb, t))
    ctx.floor("C10-PAIR", len(proms), 1, "promise call (one per page) in a closure of build")
    for bi, t in ful:
        inl = any(bi in blk for blk in loops.values())
        pl = arg_local(t, 1)
        ats = fl.origins(pl) if pl is not None else []
        names = [last_seg(a[1]) for a in ats if a[0] == "call"]
        flds = set()
        fl.origins(pl, fields=flds)
        bad_ad = sorted(set(n for n in names if n not in ADAPTERS_OK and n not in ("branch", "from_residual", "unwrap", "promise")))
        zips = [a for a in ats if a[0] == "call" and last_seg(a[1]) == "zip"]
        ok = inl and len(zips) == 1 and "pages" in flds and not bad_ad
        if zips:
            # both zip operands range over all pages: the pages themselves and the vector collected from the promise map
            z = zips[0][3]
            l0, l1 = arg_local(z, 0), arg_local(z, 1)
            f0, f1 = set(), set()
            a0 = fl.origins(l0, fields=f0) if l0 is not None else []
            a1 = fl.origins(l1, fields=f1) if l1 is not None else []
            from_pages0 = "pages" in f0
            from_proms1 = any(a[0] == "call" and last_seg(a[1]) == "collect" for a in a1) and "pages" in f1
            bad0 = [last_seg(a[1]) for a in a0 + a1 if a[0] == "call" and last_seg(a[1]) not in ADAPTERS_OK]
            ok = ok and from_pages0 and from_proms1 and not bad0
            bad_ad = bad_ad or bad0
        # every turn of the loop reaches the fulfill (a `continue` in front of it leaves that page's promise unfulfilled)
        for h, blk in loops.items():
            if bi in blk:
                backs = [a_ for a_, h2 in cfg.back_edges() if h2 == h]
                every = bool(backs) and all(cfg.all_paths_pass(h, [a_], {bi}) for a_ in backs)
                ctx.check(every, "C10-PAIR", b["id"] + "#fulfil-every-turn", "a turn of the page loop can reach the next page without fulfilling the promise of this one: /Kids and "
                          "/Count still list the page, its object is never defined", t["span"], detail="every path round the loop passes fulfill")
        ctx.check(ok, "C10-PAIR", b["id"] + "#fulfil-all",
                  "page promises are not fulfilled one-to-one (adapters %s between the page list and the fulfil loop): a /Kids entry points at an "
                  "object that is never defined, or a page is lost" % bad_ad, t["span"], detail="for (page, promise) in pages.zip(promises) { fulfill }")
    # kids = the promised references; count = kids.len()
    for i, j, s in F.stmts(b):
        if s[0] == "assign" and s[2][0] == "aggregate" and s[2][1].get("adt") == "object::types::PageTree":
            names = s[2][1]["fields"]
            kl = F.op_local(s[2][2][names.index("kids")])
            cl = F.op_local(s[2][2][names.index("count")])
            kats = fl.origins(kl) if kl is not None else []
            kcalls = [last_seg(a[1]) for a in kats if a[0] == "call"]
            ok = "collect" in kcalls and not [n for n in kcalls if n not in ADAPTERS_OK]
            cats = fl.origins(cl) if cl is not None else []
            okc = any(a[0] == "call" and last_seg(a[1]) == "len" for a in cats)
            ctx.check(ok and okc, "C10-PAIR", b["id"] + "#kids", "/Kids or /Count is not derived from the full list of promised references", b["blocks"][i]["term"]["span"],
                      detail="kids = promises.map(get_ref).collect(); count = kids.len()")


def rule_xref_writer(ctx, f):
    ctx.rule("C10-SIB", "the xref-stream writer emits, for each object up to `size`, one type byte plus two big-endian fields of the widths it also "
             "declares in /W; /Index is [0 size] and /Size is size")
    b = f.body("xref::XRefTable::write_stream")
    if b is None:
        ctx.lost("C10-SIB", "xref::XRefTable::write_stream")
        return
    fl = Flow(b)
    cfg = CFG(b)
    # widths: results of byte_len
    bl = [(bi, t) for bi, t in F.calls(b) if last_seg(F.callee_name(t)) == "byte_len"]
    ctx.floor("C10-SIB", len(bl), 2, "field width computations")
    wlocals = [t["dest"][0] for bi, t in bl]
    # /W aggregate: XRefInfo.w built from [1, a_w, b_w]
    info = [(i, s) for i, j, s in F.stmts(b) if s[0] == "assign" and s[2][0] == "aggregate" and s[2][1].get("adt") == "xref::XRefInfo"]
    ctx.floor("C10-SIB", len(info), 1, "XRefInfo construction")
    for i, s in info:
        names = s[2][1]["fields"]
        wl = F.op_local(s[2][2][names.index("w")])
        VEC = ("box_assume_init_into_vec_unsafe", "new_uninit", "into_vec", "write", "into_boxed_slice")
        wats = fl.origins(wl, passthrough=VEC) if wl is not None else []
        bls = sorted({a[2] for a in wats if a[0] == "call" and last_seg(a[1]) == "byte_len"})
        consts = [a[1]["int"] for a in wats if a[0] == "const" and "int" in a[1]]
        other = [last_seg(a[1]) for a in wats if a[0] == "call" and last_seg(a[1]) not in VEC + ("byte_len",)] + [a[1] for a in wats if a[0] == "binop"]
        ctx.check(bls == sorted(x[0] for x in bl) and consts == [1] and not other, "C10-SIB", "write_stream#W",
                  "/W is not [1, width of field 2, width of field 3] as used for the entry bytes", b["blocks"][i]["term"]["span"], detail="/W [1 a_w b_w]")
        for fld in ("size", "index"):
            l = F.op_local(s[2][2][names.index(fld)])
            ats = fl.origins(l) if l is not None else []
            ok = any(a[0] == "arg" and a[1] == 2 for a in ats)
            if fld == "index":
                ok = ok and any(a[0] == "const" and a[1].get("int") == 0 for a in ats)
            ctx.check(ok, "C10-SIB", "write_stream#" + fld, "/%s is not derived from the `size` that bounds the emitted entries" % fld.capitalize(),
                      b["blocks"][i]["term"]["span"], detail="/%s from size" % fld.capitalize())
    # entries: take(size) over self.entries; slices 8 - width
    takes = [(bi, t) for bi, t in F.calls(b) if last_seg(F.callee_name(t)) == "take"]
    ok = False
    for bi, t in takes:
        l = arg_local(t, 1)
        ok = ok or (l is not None and fl.derives_from_arg(l, 2))
    ctx.check(ok, "C10-SIB", "write_stream#bound", "the number of emitted entries is not bounded by `size`", b["span"], detail="entries.iter().take(size)")
    subs = []
    for i, j, s in F.stmts(b):
        if s[0] == "assign" and s[2][0] == "binop" and s[2][1].startswith("Sub") and F.const_int(s[2][2]) == 8:
            l = F.op_local(s[2][3])
            subs.append(l)
    used = set()
    for l in subs:
        for a in fl.origins(l) if l is not None else []:
            if a[0] == "call" and last_seg(a[1]) == "byte_len":
                used.add(a[2])
    ctx.check(used == {x[0] for x in bl}, "C10-SIB", "write_stream#entry-widths", "entry fields are not cut to the declared widths (8 - width .. of the big-endian bytes)",
              b["span"], detail="a.to_be_bytes()[8 - a_w ..], b.to_be_bytes()[8 - b_w ..]")
    # /W lists the widths in the order the fields are written: W[1] is the width the first field is cut to, W[2] that of the second
    def bl_of(op):
        l = F.op_local(op)
        return sorted({a[2] for a in fl.origins(l) if a[0] == "call" and last_seg(a[1]) == "byte_len"}) if l is not None else []
    warr = [st for i, j, st in F.stmts(b) if st[0] == "assign" and st[2][0] == "aggregate" and st[2][1].get("k") == "array" and st[2][1].get("elem") == "usize" and len(st[2][2]) == 3]
    cuts = sorted([(i, st) for i, j, st in F.stmts(b) if st[0] == "assign" and st[2][0] == "binop" and st[2][1].startswith("Sub") and F.const_int(st[2][2]) == 8 and F.op_local(st[2][3]) is not None],
                  key=lambda c: sum(1 for d in [x for x in range(len(b["blocks"]))] if False))
    cuts = [c for c in cuts if bl_of(c[1][2][3])]
    cuts = sorted(cuts, key=lambda c: sum(1 for d in cuts if cfg.dominates(d[0], c[0]) and d[0] != c[0]))
    if warr and len(cuts) == 2:
        declared = [bl_of(o) for o in warr[0][2][2][1:]]
        written = [bl_of(c[1][2][3]) for c in cuts]
        ctx.check(declared == written and all(len(x) == 1 for x in declared), "C10-SIB", "write_stream#W-order", "/W declares the widths in another order than the fields are "
                  "written (declared from byte_len calls %s, written %s): with unequal widths every entry is cut at the wrong bytes" % (declared, written), b["span"],
                  detail="/W [1, width of the first field written, width of the second]")
    else:
        ctx.lost("C10-SIB", "the /W array literal or the two field cuts in write_stream")
    be = [t for bi, t in F.calls(b) if last_seg(F.callee_name(t)) == "to_be_bytes"]
    ctx.check(len(be) == 2, "C10-SIB", "write_stream#big-endian", "fields are not written big-endian", b["span"], detail="to_be_bytes x2")


def rule_length(ctx, f):
    ctx.rule("C10-PROV", "in Stream::to_pdf_stream /Length is the len() of the very buffer that becomes the stream's data (Generated) resp. the length of "
             "the file range (Original); PdfStream::serialize writes exactly that buffer between `stream\\n` and `\\nendstream`")
    bs = [b for b in f.bodies.values() if b["id"].endswith("::to_pdf_stream")]
    if not ctx.floor("C10-PROV", len(bs), 1, "Stream::to_pdf_stream"):
        return
    for b in bs:
        fl = Flow(b)
        ins = []
        for bi, t in F.calls(b):
            if F.callee_name(t).startswith("primitive::Dictionary::insert"):
                k = None
                for a in t["args"]:
                    c = F.const_str(a)
                    if c:
                        k = c
                if k is None:
                    kl = arg_local(t, 1)
                    for a in fl.origins(kl) if kl is not None else []:
                        if a[0] == "const" and "str" in a[1]:
                            k = a[1]["str"]
                if k == "Length":
                    ins.append((bi, t))
        ctx.floor("C10-PROV", len(ins), 2, "insertions of /Length (generated data, original range)")
        cfg = CFG(b)
        for bi, t in ins:
            vl = arg_local(t, 2)
            vats = fl.origins(vl, at=bi, cfg=cfg) if vl is not None else []
            lens = [a for a in vats if a[0] == "call" and last_seg(a[1]) == "len"]
            ok = len(lens) == 1
            what = "?"
            if ok:
                src = arg_local(lens[0][3], 0)
                sf = set()
                sats = fl.origins(src, fields=sf, at=lens[0][2], cfg=cfg)
                what = "Generated" if "as:Generated" in sf else ("Original" if "as:Original" in sf else "?")
                # the StreamInner built on the same path uses the same source
                ok = what in ("Generated", "Original")
                consts = [a for a in vats if a[0] == "binop"]
                ok = ok and not consts
            ctx.check(ok, "C10-PROV", b["id"] + "#Length-" + what, "/Length is not the plain length of the stream's own data (%s)" % what, t["span"],
                      detail="/Length = data.len() of StreamData::%s" % what)
    sb = f.body("primitive::PdfStream::serialize")
    if sb is None:
        ctx.lost("C10-PROV", "primitive::PdfStream::serialize")
    else:
        fl = Flow(sb)
        wa = [(bi, t) for bi, t in F.calls(sb) if last_seg(F.callee_name(t)) == "write_all"]
        ok = len(wa) == 1
        if ok:
            sf = set()
            fl.origins(arg_local(wa[0][1], 1), fields=sf)
            ok = "as:Pending" in sf and "data" in sf
        ctx.check(ok, "C10-PROV", "PdfStream::serialize#data", "the bytes written between stream and endstream are not the Pending data", sb["span"], detail="write_all(Pending.data)")


def rule_header(ctx, f):
    ctx.rule("C10-G1", "an empty storage starts with the header %PDF-x.y and start_offset 0")
    n = 0
    for b in f.bodies.values():
        if b["id"].endswith("::empty") and (b.get("impl") or {}).get("self", "").startswith("file::Storage<"):
            n += 1
            hdr = [F.const_bytes(a) for bi, t in F.calls(b) for a in t["args"] if F.const_bytes(a)]
            hdr += [F.const_bytes(s[2][1]) for i, j, s in F.stmts(b) if s[0] == "assign" and s[2][0] == "use" and F.const_bytes(s[2][1])]
            ok = any(h.startswith("%PDF-") and h.endswith("\n") for h in hdr)
            ctx.check(ok, "C10-G1", b["id"] + "#header", "the backend of a new document does not start with `%%PDF-x.y\\n` (constants: %s)" % hdr, b["span"], detail="backend = b\"%PDF-1.7\\n\"")
            # ... at byte 0: positions written by save are relative to start_offset
            so = []
            for i, j, st in F.stmts(b):
                if st[0] == "assign" and st[2][0] == "aggregate" and st[2][1].get("adt", "").startswith("file::Storage") and "start_offset" in (st[2][1].get("fields") or []):
                    so.append(F.const_int(st[2][2][st[2][1]["fields"].index("start_offset")]))
            ctx.check(so == [0], "C10-G1", b["id"] + "#start_offset", "a new document's start_offset is %s, not the constant 0 (its header is the first thing in the buffer): every "
                      "offset save writes is off by the difference" % so, b["span"], detail="start_offset: 0")
    ctx.floor("C10-G1", n, 1, "Storage::empty")



def rule_size_exact(ctx, f, rid):
    """shared by C10 (valid structure) and C09 (a saved file can be reloaded and saved again)"""
    # ... and what is finally written is exact: the cross-reference stream is the last object, /Size is its number plus one, stored in the trailer
    # and in the dictionary that is written.  An estimate that is too large leaves an undefined slot below /Size in the table of whoever reads the
    # file back, and the writer refuses such a table: a document without /Info could be saved once, but not again after a reload.
    for b in f.bodies.values():
        if not (b["id"].endswith("::save") and (b.get("impl") or {}).get("self", "").startswith("file::Storage<")):
            continue
        cfg = CFG(b)
        fl = Flow(b)
        proms = [bi for bi, t in F.calls(b) if last_seg(F.callee_name(t)) == "promise"]
        exact = []
        for i, j, st in F.stmts(b):
            if st[0] == "assign" and len(st[1]) > 1 and st[1][-1][0] == "field" and st[1][-1][2] == "size":
                src = F.op_place(st[2][1]) if st[2][0] == "use" else (F.op_place(st[2][2]) if st[2][0] == "cast" else None)
                ats = fl.origins(src[0], passthrough=("get_inner", "get_ref", "into", "from", "try_into", "unwrap")) if src else []
                from_prom = any(a[0] == "call" and last_seg(a[1]) == "promise" for a in ats)
                plus1 = any(a[0] == "binop" and a[1].startswith("Add") and 1 in (F.const_int(a[3][2]), F.const_int(a[3][3])) for a in ats)
                if from_prom and plus1 and any(cfg.dominates(p0, i) for p0 in proms):
                    exact.append(i)
        ins = [bi for bi, t in F.calls(b) if F.callee_name(t).startswith("primitive::Dictionary::insert") and any(F.const_str(a) == "Size" for a in t["args"])]
        if not ins:
            flx = Flow(b)
            for bi, t in F.calls(b):
                if F.callee_name(t).startswith("primitive::Dictionary::insert") and len(t["args"]) > 1:
                    l = F.op_local(t["args"][1])
                    if l is not None and any(a[0] == "const" and isinstance(a[1], dict) and a[1].get("str") == "Size" for a in flx.origins(l)):
                        ins.append(bi)
        ok = bool(exact) and any(cfg.dominates(e, x) for e in exact for x in ins)
        ctx.check(ok, rid, b["id"] + "#size-exact", "/Size is not set to the number of the cross-reference stream plus one after that number is known (and put into the "
                  "trailer dictionary that is written): with no /Info object it is one too large, the reloaded table has an undefined slot, and the next save fails "
                  "with `invalid xref entry`", b["span"], detail="trailer.size = xref id + 1; trailer_dict[Size] = trailer.size")

def rule_size(ctx, f):
    ctx.rule("C10-G2", "/Size written by save exceeds every object number save can still allocate: the constant added to the number of known objects is at least "
             "the number of allocation sites that follow (the xref-stream promise, and the trailer writer if it can create an object)")
    from tables import transitive_callees
    from cfg import CFG
    n = 0
    for b in f.bodies.values():
        if not (b["id"].endswith("::save") and (b.get("impl") or {}).get("self", "").startswith("file::Storage<")):
            continue
        cfg = CFG(b)
        # `(*trailer).size = (refs.len() + c) as _`
        site = None
        for i, j, st in F.stmts(b):
            if st[0] == "assign" and len(st[1]) > 1 and st[1][-1][0] == "field" and st[1][-1][2] == "size":
                site = (i, st)
        if site is None:
            continue
        n += 1
        fl = Flow(b)
        c = None
        src = F.op_place(site[1][2][1]) if site[1][2][0] in ("use",) else (F.op_place(site[1][2][2]) if site[1][2][0] == "cast" else None)
        for a in fl.origins(src[0]) if src else []:
            if a[0] == "binop" and a[1].startswith("Add"):
                c = F.const_int(a[3][3]) if F.const_int(a[3][3]) is not None else F.const_int(a[3][2])
        after = [(bi, t) for bi, t in F.calls(b) if cfg.dominates(site[0], bi) and bi != site[0] or bi == site[0]]
        proms = [bi for bi, t in after if last_seg(F.callee_name(t)) == "promise"]
        writers = 0
        for bi, t in after:
            if last_seg(F.callee_name(t)) in ("to_dict", "to_primitive") and t.get("resolved_local") and t.get("resolved") in f.bodies:
                names = transitive_callees(f, f.bodies[t["resolved"]], depth=4)
                if any(x.endswith("Updater::create") for x in names):
                    writers += 1
        need = len(proms) + writers
        ctx.check(c is not None and c >= need, "C10-G2", b["id"] + "#size",
                  "/Size = number of objects + %s, but save allocates up to %d more objects afterwards (%d promise(s), %d writer(s) that may create an object): "
                  "the highest object number reaches /Size, which makes the file invalid for other readers" % (c, need, len(proms), writers), b["span"],
                  detail="/Size = refs.len() + %s >= %d" % (c, need))
    ctx.floor("C10-G2", n, 1, "assignment of trailer.size in Storage::save")
    rule_size_exact(ctx, f, "C10-G2")



def rule_order(ctx, f):
    ctx.rule("C10-ORDER", "save: everything that can still create or update objects (the trailer writer gets the storage as its updater and creates the /Info "
             "object) runs before the pending objects are collected for writing; afterwards the storage is only handed to its own promise / fulfill of the "
             "cross-reference stream")
    from cfg import CFG
    n = 0
    for b in f.bodies.values():
        if not (b["id"].endswith("::save") and (b.get("impl") or {}).get("self", "").startswith("file::Storage<")):
            continue
        cfg = CFG(b)
        coll = [bi for bi, t in F.calls(b) if last_seg(F.callee_name(t)) in ("iter", "into_iter", "drain", "keys", "values", "iter_mut") and
                any("HashMap<u64, (primitive::Primitive" in ty["s"] for ty in t["arg_tys"][:1])]
        if not ctx.floor("C10-ORDER", len(coll), 1, "collection of the pending changes in save"):
            continue
        for bi, t in F.calls(b):
            if not any(ty["k"] == "refmut" and "file::Storage<" in ty["s"] for ty in t["arg_tys"]):
                continue
            nm = last_seg(F.callee_name(t))
            n += 1
            late = any(cfg.can_reach(c, bi) for c in coll)
            own = nm in ("promise", "fulfill") and "file::Storage<" in F.callee_name(t)
            ctx.check(own or not late, "C10-ORDER", b["id"] + "#" + nm, "%s gets the storage as updater after the pending objects were collected: what it creates "
                      "(e.g. the /Info object of the trailer) is referenced by the written file but never written" % nm, t["span"],
                      detail="%s %s the collection of `changes`" % (nm, "is the storage's own bookkeeping after" if own else "precedes"))
    ctx.floor("C10-ORDER", n, 3, "calls in save that hand on the storage (to_dict, promise, fulfill)")


def rule_fields(ctx, f):
    ctx.rule("C10-PAIR-fields", "the catalog builder copies each page attribute into the Page field of the same name (media_box -> media_box, trim_box -> trim_box ..)")
    pb = f.adts.get("build::PageBuilder")
    if not pb:
        ctx.lost("C10-PAIR-fields", "build::PageBuilder")
        return
    src = {x["name"] for x in pb["variants"][0]["fields"]}
    n = 0
    for b in f.bodies.values():
        if not b["id"].startswith("build::CatalogBuilder::build"):
            continue
        fl = None
        for i, j, st in F.stmts(b):
            if st[0] == "assign" and st[2][0] == "aggregate" and st[2][1].get("adt") == "object::types::Page":
                fl = fl or Flow(b)
                for nm, op in zip(st[2][1]["fields"], st[2][2]):
                    if nm not in src or nm in ("resources",):
                        continue
                    fs = set()
                    l = F.op_local(op)
                    if l is not None:
                        fl.origins(l, fields=fs)
                    pl = F.op_place(op)
                    if pl:
                        Flow._note_fields(pl, fs)
                    got = sorted(x for x in fs if x in src)
                    n += 1
                    ctx.check(got == [nm], "C10-PAIR-fields", "CatalogBuilder::build#%s" % nm, "Page.%s is filled from the builder's %s: the built page does not have the box / "
                              "attribute it was given" % (nm, got or "nothing of that name"), b["blocks"][i]["term"].get("span", b["span"]), detail="%s <- page.%s" % (nm, nm))
    ctx.floor("C10-PAIR-fields", n, 7, "page attributes copied by the builder")


def run(ctx):
    f = F.load("default")
    ctx.count("bodies", len(f.bodies))
    rule_pair(ctx, f)
    rule_xref_writer(ctx, f)
    rule_length(ctx, f)
    rule_header(ctx, f)
    rule_size(ctx, f)
    rule_order(ctx, f)
    rule_fields(ctx, f)
    adj.rule_framing(ctx, f, "C10")
    c09.rule_units(ctx, f) if False else None
    # written positions (shared with C09): registered under this property's own rule id
    ctx.rule("C10-UNITS", "positions written by save are relative to the header (see C09-UNITS)")
    sub = type(ctx)(ctx.prop, ctx.tier, ctx.seed)
    c09.rule_units(sub, f)
    for r, inst, ok, d in sub.obligations:
        if ok:
            ctx.ok("C10-UNITS", inst, d)
    for v in sub.violations:
        ctx.bad("C10-UNITS", v["key"].split("@", 1)[1], v["msg"], v["where"])
    return ctx.finish(
        "Static analysis of MIR facts of build.rs / xref.rs / stream.rs / file.rs and the format literals of the object framing: provenance of "
        "the promise/fulfil pairing and of /Kids; provenance of /W, /Index, /Size and of the entry slicing in the xref-stream writer; provenance "
        "of /Length; header constant; token adjacency of the framing; units of written positions. Equality of the reloaded pages and validity for "
        "other readers are value-level and not decided.",
        ["rustc nightly MIR construction", "mirx exporter", "astx (syn)"])
