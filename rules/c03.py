"""C03 — every spec-conformant spelling of an object parses to the value it denotes.

Decided: the lexical tables of the lexer / object parser equal ISO 32000-1 (white-space,
delimiters, comment terminators, literal-string escapes incl. octal arity, line continuation,
unknown escapes, raw EOL normalisation, hex-string white-space / digits / odd digit, `#xx` in
names and dictionary keys, number signs and dot, keywords, EOL after `stream`); the look-ahead
for `n g R` is rolled back (G1) and tolerates the end of the buffer (G2); string branches advance
by exactly what the scanner consumed (G3).
Not decided: that the value built from a correctly delimited token is the denoted one (numeric
conversion, i32 range), all adjacent-token pairs, stream bodies.
"""
import json
import os
import facts as F
from cfg import CFG, ccp_reachable
from flow import Flow, call_sites, arg_local, last_seg
from byteclass import predicate_sets, outcome_partition, classify, arg_subject, ret_shape, fmt_set, FULL, shape
from sym import PathSym, walk, strip, enum_paths, prefix_to
from tables import exclusive_regions, region_calls

SPEC = json.load(open(os.path.join(os.path.dirname(os.path.abspath(__file__)), "..", "spec", "iso32000.json")))
WS = set(SPEC["whitespace"])


def u8_switches(b):
    out = []
    for i, bb in enumerate(b["blocks"]):
        t = bb["term"]
        if t["k"] == "switch" and t["discr_ty"] == "u8":
            out.append((i, t))
    return out


def consts_compared(b, ops=("Eq", "Ne")):
    s = set()
    for i, j, st in F.stmts(b):
        if st[0] == "assign" and st[2][0] == "binop" and st[2][1] in ops:
            for o in (st[2][2], st[2][3]):
                c = F.const_int(o)
                if c is not None:
                    s.add(c)
    # the match / matches! spelling of the same tests: a switch on the byte itself
    for bb in b["blocks"]:
        t = bb["term"]
        if t["k"] == "switch" and t.get("discr_ty") in ("u8", "char"):
            for v, tg in t["arms"]:
                s.add(v)
    return s


def raw_consts(b):
    """[(type, [bytes of the constant allocation and of what it points to])] for pointer-like constants"""
    out = []

    def flat(a):
        bs = list(bytes.fromhex(a.get("hex", "")))
        for r in a.get("refs", []):
            bs += flat(r)
        return bs
    for i, j, s in F.stmts(b):
        if s[0] == "assign" and s[2][0] == "use":
            c = F.op_const(s[2][1])
            if c and "alloc" in c:
                refs = []
                for r in c["alloc"].get("refs", []):
                    refs += flat(r)
                out.append((c["ty"], list(bytes.fromhex(c["alloc"].get("hex", ""))), refs))
    return out


def rule_classes(ctx, f):
    ctx.rule("C03-TABLE", "the lexer's byte classes and the scanners' tables equal ISO 32000-1 7.2.2 / 7.3.4 / 7.3.5")
    b = f.body("parser::lexer::is_whitespace")
    if b is None:
        ctx.lost("C03-TABLE", "parser::lexer::is_whitespace")
    else:
        tr, fa, ot = predicate_sets(b, arg_subject(1))
        ctx.check(tr == WS and not ot, "C03-TABLE", "lexer::is_whitespace", "white-space set is %s, spec %s" % (fmt_set(tr), fmt_set(WS)), b["span"], detail="white-space " + fmt_set(WS))
    # delimiters
    import adj
    try:
        ws, delim = adj.reader_classes(f)
        want = {ord(c) for c in SPEC["delimiters"]}
        ctx.check(delim == want, "C03-TABLE", "lexer::is_delimiter", "delimiter set is %s, spec %s" % (fmt_set(delim), fmt_set(want)), detail="delimiters " + SPEC["delimiters"])
    except F.LostAnchor as e:
        ctx.lost("C03-TABLE", str(e))
    # comment terminator: closure inside next_word comparing with LF / CR
    nw = [b for b in f.bodies.values() if "Lexer" in b["id"] and b["id"].endswith("::next_word")]
    if not nw:
        ctx.lost("C03-TABLE", "Lexer::next_word")
    else:
        cl = f.closures_of(nw[0]["id"])
        term = set()
        for c in cl:
            tr, fa, ot = predicate_sets(c, arg_subject(2))
            term |= tr
        ctx.check(term == set(SPEC["comment_terminators"]), "C03-TABLE", "lexer::next_word#comment-end",
                  "a comment ends at %s (spec: CR or LF)" % fmt_set(term), nw[0]["span"], detail="comment ends at CR or LF")
        # the comment marker itself
        pct = [c for c in consts_compared(nw[0])]
        opt = [refs for ty, raw, refs in raw_consts(nw[0]) if "Option<&u8>" in ty]
        has37 = 37 in pct or [37] in opt
        ctx.check(has37, "C03-TABLE", "lexer::next_word#comment-start", "`%%` no longer starts a comment (byte compared: %s)" % opt, nw[0]["span"], detail="% starts a comment")
        # ... and skipping is repeated: the test for `%` sits in a loop, so that any number of comment lines in a row is skipped
        nb = nw[0]
        ncfg = CFG(nb)
        nloops = ncfg.loops()
        pct_blocks = []
        for i, bb in enumerate(nb["blocks"]):
            js = [st for st in bb["stmts"] if st[0] == "assign" and st[2][0] == "use" and st[2][1][0] == "const" and "Option<&u8>" in str(st[2][1][1].get("ty", ""))]
            tt = bb["term"]
            if tt["k"] == "call" and last_seg(F.callee_name(tt)) in ("eq", "ne") and any("Option<&u8>" in ty["s"] for ty in tt["arg_tys"]):
                pct_blocks.append(i)
            for st in bb["stmts"]:
                if st[0] == "assign" and st[2][0] == "binop" and st[2][1] in ("Eq", "Ne") and 37 in (F.const_int(st[2][2]), F.const_int(st[2][3])):
                    pct_blocks.append(i)
            if tt["k"] == "switch" and any(a[0] == 37 for a in tt["arms"]):
                pct_blocks.append(i)
        inloop = [i for i in pct_blocks if any(i in body for body in nloops.values())]
        ctx.check(bool(inloop), "C03-TABLE", "lexer::next_word#comment-repeat", "the test for `%` is not inside a loop: only one comment is skipped, a second comment "
                  "line in a row comes back as a token", nb["span"], detail="while next byte is `%`: skip to the end of the line")


def rule_string(ctx, f):
    ctx.rule("C03-TABLE-str", "literal strings: escapes n r t b f ( ) \\\\ map to 10 13 9 8 12 40 41 92; backslash + LF / CR / CRLF continues the line; "
             "1..3 octal digits; a backslash before anything else is ignored; an unescaped CR or CRLF reads as LF; parentheses nest")
    b = None
    for x in f.bodies.values():
        if x["id"].endswith("StringLexer::<'a>::next_lexeme"):
            b = x
    if b is None:
        ctx.lost("C03-TABLE-str", "StringLexer::next_lexeme")
        return
    cfg = CFG(b)
    sws = u8_switches(b)
    esc = [s for s in sws if len(s[1]["arms"]) >= 8]
    outer = [s for s in sws if any(a[0] == 92 for a in s[1]["arms"]) and s not in esc]
    if not ctx.floor("C03-TABLE-str", len(esc), 1, "escape switch in next_lexeme") or not ctx.floor("C03-TABLE-str", len(outer), 1, "first-byte switch in next_lexeme"):
        return
    ei, et = esc[0]
    arms = {a[0]: a[1] for a in et["arms"]}
    ents = dict(arms)
    ents["default"] = et["otherwise"]
    # the scanner may be a loop (an arm that has nothing to report says `continue`) or call itself: either way "go on with the next character"
    heads = {h for h, body_ in cfg.loops().items() if ei in body_}
    regs = exclusive_regions(cfg, ents, avoid=heads)

    yields = {i_ for i_, j_, s_ in F.stmts(b) if s_[0] == "assign" and s_[1] == [0]}

    def goes_on(reg):
        if any(last_seg(F.callee_name(t)) == "next_lexeme" for r, t in region_calls(b, reg)):
            return True
        # back to the head of the scanner's loop without producing a result on the way
        for r in reg:
            if r in yields:
                continue
            if (cfg.reachable_from(r, avoid=yields | {ei}) | {r}) & heads or any(x in heads for x in cfg.succ[r]):
                return True
        return False

    def arm_value(v):
        tgt = arms[v]
        blk = b["blocks"][tgt]
        for s in blk["stmts"]:
            if s[0] == "assign" and s[2][0] == "aggregate" and s[2][1].get("variant") == "Some":
                return F.const_int(s[2][2][0])
        return None
    for ch, val in SPEC["string_escapes"].items():
        got = arm_value(ord(ch)) if ord(ch) in arms else "no arm"
        ctx.check(got == val, "C03-TABLE-str", "next_lexeme#escape-" + ("backslash" if ch == "\\" else ch),
                  "\\%s yields %s (spec: byte %d)" % (ch, got, val), et["span"], detail="\\%s -> %d" % (ch, val))
    for eol, name in ((10, "LF"), (13, "CR")):
        ok = False
        if eol in arms:
            reg = regs[eol] | {arms[eol]}
            names = [last_seg(F.callee_name(t)) for r, t in region_calls(b, reg)]
            somes = [s for r in reg for s in b["blocks"][r]["stmts"] if s[0] == "assign" and s[2][0] == "aggregate" and s[2][1].get("variant") == "Some"
                     and F.const_int(s[2][2][0]) is not None]
            ok = goes_on(reg) and "peek_byte" in names and not somes
            # the byte that is looked at (and skipped) after a CR is the LF of a CRLF pair
            seen_consts = set()
            for r in reg:
                bb2 = b["blocks"][r]
                if bb2["term"]["k"] == "switch" and bb2["term"].get("discr_ty") == "u8":
                    seen_consts |= {a[0] for a in bb2["term"]["arms"]}
                for s2 in bb2["stmts"]:
                    if s2[0] == "assign" and s2[2][0] == "binop" and s2[2][1] in ("Eq", "Ne"):
                        seen_consts |= {c for c in (F.const_int(s2[2][2]), F.const_int(s2[2][3])) if c is not None}
            if eol == 13:
                ok = ok and 10 in seen_consts
        ctx.check(ok, "C03-TABLE-str", "next_lexeme#continuation-" + name,
                  "backslash + %s is not a line continuation (skip the EOL, also the second byte of CRLF / LFCR, and go on)" % name, et["span"],
                  detail="\\%s -> continue with the next character" % name)
    extra = set(arms) - {ord(c) for c in SPEC["string_escapes"]} - {10, 13}
    ctx.check(not extra, "C03-TABLE-str", "next_lexeme#extra-escapes", "escapes not in the specification: %s" % fmt_set(extra), et["span"], detail="no extra escapes")
    # default arm: octal
    dreg = regs["default"] | {et["otherwise"]}
    ranges = []
    for r in dreg:
        for s in b["blocks"][r]["stmts"]:
            if s[0] == "assign" and s[2][0] == "aggregate" and s[2][1].get("adt", "").startswith("std::ops::Range"):
                ranges.append([F.const_int(o) for o in s[2][2]])
    incl = [[F.const_int(a) for a in t["args"]] for r, t in region_calls(b, dreg) if "RangeInclusive" in F.callee_name(t) and last_seg(F.callee_name(t)) == "new"]
    ctx.check([0, 3] in ranges, "C03-TABLE-str", "next_lexeme#octal-arity", "octal escapes read %s digits (spec: up to 3)" % ranges, et["span"], detail="for _ in 0..3")
    rng = [sorted(set(raw) - {0, 1}) for ty, raw, refs in raw_consts(b) if "RangeInclusive<u8>" in ty]
    ctx.check([48, 55] in incl or [48, 55] in rng, "C03-TABLE-str", "next_lexeme#octal-digits", "octal digit range %s (spec '0'..='7')" % (incl or rng), et["span"], detail="digits '0'..='7'")
    # (in the loop form the octal arm holds a loop of its own: "go on" is an edge to the head of the SCANNER's loop)
    ctx.check(goes_on(dreg), "C03-TABLE-str", "next_lexeme#unknown-escape",
              "a backslash before a character that starts no escape yields a byte (NUL) instead of being ignored", et["span"],
              detail="zero octal digits -> the backslash is ignored")
    # outer switch: ( nests, ) un-nests / ends, CR normalised
    oi, ot = outer[0]
    oarms = {a[0]: a[1] for a in ot["arms"]}
    ok_cr = False
    oheads = {h for h, body_ in cfg.loops().items() if oi in body_}
    if 13 in oarms:
        oregs = exclusive_regions(cfg, dict(oarms, **{"default": ot["otherwise"]}), avoid=oheads)
        reg = oregs[13] | {oarms[13]}
        somes = [F.const_int(s[2][2][0]) for r in reg for s in b["blocks"][r]["stmts"] if s[0] == "assign" and s[2][0] == "aggregate" and s[2][1].get("variant") == "Some"]
        names = [last_seg(F.callee_name(t)) for r, t in region_calls(b, reg)]
        ok_cr = somes == [10] and "peek_byte" in names
    ctx.check(ok_cr, "C03-TABLE-str", "next_lexeme#raw-eol", "an unescaped CR / CRLF inside a literal string is not read as a single LF (7.3.4.2)", ot["span"],
              detail="raw CR or CRLF -> LF")
    ctx.check(40 in oarms and 41 in oarms, "C03-TABLE-str", "next_lexeme#parens", "balanced parentheses are not tracked", ot["span"], detail="( and ) nest")
    if 40 in oarms and 41 in oarms:
        # `(` adds one level; `)` takes one away and THEN asks whether the string is over (the test sees the level after the decrement); the
        # string ends (None) on the negative side, the parenthesis is data on the other
        oregs = exclusive_regions(cfg, dict(oarms, **{"default": ot["otherwise"]}), avoid=oheads)
        def steps(reg, op):
            return [r for r in sorted(reg) for s_ in b["blocks"][r]["stmts"] if s_[0] == "assign" and s_[2][0] == "binop" and s_[2][1].startswith(op) and F.const_int(s_[2][3]) == 1]
        opens = steps(oregs[40] | {oarms[40]}, "Add")
        reg41 = oregs[41] | {oarms[41]}
        decs = steps(reg41, "Sub")
        tests = [r for r in sorted(reg41) for s_ in b["blocks"][r]["stmts"] if s_[0] == "assign" and s_[2][0] == "binop" and s_[2][1] in ("Lt", "Ge", "Le", "Gt") and
                 0 in (F.const_int(s_[2][2]), F.const_int(s_[2][3]))]
        nones = [r for r in sorted(reg41) for s_ in b["blocks"][r]["stmts"] if s_[0] == "assign" and s_[2][0] == "aggregate" and s_[2][1].get("variant") == "None"]
        okn = len(opens) == 1 and len(decs) == 1 and len(tests) == 1 and cfg.dominates(decs[0], tests[0]) and bool(nones) and all(cfg.dominates(tests[0], n_) for n_ in nones)
        ctx.check(okn, "C03-TABLE-str", "next_lexeme#paren-depth", "the nesting level of a literal string is not (`(`: +1; `)`: -1, then `< 0` ends the string): increments %d, decrements %d, "
                  "tests %d, decrement before the test: %s - the closing parenthesis is taken for data, or an inner one ends the string"
                  % (len(opens), len(decs), len(tests), bool(decs and tests and cfg.dominates(decs[0], tests[0]))), ot["span"], detail="nested -= 1; if nested < 0 { end }")


def rule_hexstring(ctx, f):
    ctx.rule("C03-TABLE-hex", "hexadecimal strings: white-space set, digit alphabet, `>` ends, an odd final digit is padded with 0")
    ws_b = None
    hb = None
    for x in f.bodies.values():
        if x["id"].endswith("HexStringLexer::<'a>::next_non_whitespace_char"):
            ws_b = x
        if x["id"].endswith("HexStringLexer::<'a>::next_hex_byte"):
            hb = x
    if ws_b is None or hb is None:
        ctx.lost("C03-TABLE-hex", "HexStringLexer::{next_non_whitespace_char,next_hex_byte}")
        return
    got = consts_compared(ws_b) | {a[0] for i, t in u8_switches(ws_b) for a in t["arms"]}
    ctx.check(got == WS, "C03-TABLE-hex", "HexStringLexer#whitespace", "hex strings skip %s (spec white-space %s)" % (fmt_set(got), fmt_set(WS)), ws_b["span"], detail="skips " + fmt_set(WS))
    # digits: classify on the two scanned characters
    calls_ = [(bi, t) for bi, t in F.calls(hb) if last_seg(F.callee_name(t)) == "next_non_whitespace_char"]
    cfg = CFG(hb)
    calls_ = sorted(calls_, key=lambda c: sum(1 for d in calls_ if cfg.dominates(d[0], c[0])))
    want = {ord(c) for c in SPEC["hex_digits"]}
    for k, (bi, t) in enumerate(calls_[:2]):
        def subj(e, bi=bi):
            e0 = e
            while isinstance(e0, tuple) and e0[0] in ("field", "downcast", "call") and not (e0[0] == "call" and len(e0) > 4 and e0[4] == bi and last_seg(e0[1]) == "next_non_whitespace_char"):
                if e0[0] == "call":
                    if last_seg(e0[1]) in ("branch",) and e0[2]:
                        e0 = e0[2][0]
                        continue
                    return False
                e0 = e0[1]
            return isinstance(e0, tuple) and e0[0] == "call" and len(e0) > 4 and e0[4] == bi
        digit, end, err = set(), set(), set()
        for S, path in classify(hb, subj):
            if path[-1] < 0:
                continue
            ps = PathSym(hb, path)
            sh = shape(ps.expr_of_local(0, len(ps.events)))
            if S == FULL:
                continue
            if sh.startswith("Ok(Some"):
                digit |= set(S)
            elif sh.startswith("Ok(None"):
                end |= set(S)
            elif sh == "Err":
                err |= set(S)
        # the digit test may sit in a closure / private helper that maps a character to Some(value) (`hex_value(c1)`): the characters it accepts
        # are digits; what the caller does with the others (`>`, error) is read off the caller as before
        hfl = Flow(hb)
        for ci, ct in F.calls(hb):
            al = None
            cbody = None
            if last_seg(ct.get("callee") or "") in ("call", "call_mut", "call_once") and len(ct["args"]) == 2:
                rb_ = f.bodies.get(ct.get("resolved") or "")
                if rb_ is not None and rb_["kind"] == "Closure":
                    cbody, subj_n = rb_, 2
                for a_ in hfl.origins(arg_local(ct, 0)) if cbody is None and arg_local(ct, 0) is not None else []:
                    if a_[0] == "agg" and a_[1].get("k") == "closure":
                        cbody, subj_n = f.body(a_[1]["closure"]), 2
                al = arg_local(ct, 1)
            elif ct.get("resolved_local") and f.bodies.get(ct.get("resolved") or "") is not None and not f.bodies[ct["resolved"]].get("pub") and len(ct["args"]) == 1 and \
                    ct["arg_tys"][0]["s"] == "u8":
                cbody, subj_n = f.bodies[ct["resolved"]], 1
                al = arg_local(ct, 0)
            if cbody is None or al is None or not any(a_[0] == "call" and a_[2] == bi for a_ in hfl.origins(al)):
                continue
            part = outcome_partition(cbody, arg_subject(subj_n), ret_shape)
            for sh_, S_ in part.items():
                if str(sh_).startswith("Some"):
                    digit |= set(S_)
        if k == 0:
            ctx.check(end == {62}, "C03-TABLE-hex", "next_hex_byte#end", "a hex string ends at %s" % fmt_set(end), hb["span"], detail="'>' ends the string")
            ctx.check(digit - {62} == want or (digit | end) >= want and not (err & want), "C03-TABLE-hex", "next_hex_byte#digits-1",
                      "first digit accepts %s (spec %s)" % (fmt_set(digit), fmt_set(want)), hb["span"], detail="hex digits 0-9 A-F a-f")
        else:
            ok = (digit >= want) and 62 in digit and not (digit - want - {62})
            ctx.check(ok, "C03-TABLE-hex", "next_hex_byte#digits-2",
                      "second digit accepts %s (spec: hex digits, and `>` standing for a missing 0)" % fmt_set(digit), hb["span"], detail="odd digit count: '>' counts as 0")
    backs = [t for bi, t in F.calls(hb) if last_seg(F.callee_name(t)) == "back"]
    ctx.check(bool(backs), "C03-TABLE-hex", "next_hex_byte#odd-digit", "after an odd final digit the `>` is not put back", hb["span"], detail="'>' is re-read as the terminator")


def rule_names_numbers(ctx, f):
    ctx.rule("C03-TABLE-tok", "names decode #xx with the hex digit table in values and in dictionary keys; numbers accept an optional + or - sign, "
             "digits and at most one dot; the object parser knows the keywords of 7.3; `stream` is followed by LF or CRLF")
    # names: bodies calling decode_nibble outside enc
    users = [b for b in f.bodies.values() if b["_file"].startswith("pdf/src/parser") and call_sites(b, lambda n, t: n == "enc::decode_nibble")]
    ctx.check(bool(users), "C03-TABLE-tok", "parser#name-hex", "name #xx decoding no longer uses the shared hex digit table (enc::decode_nibble)", detail="#xx via decode_nibble")
    # both name values and dictionary keys go through the same decoder
    decoders = {b["id"] for b in users}
    pd = f.body("parser::parse_dictionary_object")
    pv = f.body("parser::_parse_with_lexer_ctx")
    for body, what in ((pd, "dictionary keys"), (pv, "name values")):
        if body is None:
            ctx.lost("C03-TABLE-tok", what)
            continue
        ok = body["id"] in decoders or any(F.callee_name(t) in decoders for bi, t in F.calls(body))
        ctx.check(ok, "C03-TABLE-tok", body["id"] + "#name-decoding", "#xx escapes are not decoded in %s" % what, body["span"], detail="%s decode #xx" % what)
    # an integer is recognised by its characters, however many there are (leading zeros are legal: `00000000017`)
    ib = f.body("parser::lexer::is_int")
    if ib is not None:
        lens = [t for bb in [ib] + f.closures_of(ib["id"]) for bi, t in F.calls(bb) if last_seg(F.callee_name(t)) in ("len", "count", "take", "get")]
        ctx.check(not lens, "C03-TABLE-tok", "is_int#digits-only", "whether a token is an integer depends on its length (%s), not only on its characters: long spellings of small "
                  "numbers are read as reals or not at all" % ", ".join(sorted({last_seg(F.callee_name(t)) for t in lens})), ib["span"], detail="all characters are digits")
    # numbers
    for nm in ("is_integer", "real_number"):
        b = None
        for x in f.bodies.values():
            if x["id"].endswith("Substr::<'a>::" + nm):
                b = x
        if b is None:
            ctx.lost("C03-TABLE-tok", "Substr::" + nm)
            continue
        signs = consts_compared(b) & {43, 45}
        ctx.check(signs == {43, 45}, "C03-TABLE-tok", "Substr::%s#sign" % nm, "accepted signs: %s (spec + and -)" % fmt_set(signs), b["span"], detail="leading + or -")
    rb = None
    for x in f.bodies.values():
        if x["id"].endswith("Substr::<'a>::real_number"):
            rb = x
    if rb is not None:
        dots = set()
        for c in f.closures_of(rb["id"]):
            tr, fa, ot = predicate_sets(c, arg_subject(2))
            if tr == {46}:
                dots |= tr
        ctx.check(dots == {46}, "C03-TABLE-tok", "Substr::real_number#dot", "decimal point test missing", rb["span"], detail="one '.'")
        # `.5` and `-.5` are numbers: the position of the dot is not tested against a constant (an empty integer part is fine)
        rfl = Flow(rb)
        bad_cmp = []
        for i, j, st in F.stmts(rb):
            if st[0] == "assign" and st[2][0] == "binop" and st[2][1] in ("Eq", "Ne", "Lt", "Le", "Gt", "Ge") and (F.const_int(st[2][2]) is not None or F.const_int(st[2][3]) is not None):
                o = st[2][3] if F.const_int(st[2][2]) is not None else st[2][2]
                l = F.op_local(o)
                for a in rfl.origins(l, passthrough=()) if l is not None else []:
                    if a[0] == "call" and last_seg(a[1]) == "position":
                        # which closure does this position() use?  the one that tests for '.'
                        cl = a[3]["args"][1] if len(a[3]["args"]) > 1 else None
                        ty = a[3]["arg_tys"][1]["s"] if len(a[3]["arg_tys"]) > 1 else ""
                        for c in f.closures_of(rb["id"]):
                            tr, fa, ot = predicate_sets(c, arg_subject(2))
                            if tr == {46} and ("@" + ":".join(c["span"].split(":")[:3]) + ":") in ty:
                                bad_cmp.append(st)
        ctx.check(not bad_cmp, "C03-TABLE-tok", "Substr::real_number#fraction-only", "the position of the decimal point is compared with a constant: a number without "
                  "integer part (`.5`, `-.5`) is rejected", rb["span"], detail="empty integer part accepted")
    # keywords known to the object parser
    kws = set()
    for b in f.bodies.values():
        if not b["_file"].startswith("pdf/src/parser") or "tests" in b["id"]:
            continue
        for bi, t in F.calls(b):
            if last_seg(F.callee_name(t)) in ("equals", "next_expect", "eq", "starts_with"):
                for a in t["args"]:
                    for c in (F.const_bytes(a), F.const_str(a)):
                        if c:
                            kws.add(c)
        for i, j, s in F.stmts(b):
            if s[0] == "assign" and s[2][0] == "use":
                for c in (F.const_bytes(s[2][1]), F.const_str(s[2][1])):
                    if c and len(c) < 12:
                        kws.add(c)
    need = set(SPEC["keywords"]) | {"<<", ">>", "[", "]", "(", "<", "/"}
    miss = need - kws
    ctx.check(not miss, "C03-TABLE-tok", "parser#keywords", "keywords / delimiters no longer recognised by the object parser: %s" % sorted(miss), detail="%d keywords" % len(need))
    # ... and each of the three value keywords denotes its value: true -> Boolean(true), false -> Boolean(false), null -> Null
    pb = f.body("parser::_parse_with_lexer_ctx")
    if pb is None:
        ctx.lost("C03-TABLE-tok", "parser::_parse_with_lexer_ctx")
    else:
        pcfg = CFG(pb)
        eqs = {}
        for bi, t in F.calls(pb):
            if last_seg(F.callee_name(t)) == "equals" and t.get("dest") and t.get("target") is not None:
                for a in t["args"]:
                    c = F.const_bytes(a) or F.const_str(a)
                    if c in ("true", "false", "null"):
                        eqs[c] = (bi, t)
        for kw, want in (("true", ("Boolean", 1)), ("false", ("Boolean", 0)), ("null", ("Null", None))):
            if kw not in eqs:
                ctx.bad("C03-TABLE-tok", "parser#value-of-" + kw, "no test for the keyword `%s` in the object parser" % kw, pb["span"])
                continue
            bi, t = eqs[kw]
            yes = ccp_reachable(pb, t["target"], init={t["dest"][0]: 1}, avoid={x[0] for k2, x in eqs.items() if k2 != kw})
            no = ccp_reachable(pb, t["target"], init={t["dest"][0]: 0})
            built = set()
            for r in yes - no:
                for s_ in pb["blocks"][r]["stmts"]:
                    if s_[0] == "assign" and s_[2][0] == "aggregate" and s_[2][1].get("adt") == "primitive::Primitive":
                        v = s_[2][1].get("variant")
                        arg = None
                        if v == "Boolean" and s_[2][2]:
                            c0 = s_[2][2][0]
                            arg = int(c0[1].get("bool")) if c0[0] == "const" and isinstance(c0[1], dict) and "bool" in c0[1] else "?"
                        built.add((v, arg))
            ctx.check(built == {want}, "C03-TABLE-tok", "parser#value-of-" + kw, "the keyword `%s` is read as %s" % (kw, sorted(map(str, built)) or "nothing"), t["span"],
                      detail="`%s` -> %s" % (kw, want[0] + ("(%s)" % bool(want[1]) if want[1] is not None else "")))
    # stream EOL
    sb = None
    for x in f.bodies.values():
        if x["id"].endswith("Lexer::<'a>::next_stream"):
            sb = x
    if sb is None:
        ctx.lost("C03-TABLE-tok", "Lexer::next_stream")
    else:
        cs = consts_compared(sb)
        ctx.check({10, 13} <= cs, "C03-TABLE-tok", "Lexer::next_stream#eol", "`stream` must be followed by LF or CR LF; bytes tested: %s" % fmt_set(cs), sb["span"], detail="stream LF | stream CR LF")


def rule_rollback(ctx, f):
    ctx.rule("C03-G1", "a failed parse restores the lexer position saved at entry; in the integer branch every non-reference exit rolls back to the "
             "position after the first lexeme")
    b = f.body("parser::parse_with_lexer_ctx")
    if b is None:
        ctx.lost("C03-G1", "parser::parse_with_lexer_ctx")
    else:
        cfg = CFG(b)
        fl = Flow(b)
        gp = [(bi, t) for bi, t in F.calls(b) if last_seg(F.callee_name(t)) == "get_pos"]
        sp = [(bi, t) for bi, t in F.calls(b) if last_seg(F.callee_name(t)) == "set_pos"]
        inner = [(bi, t) for bi, t in F.calls(b) if last_seg(F.callee_name(t)) == "_parse_with_lexer_ctx"]
        ok = len(gp) == 1 and bool(sp) and bool(inner) and cfg.dominates(gp[0][0], inner[0][0])
        if ok:
            # Err arm passes set_pos(saved)
            t = inner[0][1]
            sw = b["blocks"][t["target"]]["term"]
            err_t = [a[1] for a in sw.get("arms", []) if a[0] == 1] or [sw.get("otherwise")]
            ok = sw["k"] == "switch" and cfg.all_paths_pass(err_t[0], cfg.exits, {s[0] for s in sp})
            for s in sp:
                l = arg_local(s[1], 1)
                ok = ok and l is not None and any(a[0] == "call" and last_seg(a[1]) == "get_pos" for a in fl.origins(l))
        ctx.check(ok, "C03-G1", "parse_with_lexer_ctx#restore", "an error return does not restore the lexer position saved at entry: the next parse "
                  "starts in the middle of the failed object", b["span"], detail="Err => set_pos(saved)")
    p = f.body("parser::_parse_with_lexer_ctx")
    if p is None:
        ctx.lost("C03-G1", "parser::_parse_with_lexer_ctx")
        return
    cfg = CFG(p)
    fl = Flow(p)
    ints = [(i, s) for i, j, s in F.stmts(p) if s[0] == "assign" and s[2][0] == "aggregate" and s[2][1].get("adt") == "primitive::Primitive" and s[2][1].get("variant") == "Integer"]
    sp = [(bi, t) for bi, t in F.calls(p) if last_seg(F.callee_name(t)) == "set_pos"]
    isint = [(bi, t) for bi, t in F.calls(p) if last_seg(F.callee_name(t)) == "is_integer"]
    ctx.floor("C03-G1", len(ints), 2, "Primitive::Integer constructions in the integer branch")
    if isint and sp:
        first = sorted(isint, key=lambda c: sum(1 for d in isint if cfg.dominates(d[0], c[0])))[0]
        for k, (i, s) in enumerate(ints):
            ok = any(cfg.dominates(x[0], i) for x in sp) and cfg.all_paths_pass(first[0], [i], {x[0] for x in sp})
            ctx.check(ok, "C03-G1", "_parse_with_lexer_ctx#integer-rollback-%d" % k,
                      "an integer is returned without rolling the look-ahead back: the following token(s) are swallowed", p["blocks"][i]["term"]["span"],
                      detail="set_pos(pos_bk) before Primitive::Integer")
        region = set()
        for i, s0 in ints:
            region |= {x for x in cfg.reachable_from(first[0]) if cfg.can_reach(x, i)}
        # look-ahead advances: Lexer::next calls that lie between the first lexeme and the integer test / the Integer constructions
        adv = [bi for bi, t in F.calls(p) if last_seg(F.callee_name(t)) == "next" and "Lexer" in F.callee_name(t) and
               (bi in region or (cfg.can_reach(bi, first[0]) and any(cfg.dominates(g0, bi) for g0, gt in F.calls(p) if last_seg(F.callee_name(gt)) == "get_pos")) or
                any(cfg.dominates(bi, i) for i, s0 in ints))]
        firstnext = [bi for bi, t in F.calls(p) if last_seg(F.callee_name(t)) == "next" and "Lexer" in F.callee_name(t) and all(cfg.dominates(bi, i) for i, s0 in ints)]
        firstnext = sorted(firstnext, key=lambda x: sum(1 for y in firstnext if cfg.dominates(y, x)))
        for bi, t in sp:
            l = arg_local(t, 1)
            gps = [a[2] for a in fl.origins(l) if a[0] == "call" and last_seg(a[1]) == "get_pos"] if l is not None else []
            ok = bool(gps)
            ctx.check(ok, "C03-G1", "_parse_with_lexer_ctx#rollback-target", "the roll-back position is not one saved with get_pos()", t["span"], detail="pos_bk = lexer.get_pos()")
            # the saved position is the one right after the first lexeme: only the read of that first lexeme comes before the save
            before = [x for x in firstnext for g in gps if x != g and cfg.dominates(x, g)]
            ctx.check(ok and len(set(before)) <= 1, "C03-G1", "_parse_with_lexer_ctx#rollback-saved-first", "the position is saved after the look-ahead has advanced (%d reads of "
                      "the lexer precede the save): the roll-back lands behind the next token, which is swallowed" % len(set(before)), t["span"],
                      detail="get_pos() directly after the first lexeme")


def rule_lookahead(ctx, f):
    ctx.rule("C03-G2", "the look-ahead after a first integer lexeme does not turn the end of the buffer into an error of the whole parse: no "
             "Lexer::next whose failure is propagated lies between the integer test and Primitive::Integer")
    p = f.body("parser::_parse_with_lexer_ctx")
    if p is None:
        ctx.lost("C03-G2", "parser::_parse_with_lexer_ctx")
        return
    cfg = CFG(p)
    fl = Flow(p)
    isint = [(bi, t) for bi, t in F.calls(p) if last_seg(F.callee_name(t)) == "is_integer"]
    ints = [i for i, j, s in F.stmts(p) if s[0] == "assign" and s[2][0] == "aggregate" and s[2][1].get("adt") == "primitive::Primitive" and s[2][1].get("variant") == "Integer"]
    if not isint or not ints:
        ctx.lost("C03-G2", "integer branch")
        return
    first = sorted(isint, key=lambda c: sum(1 for d in isint if cfg.dominates(d[0], c[0])))[0]
    region = set()
    for i in ints:
        region |= {x for x in cfg.reachable_from(first[0]) if cfg.can_reach(x, i)}
    bad = []
    for bi, t in F.calls(p):
        if bi in region and last_seg(F.callee_name(t)) == "next" and "Lexer" in F.callee_name(t):
            # is the Err of this call propagated? its result is switched on and the Err arm reaches a return without passing Integer
            d = t["dest"][0]
            sw = p["blocks"][t["target"]]["term"] if t.get("target") is not None else None
            if sw and sw["k"] == "switch":
                err_t = [a[1] for a in sw["arms"] if a[0] == 1]
                if err_t and not cfg.all_paths_pass(err_t[0], cfg.exits, set(ints)):
                    bad.append(t["span"])
    # the look-ahead reads through Lexer::peek, which has to turn the end of the buffer into an empty lexeme itself
    pk = f.body("parser::lexer::Lexer::<'a>::peek")
    if pk is None:
        ctx.lost("C03-G2", "Lexer::peek")
    else:
        pcfg = CFG(pk)
        ev = {v["name"]: v["vi"] for v in f.adts.get("error::PdfError", {}).get("variants", [])}.get("EOF")
        okp = False
        for i, bb in enumerate(pk["blocks"]):
            tt = bb["term"]
            if tt["k"] != "switch":
                continue
            dl = F.op_local(tt["discr"])
            for st in bb["stmts"]:
                if st[0] == "assign" and st[1] == [dl] and st[2][0] == "discr" and any(e[0] == "downcast" and e[1] == "Err" for e in st[2][1][1:]):
                    arms = {a[0]: a[1] for a in tt["arms"]}
                    tgt = arms.get(ev)
                    if tgt is not None:
                        reach = pcfg.reachable_from(tgt, avoid={i}) | {tgt}
                        oks = [r for r in reach for s2 in pk["blocks"][r]["stmts"] if s2[0] == "assign" and s2[1] == [0] and s2[2][0] == "aggregate" and s2[2][1].get("variant") == "Ok"]
                        errs = [r for r in reach for s2 in pk["blocks"][r]["stmts"] if s2[0] == "assign" and s2[1] == [0] and s2[2][0] == "aggregate" and s2[2][1].get("variant") == "Err"]
                        okp = bool(oks) and not errs
        ctx.check(okp, "C03-G2", "Lexer::peek#eof-empty", "Lexer::peek hands the end of the buffer on as an error instead of an empty lexeme: the look-ahead after an integer "
                  "that ends the buffer fails the whole parse", pk["span"], detail="Err(EOF) => Ok(empty lexeme)")
    ctx.check(not bad, "C03-G2", "_parse_with_lexer_ctx#eof-tolerant-lookahead",
              "the reference look-ahead fails the parse at the end of the buffer (%s): a bare integer as the last token (e.g. the last member of an "
              "object stream, or `42` alone) cannot be parsed" % bad, p["span"], detail="look-ahead uses peek (EOF -> empty lexeme)")


def rule_eof_token(ctx, f, rule="C03-G4"):
    ctx.rule(rule, "a token that runs up to the end of the buffer is a token: inside the scanning loops of the lexer (Lexer::next_word and the private "
             "helpers it calls) the failure of the bounded advance ends the loop and is never handed on as the error of the read")
    nw = f.body("parser::lexer::Lexer::<'a>::next_word")
    if nw is None:
        ctx.lost(rule, "Lexer::next_word")
        return
    # next_word and the Lexer methods it calls (an extracted `scan to the end of the run` helper)
    bodies = [nw]
    for bi, t in F.calls(nw):
        cb = f.bodies.get(t.get("resolved") or "")
        if cb is not None and t.get("resolved_local") and cb["id"].startswith("parser::lexer::Lexer::") and cb not in bodies:
            bodies.append(cb)
    n = 0
    for b in bodies:
        cfg = CFG(b)
        fl = Flow(b)
        loops = cfg.loops()
        adv = [(bi, t) for bi, t in F.calls(b) if t.get("resolved_local") and t.get("dest") and b["locals"][t["dest"][0]]["s"].startswith("std::result::Result<usize")
               and any(bi in body and any(x in body and last_seg(F.callee_name(tt)) in ("is_delimiter", "is_whitespace", "is_regular") for x, tt in F.calls(b))
                       for body in loops.values())]
        resid = [(bi, t) for bi, t in F.calls(b) if last_seg(F.callee_name(t)) == "from_residual"]
        for k, (bi, t) in enumerate(sorted(adv)):
            n += 1
            handed_on = False
            for rb, rt in resid:
                l = F.op_local(rt["args"][0])
                if l is not None and any(a[0] == "call" and a[2] == bi for a in fl.origins(l, passthrough=("branch",))):
                    handed_on = True
            ctx.check(not handed_on, rule, "%s#loop-advance@%d" % (b["id"].split("::")[-1], k), "the end of the buffer inside a token is returned as an error (`?` on the bounded "
                      "advance in a scanning loop): a name or number that is the last thing in the buffer - the last member of an object stream, `parse(b\"/Name\")` - cannot be read",
                      t["span"], detail="Err(_) => break")
        # a token ends at white-space AND at a delimiter: every scanning loop tests both classes (`/A/B`, `<</K[1]>>` need no separator)
        for h, body in loops.items():
            if not any(bi in body for bi, t in adv):
                continue
            tests = {last_seg(F.callee_name(tt)) for x, tt in F.calls(b) if x in body}
            both = ("is_whitespace" in tests and "is_delimiter" in tests) or "is_regular" in tests
            ctx.check(both, rule, "%s#loop-classes@%d" % (b["id"].split("::")[-1], sorted(loops).index(h)), "a token-scanning loop of the lexer stops at %s only: a name or number runs "
                      "on through the other class, so tokens written without a separator fuse" % sorted(tests & {"is_whitespace", "is_delimiter"}),
                      b["blocks"][h]["term"].get("span", b["span"]), detail="while !is_whitespace(pos) && !is_delimiter(pos)")
        # the end of the buffer leaves the lexer as the bare EOF error: Lexer::peek turns exactly that into "no more tokens" (an integer or a
        # dictionary at the end of a member slice is followed by nothing).  An error wrapped on the way (`t!(..)` -> PdfError::Try) is not
        # recognised there
        wraps = [st for i_, j_, st in F.stmts(b) if st[0] == "assign" and st[2][0] == "aggregate" and st[2][1].get("adt") == "error::PdfError" and st[2][1].get("variant") in ("Try", "Other", "Shared")]
        ctx.check(not wraps, rule, "%s#eof-unwrapped" % b["id"].split("::")[-1], "the token scanner wraps an error on its way out (PdfError::%s): the end of the buffer no longer reaches "
                  "Lexer::peek as plain EOF, so a value followed only by white-space or a comment at the end of the data fails to parse" % (wraps[0][2][1].get("variant") if wraps else ""),
                  b["span"], detail="errors of the scanner are handed on unchanged")
    ctx.floor(rule, n, 1, "bounded advances inside the token-scanning loops of the lexer")


def _var_of(b, fl, l, depth=0):
    """the user variable (or parameter) a temporary is a copy / re-borrow of"""
    if l is None or depth > 6:
        return l
    ds = fl.defs.get(l, [])
    if len(ds) == 1 and ds[0][0] == "assign" and not (1 <= l <= b["argc"]):
        rv = ds[0][2]
        if rv[0] == "use" and rv[1][0] in ("copy", "move") and len(rv[1][1]) == 1:
            return _var_of(b, fl, rv[1][1][0], depth + 1)
        if rv[0] in ("ref", "rawptr") and len(rv[1]) == 2 and rv[1][1][0] == "deref":
            return _var_of(b, fl, rv[1][0], depth + 1)
        if rv[0] in ("ref", "rawptr") and len(rv[1]) == 1:
            return _var_of(b, fl, rv[1][0], depth + 1)
    return l


def rule_value_flow(ctx, f):
    ctx.rule("C03-G5", "the cursor can reach the end of the buffer (set_pos clamps to buf.len() itself), and the name decoder cuts the literal run "
             "before a #xx escape out of the remainder it searched, not out of another slice")
    sp = f.body("parser::lexer::Lexer::<'a>::set_pos")
    if sp is None:
        ctx.lost("C03-G5", "Lexer::set_pos")
    else:
        fl = Flow(sp)
        mins = [(bi, t) for bi, t in F.calls(sp) if last_seg(F.callee_name(t)) == "min"]
        ctx.floor("C03-G5", len(mins), 1, "clamp in Lexer::set_pos")
        for bi, t in mins:
            ok = False
            for a in t["args"]:
                l = F.op_local(a)
                ats = fl.origins(l, passthrough=()) if l is not None else []
                if any(x[0] == "call" and last_seg(x[1]) == "len" for x in ats) and not any(x[0] == "binop" or (x[0] == "call" and last_seg(x[1]) != "len") for x in ats):
                    ok = True
            ctx.check(ok, "C03-G5", "set_pos#clamp", "set_pos does not clamp to buf.len() itself: a position one short of the end means the end of the input is never "
                      "reported, and the last token of a buffer is read again and again", t["span"], detail="wanted.min(self.buf.len())")
    dn = f.body("parser::decode_name")
    if dn is None:
        ctx.lost("C03-G5", "parser::decode_name")
        return
    fl = Flow(dn)
    searched = set()
    for bi, t in F.calls(dn):
        if last_seg(F.callee_name(t)) == "position" and t["args"]:
            il = F.op_local(t["args"][0])
            for a in fl.origins(il) if il is not None else []:
                if a[0] == "call" and last_seg(a[1]) == "iter" and a[3]["args"]:
                    searched.add(_var_of(dn, fl, F.op_local(a[3]["args"][0])))
    cut = set()
    ncut = 0
    for bi, t in F.calls(dn):
        if last_seg(F.callee_name(t)) == "index" and len(t["args"]) == 2 and "RangeTo<usize>" in t["arg_tys"][1]["s"]:
            ncut += 1
            cut.add(_var_of(dn, fl, F.op_local(t["args"][0])))
    ctx.floor("C03-G5", ncut, 1, "literal run cut in decode_name")
    ctx.check(bool(searched) and cut <= searched, "C03-G5", "decode_name#run-source", "the text before an escape is cut from another slice than the one the `#` was searched in "
              "(%s vs %s): with two escapes in a name the text between them is replaced by the beginning of the name" % (sorted(map(str, cut)), sorted(map(str, searched))),
              dn["span"], detail="&rest[..idx] where idx = rest.iter().position(..)")


def rule_consumption(ctx, f):
    ctx.rule("C03-G3", "the string and hex-string branches advance the lexer by exactly the scanner's get_offset()")
    p = f.body("parser::_parse_with_lexer_ctx")
    if p is None:
        return
    fl = Flow(p)
    offs = [(bi, t) for bi, t in F.calls(p) if last_seg(F.callee_name(t)) == "offset_pos"]
    ctx.floor("C03-G3", len(offs), 2, "offset_pos calls (literal and hex string)")
    kinds = set()
    for bi, t in offs:
        l = arg_local(t, 1)
        ats = fl.origins(l, passthrough=()) if l is not None else []
        go = [a for a in ats if a[0] == "call" and last_seg(a[1]) == "get_offset"]
        arith = [a for a in ats if a[0] == "binop"]
        ok = len(go) == 1 and not arith
        if go:
            kinds.add("Hex" if "Hex" in go[0][1] else "Str")
        ctx.check(ok, "C03-G3", "_parse_with_lexer_ctx#advance-%s" % ("hex" if go and "Hex" in go[0][1] else "str"),
                  "the lexer is not advanced by exactly the scanner's offset (next object starts at the wrong byte)", t["span"], detail="offset_pos(scanner.get_offset())")
    ctx.check(kinds == {"Hex", "Str"}, "C03-G3", "_parse_with_lexer_ctx#both-scanners", "scanner kinds: %s" % sorted(kinds), detail="both string kinds")
    # the scanner works on what follows the opening delimiter: its buffer is the lexer's remaining slice taken AFTER the first lexeme was read
    # (the offset it reports is added to that position)
    cfg = CFG(p)
    nexts = sorted(bi for bi, t in F.calls(p) if last_seg(F.callee_name(t)) == "next" and "Lexer" in F.callee_name(t))
    news = [(bi, t) for bi, t in F.calls(p) if last_seg(F.callee_name(t)) == "new" and "StringLexer" in F.callee_name(t)]
    ctx.floor("C03-G3", len(news), 2, "string scanners created in the object parser")
    for bi, t in news:
        l = arg_local(t, 0)
        src = [a[2] for a in fl.origins(l, passthrough=()) if a[0] == "call" and last_seg(a[1]) == "get_remaining_slice"] if l is not None else []
        first = [n_ for n_ in nexts if all(cfg.dominates(n_, m_) or n_ == m_ for m_ in nexts if cfg.dominates(m_, bi) or m_ == n_)]
        ok = len(src) == 1 and bool(nexts) and any(cfg.dominates(n_, src[0]) for n_ in nexts)
        ctx.check(ok, "C03-G3", "_parse_with_lexer_ctx#scanner-buffer-%s" % ("hex" if "Hex" in F.callee_name(t) else "str"), "the string scanner is not created on the lexer's "
                  "remaining slice taken after the opening delimiter was read (sources: %d): it starts at the delimiter itself, nesting and the reported offset are off"
                  % len(src), t["span"], detail="Scanner::new(lexer.get_remaining_slice()) after lexer.next()")


def run(ctx):
    f = F.load("default")
    ctx.count("bodies", len(f.bodies))
    rule_classes(ctx, f)
    rule_string(ctx, f)
    rule_hexstring(ctx, f)
    rule_names_numbers(ctx, f)
    rule_rollback(ctx, f)
    rule_lookahead(ctx, f)
    rule_eof_token(ctx, f)
    rule_value_flow(ctx, f)
    rule_consumption(ctx, f)
    return ctx.finish(
        "Static analysis of MIR facts of the lexer / object parser: byte classes and escape tables extracted exactly (set refinement over "
        "the 256 byte values, SwitchInt arm tables, constants compared) and compared with ISO 32000-1 (spec/iso32000.json); dominance / "
        "must-pass-through of the position restore and of the look-ahead roll-back; propagation of look-ahead failures; provenance of the "
        "advance after a string. Values denoted by tokens (numeric conversion), all adjacent-token pairs and stream bodies are not decided.",
        ["rustc nightly MIR construction", "mirx exporter", "spec/iso32000.json transcribed from ISO 32000-1 7.2-7.3"])
