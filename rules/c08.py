"""C08 — content-stream operators round-trip and mean what the operator table says.

Decided (syntax tree of the dispatcher / serializer, joined with MIR; oracle = ISO 32000-1
Annex A as transcribed in spec/operators.json, and the sibling table):
  TABLE  every operator of Annex A is an arm of the reader; its operand readers (count, kind,
         order) and the Op sequence it pushes equal the table's row; enumerated operands map as
         the specification says;
  SIB    every arm of the writer emits a keyword the reader knows, and the Op pattern it consumes
         (incl. look-ahead merges s b b* ' " TD) equals what the reader pushes for that keyword;
         operand writers agree in kind and order with the operand readers; a guarded merge relates
         the same fields the reader relates;
  G1     reader arms that consume an end point set the current point, the writer tracks it in the
         matching arms;
  G2     the operand iterator handed to the dispatcher is a full drain of the operand buffer;
  ADJ    token adjacency / vocabulary of serialize_ops.
Not decided: numeric formatting of operands, inline-image data.
"""
import json
import os
import re
import facts as F
from cfg import CFG
from flow import Flow, call_sites, arg_local, last_seg
import adj

HERE = os.path.dirname(os.path.abspath(__file__))
SPEC = json.load(open(os.path.join(HERE, "..", "spec", "operators.json")))["operators"]

READ_KINDS = {"name": ["N"], "number": ["n"], "string": ["s"], "point": ["n", "n"], "rect": ["n"] * 4, "rgb": ["n"] * 3,
              "cmyk": ["n"] * 4, "matrix": ["n"] * 6, "array": ["a"]}
MACRO_KINDS = {"names": "N", "numbers": "n", "points": "nn"}
DISPLAY_KINDS = {"f32": ["n"], "&f32": ["n"], "u8": ["i"], "content::Point": ["n", "n"], "content::Matrix": ["n"] * 6, "content::Rgb": ["n"] * 3,
                 "content::Cmyk": ["n"] * 4, "content::ViewRect": ["n"] * 4}


def norm(s):
    return re.sub(r"\s+", "", s or "")


def find_match(n, min_arms):
    if isinstance(n, dict):
        if n.get("k") == "match" and len(n["arms"]) >= min_arms:
            return n
        for v in n.values():
            r = find_match(v, min_arms)
            if r:
                return r
    elif isinstance(n, list):
        for v in n:
            r = find_match(v, min_arms)
            if r:
                return r
    return None


LOCAL_FNS = {}
_INLINING = []
_BIND = []


def walk_nodes(n):
    """all nodes of a syntax subtree in source order"""
    if isinstance(n, dict):
        yield n
        for k in n:
            if isinstance(n[k], (dict, list)):
                yield from walk_nodes(n[k])
    elif isinstance(n, list):
        for x in n:
            yield from walk_nodes(x)


def events(n, out):
    """evaluation-order walk of an arm body collecting reader / writer events"""
    if isinstance(n, list):
        for x in n:
            events(x, out)
        return
    if not isinstance(n, dict):
        return
    k = n.get("k")
    if k == "macro":
        nm = n["name"]
        if nm in MACRO_KINDS:
            cnt = len(n["args"]) - 1
            for _ in range(cnt):
                for ch in MACRO_KINDS[nm]:
                    out.append(("read", ch if ch != "N" else "N"))
            out.append(("bind", [a.strip() for a in n["args"][1:]], nm))
            return
        if nm in ("write", "writeln"):
            if _BIND and n.get("fmt"):
                # inside an inlined helper: a placeholder filled with a parameter that the call site binds to a string literal
                # (`serialize_color_operands(args, "SCN", f)` ... `writeln!(f, "{}", operator)`) is that literal
                sub = {}
                rest = [a.strip() for a in n["args"]]       # the arguments after the format string
                for i, a_ in enumerate(rest):
                    if a_ in _BIND[-1]:
                        sub[i] = _BIND[-1][a_]
                if sub:
                    n = dict(n, subst=sub)
            out.append(("write", n))
            return
        if nm in ("bail", "err", "unimplemented"):
            out.append(("error", nm))
            return
        events(n.get("arg_trees"), out)
        return
    if k == "call":
        fn = norm(n["func"])
        if fn in READ_KINDS and any("args" in norm(a) for a in n["args"]):
            for ch in READ_KINDS[fn]:
                out.append(("read", ch))
            return
        if fn == "push":
            arg = n["arg_trees"][0] if n["arg_trees"] else None
            if arg is not None:
                events(arg, out)     # operand reads inside the struct literal come first
                out.append(("push", arg))
            return
        if fn == "serialize_name":
            out.append(("wname", n))
            return
        if fn == "inline_image":
            out.append(("read", "inline-image"))
            return
        events(n.get("arg_trees"), out)
        # a private helper of the same file (e.g. the operand loop shared by two arms): its events happen here
        if fn in LOCAL_FNS and fn not in _INLINING and len(_INLINING) < 3:
            _INLINING.append(fn)
            bind = {}
            for prm, arg in zip(LOCAL_FNS[fn].get("params") or [], n["args"]):
                mm = re.match(r'^\s*"((?:[^"\\]|\\.)*)"\s*$', arg)
                if mm and ":" in prm:
                    bind[prm.split(":")[0].strip()] = mm.group(1)
            _BIND.append(bind)
            try:
                events(LOCAL_FNS[fn]["body"], out)
            finally:
                _INLINING.pop()
                _BIND.pop()
        return
    if k == "mcall":
        recv = norm(n["recv"])
        m = n["method"]
        if m == "next" and recv == "args":
            out.append(("read", "x"))
            return
        if m == "collect" and recv == "args":
            out.append(("read", "x*"))
            return
        if m == "serialize":
            out.append(("wserialize", n))
            return
        events(n.get("recv_tree"), out)
        # refine the kind of a raw `args.next()` by the conversion applied to it
        if m in ("as_integer", "as_number", "as_array", "into_name", "into_string", "as_name") and out and out[-1] == ("read", "x"):
            out[-1] = ("read", {"as_integer": "i", "as_number": "n", "as_array": "a", "into_name": "N", "into_string": "s", "as_name": "N"}[m])
        events(n.get("arg_trees"), out)
        return
    if k == "assign":
        events(n.get("right"), out)
        out.append(("assign", norm(n["left"]), norm(n.get("right_text"))))
        # `x = x + 2` is `x += 2`; `x = 2` sets it
        mm = re.match(r"^(\w+)\+(\d+)$", norm(n.get("right_text")))
        if mm and mm.group(1) == norm(n["left"]):
            out.append(("addassign", norm(n["left"]), "+=", mm.group(2)))
        elif re.match(r"^\d+$", norm(n.get("right_text") or "")):
            out.append(("addassign", norm(n["left"]), "=", norm(n["right_text"])))
        return
    if k == "binary" and norm(n.get("op", "")) in ("+=", "-="):
        events(n.get("r"), out)
        out.append(("addassign", norm(n["text"]).split(norm(n["op"]))[0], norm(n["op"]), norm(n["text"]).split(norm(n["op"]), 1)[1]))
        return
    if k == "match":
        before = len(out)
        events(n.get("on_tree"), out)
        # `match args.next() { Some(Primitive::Array(arr)) => .., None => .., _ => Err }`: the patterns say which kind of operand is taken
        if len(out) == before + 1 and out[-1] == ("read", "x"):
            pats = " ".join(norm(a.get("pat", "")) for a in n.get("arms", []))
            kinds = {kk for pp, kk in (("Primitive::Array", "a"), ("Primitive::Name", "N"), ("Primitive::String", "s"), ("Primitive::Integer", "n"), ("Primitive::Number", "n"))
                     if pp in pats}
            if len(kinds) == 1:
                out[-1] = ("read", kinds.pop())
        out.append(("match", n))
        return
    if k == "if":
        out.append(("if", n))
        return
    if k in ("for", "while", "loop"):
        events(n.get("iter_tree") or n.get("cond_tree"), out)
        out.append(("loop", n))
        return
    if k == "let":
        events(n.get("init"), out)
        return
    if k == "block":
        events(n["stmts"], out)
        return
    if k == "struct":
        for fl in n["fields"]:
            events(fl["e"], out)
        return
    for key in ("e", "l", "r", "elems", "body", "right"):
        if key in n:
            events(n[key], out)


def op_desc(tree):
    """'Variant' or 'Variant:Const' for a pushed Op expression; + field map"""
    if tree.get("k") == "path":
        return norm(tree["text"]).replace("Op::", ""), {}
    if tree.get("k") == "struct":
        v = norm(tree["path"]).replace("Op::", "")
        fields = {f["name"]: f["e"] for f in tree["fields"]}
        qual = None
        if "winding" in fields:
            qual = norm(fields["winding"].get("text", "")).split("::")[-1]
        if "color" in fields:
            ct = fields["color"]
            txt = norm(ct.get("text", "") or ct.get("func", ""))
            if ct.get("k") == "call":
                txt = norm(ct["func"])
            m = re.match(r"Color::(\w+)", txt)
            if m:
                qual = m.group(1)
            elif ct.get("k") == "path":
                qual = "var:" + txt
        return (v + (":" + qual if qual else "")), fields
    return "?", {}


def parse_keys(pat):
    keys = []
    for part in pat.split("|"):
        part = part.strip()
        m = re.match(r'^"((?:[^"\\]|\\.)*)"$', part)
        if m:
            keys.append(bytes(m.group(1), "utf-8").decode("unicode_escape"))
    return keys


def reader_table(ast):
    fns = ast.find("pdf/src/content.rs", "add")
    if not fns:
        return None, None
    m = find_match(fns[0]["body"], 40)
    if m is None:
        return None, None
    table = {}
    for a in m["arms"]:
        keys = parse_keys(a["pat"])
        ev = []
        events(a["body"], ev)
        # local variable kinds: let color = Color::Cmyk(cmyk(..)) -> resolve 'var:color'
        reads = [e[1] for e in ev if e[0] == "read"]
        pushes = [op_desc(e[1]) for e in ev if e[0] == "push"]
        text = json.dumps(a["body"])
        ops = []
        for d, fields in pushes:
            if ":var:" in d:
                var = d.split(":var:")[1]
                q = "?"
                for st in (a["body"].get("stmts") or []):
                    if st.get("k") == "let" and norm(st.get("pat")) == var:
                        mm = re.search(r"Color\s*::\s*(\w+)", st.get("init_text") or "")
                        if mm:
                            q = mm.group(1)
                d = d.split(":var:")[0] + ":" + q
            ops.append((d, fields))
        assigns = [(e[1], e[2]) for e in ev if e[0] == "assign"]
        errors = [e for e in ev if e[0] == "error"]
        for k in keys:
            table[k] = {"reads": reads, "ops": ops, "assigns": assigns, "errors": errors, "line": a["line"], "events": ev, "body": a["body"]}
    return table, m


def rule_table(ctx, f, ast, rt):
    ctx.rule("C08-TABLE", "every operator of ISO 32000-1 Annex A has a reader arm whose operand readers (count, kind, order) and pushed Op sequence "
             "equal the table's row; enumerated integer operands (j, J, Tr) map as specified")
    ctx.floor("C08-TABLE", len(rt), 70, "operator keywords in the dispatcher")
    for op, row in sorted(SPEC.items()):
        key = "OpBuilder::add#" + op
        got = rt.get(op)
        if got is None:
            ctx.bad("C08-TABLE", key, "operator `%s` of Annex A has no arm in the dispatcher: it is reported as invalid / dropped" % op)
            continue
        want_ops = row["ops"]
        got_ops = [d for d, _ in got["ops"]]
        ok_ops = got_ops == want_ops
        if isinstance(row["operands"], list):
            ok_reads = got["reads"] == row["operands"]
        elif row["operands"] == "inline-image":
            ok_reads = got["reads"] == ["inline-image"]
        elif row["operands"] == "error-outside-BI":
            ok_reads = bool(got["errors"]) and not got_ops
        else:
            ok_reads = True
        ctx.check(ok_ops, "C08-TABLE", key + ".ops",
                  "`%s` pushes %s, the operator table defines %s" % (op, got_ops, want_ops), "pdf/src/content.rs:%d" % got["line"],
                  detail="`%s` -> %s" % (op, want_ops))
        ctx.check(ok_reads, "C08-TABLE", key + ".operands",
                  "`%s` reads operands %s, the operator table defines %s" % (op, got["reads"], row["operands"]), "pdf/src/content.rs:%d" % got["line"],
                  detail="`%s` operands %s" % (op, row["operands"]))
        if "operand_names" in row:
            # operands bound one by one (`points!(args, c1, c2, p)`): the k-th operand fills the field the table names k-th
            bound = [x for e in got["events"] if e[0] == "bind" for x in e[1]]
            field_of = {}
            def _fields(tree):
                if isinstance(tree, dict):
                    if tree.get("k") == "struct":
                        for fl_ in tree["fields"]:
                            tx = norm(fl_["e"].get("text", "")) if isinstance(fl_["e"], dict) else ""
                            if re.match(r"^[a-z_][a-z0-9_]*$", tx):
                                field_of.setdefault(tx, set()).add(fl_["name"])
                    for v_ in tree.values():
                        _fields(v_)
                elif isinstance(tree, list):
                    for v_ in tree:
                        _fields(v_)
            for e in got["events"]:
                if e[0] == "push":
                    _fields(e[1])
            got_names = [sorted(field_of.get(x, {x})) for x in bound]
            ctx.check(len(got_names) == len(row["operand_names"]) and all(w_ in g_ for w_, g_ in zip(row["operand_names"], got_names)), "C08-TABLE", key + ".operand-order",
                      "`%s` binds its operands to %s, the operator's definition gives %s" % (op, got_names, row["operand_names"]), "pdf/src/content.rs:%d" % got["line"],
                      detail="operands fill %s in this order" % row["operand_names"])
        if "fields" in row:
            for d, fields in got["ops"]:
                want_f = row["fields"].get(d.split(":")[0])
                if want_f:
                    have = {k: norm(v.get("text", "")) for k, v in fields.items()}
                    ctx.check(have == want_f, "C08-TABLE", key + ".fields-" + d.split(":")[0],
                              "`%s` builds %s with %s, the operator's definition gives %s" % (op, d, have, want_f), "pdf/src/content.rs:%d" % got["line"],
                              detail="`%s`: %s%s" % (op, d, want_f))
        if "enum" in row:
            # inner match: integer literal -> variant
            inner = find_match(got["body"], 2)
            emap = {}
            if inner:
                for a in inner["arms"]:
                    p = norm(a["pat"])
                    if p.isdigit():
                        emap[p] = norm(json.dumps(a["body"])).split("\"text\":\"")[-1].split("\"")[0].split("::")[-1] if a["body"].get("k") == "path" else norm(a["body"].get("text", ""))
                        if a["body"].get("k") == "path":
                            emap[p] = norm(a["body"]["text"]).split("::")[-1]
            for val, name in row["enum"].items():
                ctx.check(emap.get(val) == name, "C08-TABLE", key + ".enum-" + val,
                          "`%s %s` selects %s (specification: %s)" % (val, op, emap.get(val, "an error"), name), "pdf/src/content.rs:%d" % got["line"],
                          detail="%s %s -> %s" % (val, op, name))
    # fields filled in operand order (e.g. Tf: name then size)
    for op in ("Tf", "BDC", "DP", "\""):
        got = rt.get(op)
        if got and isinstance(SPEC[op]["operands"], list):
            pass
    extra = sorted(set(rt) - set(SPEC))
    for k in extra:
        ctx.note("reader accepts the non-standard operator %r" % k)


def writer_table(ast, a):
    fns = ast.find("pdf/src/content.rs", "serialize_ops")
    if not fns:
        return None
    m = find_match(fns[0]["body"], 40)
    if m is None:
        return None
    rows = []

    def leaf(pattern_ops, guard, body, line):
        ev = []
        events(body, ev)
        # nested match / if-let on the look-ahead
        subs = [e for e in ev if e[0] in ("match", "if")]
        if subs:
            for e in subs:
                n = e[1]
                if e[0] == "match":
                    for arm in n["arms"]:
                        look = lookahead_ops(arm["pat"])
                        leaf(pattern_ops + look, arm.get("guard"), arm["body"], arm["line"])
                else:
                    cond = n.get("cond", "")
                    # a look-ahead: `if let [Op::X {..}, ..] = ops[1..]` (or `= *rest` after split_first): a slice pattern of Op variants
                    mm = re.match(r"^\s*let\s+(.*?)\s*=\s*ops\s*\[", cond) or re.match(r"^\s*let\s+(\[.*?Op\s*::.*\])\s*=\s*[^=]", cond)
                    if mm:
                        leaf(pattern_ops + lookahead_ops(mm.group(1)), None, n["then"], n["line"])
                        if n.get("else"):
                            leaf(pattern_ops, None, n["else"], n["line"])
                    else:
                        # a value test (v / y shorthands): both branches are leaves of the same pattern
                        leaf(pattern_ops + [("cond", norm(cond))], None, n["then"], n["line"])
                        if n.get("else"):
                            leaf(pattern_ops + [("cond", "not:" + norm(cond))], None, n["else"], n["line"])
            return
        writes = [e for e in ev if e[0] in ("write", "wname", "wserialize", "loop", "error")]
        rows.append({"ops": pattern_ops, "guard": guard, "events": ev, "writes": writes, "line": line})

    for arm in m["arms"]:
        first = lookahead_ops(arm["pat"])
        leaf(first, arm.get("guard"), arm["body"], arm["line"])
    return rows


def lookahead_ops(pat):
    """Op variants (with qualifiers) named in a pattern, in order"""
    out = []
    for mm in re.finditer(r"Op\s*::\s*(\w+)\s*(\{[^{}]*(?:\{[^{}]*\}[^{}]*)*\})?", pat):
        v = mm.group(1)
        body = mm.group(2) or ""
        q = None
        w = re.search(r"Winding\s*::\s*(\w+)", body)
        if w:
            q = w.group(1)
        c = re.search(r"Color\s*::\s*(\w+)", body)
        if c:
            q = c.group(1)
        out.append(v + (":" + q if q else ""))
    return out


def keyword_of(row, a, f):
    """(keyword, operand kinds) of a writer leaf"""
    kinds = []
    kw = None
    for e in row["events"]:
        if e[0] == "wname":
            kinds.append("N")
        elif e[0] == "wserialize":
            recv = norm(e[1]["recv"])
            kinds.append("s" if recv in ("text", "data") else "x")
        elif e[0] == "loop":
            kinds.append("x*")
        elif e[0] == "write":
            n = e[1]
            fmt = n.get("fmt") or ""
            types = a.join.display_types("pdf/src/content.rs", n["line"], n["col"])
            ti = 0
            for part in re.split(r"(\{[^{}]*\})", fmt):
                if part.startswith("{") and ti in (n.get("subst") or {}):
                    for w in [w for w in re.split(r"[\s\[\]]+", n["subst"][ti]) if w]:
                        kw = w
                    ti += 1
                elif part.startswith("{"):
                    if ti < len(types):
                        ty = types[ti][1].strip()
                        kinds += DISPLAY_KINDS.get(ty, DISPLAY_KINDS.get(ty.lstrip("&"), ["?:" + ty]))
                    else:
                        kinds.append("?")
                    ti += 1
                else:
                    words = [w for w in re.split(r"[\s\[\]]+", part) if w]
                    if "[" in part:
                        kinds.append("[")
                    for w in words:
                        kw = w
        elif e[0] == "error":
            kw = "<error>"
    return kw, kinds


def rule_sib(ctx, f, ast, rt, a):
    ctx.rule("C08-SIB", "every leaf of the serializer writes a keyword the reader knows; the Op pattern it consumes equals the Op sequence the reader "
             "pushes for that keyword; operand kinds and order agree; a guarded merge relates the fields the reader relates")
    rows = writer_table(ast, a)
    if rows is None:
        ctx.lost("C08-SIB", "match on ops[0] in serialize_ops")
        return
    ctx.floor("C08-SIB", len(rows), 60, "leaves of the serializer")
    seen_variants = set()
    # the cursor of the serializer: `ops = &ops[advance..]` after the match, `let mut advance = 1` before it
    adv = None
    sfn = ast.find("pdf/src/content.rs", "serialize_ops")[0]
    for nd in walk_nodes(sfn["body"]):
        if nd.get("k") == "assign" and norm(nd.get("left", "")) == "ops":
            mm = re.match(r"^&ops\[(\w+)\.\.\]$", norm(nd.get("right_text", "")))
            if mm:
                adv = mm.group(1)
    adv_init = None
    for nd in walk_nodes(sfn["body"]):
        if adv and nd.get("k") == "let" and norm(nd.get("pat", "")) in ("mut" + adv, adv) and isinstance(nd.get("init"), dict) and nd["init"].get("k") == "lit":
            adv_init = norm(nd["init"]["text"])
    if not ctx.check(adv is not None and adv_init == "1", "C08-SIB", "serialize_ops#cursor", "the serializer's cursor over the Op slice was not found (`let mut advance = 1; .. ops = &ops[advance..]`)",
                     "pdf/src/content.rs:%d" % sfn["line"], detail="ops = &ops[%s..], %s starts at 1" % (adv, adv)):
        adv = None
    for row in rows:
        kw, kinds = keyword_of(row, a, f)
        pat = [o for o in row["ops"] if not isinstance(o, tuple)]
        conds = [o[1] for o in row["ops"] if isinstance(o, tuple)]
        if adv is not None and kw != "<error>":
            # a leaf that writes k operations as one operator moves the cursor over all k of them (1 + the sum of its `advance += n`)
            incs = [e for e in row["events"] if e[0] == "addassign" and e[1] == adv]
            tot = 1
            okc = True
            for e in incs:
                if e[2] == "+=" and e[3].isdigit():
                    tot += int(e[3])
                elif e[2] == "=" and e[3].isdigit():
                    tot = int(e[3])
                else:
                    okc = False
            ctx.check(okc and tot == len(pat), "C08-SIB", "serialize_ops#%s%s.consumed" % ("+".join(pat), ("?" + "&".join(o[1] for o in row["ops"] if isinstance(o, tuple))) if conds else ""),
                      "the leaf writes the %d operation(s) %s as one operator but moves the cursor by %d: the operations it merged are written again (or one is skipped)"
                      % (len(pat), pat, tot), "pdf/src/content.rs:%d" % row["line"], detail="cursor += %d for %s" % (tot, pat))
        seen_variants.add(pat[0].split(":")[0] if pat else "?")
        key = "serialize_ops#%s%s" % ("+".join(pat), ("?" + "&".join(conds)) if conds else "")
        where = "pdf/src/content.rs:%d" % row["line"]
        if kw == "<error>":
            ctx.ok("C08-SIB", key, "rejected by the serializer (accepted: the property quantifies over sequences the serializer accepts)")
            continue
        if kw is None or kw not in rt:
            ctx.bad("C08-SIB", key, "the serializer writes the keyword %r, which the reader does not know" % kw, where)
            continue
        r = rt[kw]
        r_ops = [d for d, _ in r["ops"]]
        # a pattern without a qualifier (catch-all `_`) is compared on the variant names only
        def strip_q(xs):
            return [x.split(":")[0] for x in xs]
        same = pat == r_ops or (strip_q(pat) == strip_q(r_ops) and all(":" not in p or p == q for p, q in zip(pat, r_ops)))
        ctx.check(same, "C08-SIB", key + ".pattern",
                  "`%s` is written for the Op pattern %s but read back as %s" % (kw, pat, r_ops), where, detail="%s <-> `%s`" % (pat, kw))
        # operand kinds
        rk = list(r["reads"])
        wk = [k for k in kinds if k != "["]
        if "[" in kinds:
            # `[ ... ]` written inline is one array operand
            idx = kinds.index("[")
            wk = kinds[:idx] + ["a"] + [k for k in kinds[idx + 1:] if k not in ("n", "s", "x", "x*")][:0] + kinds_after_array(kinds, idx)
        ok_kinds = compatible(wk, rk)
        ctx.check(ok_kinds, "C08-SIB", key + ".operands",
                  "`%s` is written with operands %s but the reader takes %s" % (kw, wk, rk), where, detail="operands %s" % rk)
        # which value goes where: when the serializer prints the fields under the names the reader fills (same identifiers), the order of the
        # printed operands is the order in which the reader takes them
        wnames = []
        simple = True
        for e0 in row["writes"]:
            if e0[0] == "write":
                for a0 in e0[1].get("args", []):
                    if re.match(r"^[a-z_][a-z0-9_]*$", a0):
                        wnames.append(a0)
                    else:
                        simple = False
            elif e0[0] == "wserialize":
                rv0 = e0[1].get("recv", "")
                if re.match(r"^[a-z_][a-z0-9_]*$", rv0):
                    wnames.append(rv0)
                else:
                    simple = False
            elif e0[0] in ("wname", "loop"):
                simple = False
        enames = [fn0 for d0, fl0 in r["ops"] for fn0, fe0 in fl0.items() if fe0.get("text") in (None, fn0)]
        if simple and wnames and set(wnames) == set(enames) and len(wnames) == len(enames):
            ctx.check(wnames == enames, "C08-SIB", key + ".operand-order", "`%s` is written with the operands in the order %s, the reader assigns them in the order %s" % (kw, wnames, enames),
                      where, detail="operands in the order %s" % enames)
        # a shorthand chosen by a value test (v, y): the test has to be the relation the reader uses to rebuild the omitted operand
        pos_conds = [c0 for c0 in conds if not c0.startswith("not:")]
        for d0, fl0 in r["ops"]:
            for fn0, fe0 in fl0.items():
                t0 = norm(fe0.get("text") or "")
                if not t0 or t0 == fn0:
                    continue
                if t0 in fl0 and t0 != fn0:
                    need = {"%s==%s" % (fn0, t0), "%s==%s" % (t0, fn0)}
                    okc = any(c0 in need for c0 in pos_conds)
                elif t0 == "self.last":
                    okc = any(fn0 in c0 and "current_point" in c0 and "==" in c0 for c0 in pos_conds)
                else:
                    continue
                if conds or kw in ("v", "y"):
                    ctx.check(okc, "C08-SIB", key + ".shorthand-condition", "`%s` leaves out the operand the reader rebuilds as %s = %s, but the serializer chooses it under %s"
                              % (kw, fn0, t0, pos_conds or "no test"), where, detail="%s chosen when %s == %s" % (kw, fn0, t0))
        # guard relation
        if row["guard"]:
            g = norm(row["guard"])
            rel = None
            for d, fields in r["ops"]:
                for fname, fe in fields.items():
                    t = norm(fe.get("text", ""))
                    # a relation is a field defined by an expression over the operands (not the shorthand `field` itself)
                    if t and t != fname and fname in g:
                        rel = (fname, t)
            ok = rel is not None and rel[1] in g
            ctx.check(ok, "C08-SIB", key + ".guard",
                      "the merge into `%s` is guarded by `%s`, but the reader defines %s" % (kw, row["guard"], rel), where,
                      detail="guard %s matches reader's %s" % (g, rel))
    # every Op variant has a leaf
    opv = {v["name"] for v in f.adts["content::Op"]["variants"]}
    miss = opv - seen_variants
    ctx.check(not miss, "C08-SIB", "serialize_ops#coverage", "Op variants without a serializer arm: %s" % sorted(miss), detail="%d variants covered" % len(opv))


def kinds_after_array(kinds, idx):
    # after "[": the element placeholders up to the closing bracket are part of the array; what follows "]" are further operands.
    # writers put the array elements in ONE placeholder (`pattern.iter().format(" ")`) or a loop.
    rest = kinds[idx + 1:]
    out = []
    skipped = False
    for k in rest:
        if not skipped and (k.startswith("?") or k in ("x*",)):
            skipped = True
            continue
        out.append(k)
    return out


def compatible(w, r):
    """writer kinds vs reader kinds (x matches anything, x* matches any tail)"""
    if w == r:
        return True
    if len(w) != len(r):
        if r and r[-1] == "x*" and w and w[-1] == "x*" and w[:-1] == r[:-1]:
            return True
        return False
    for a, b in zip(w, r):
        if a == b or "x" in (a, b):
            continue
        return False
    return True


def rule_current_point(ctx, f, ast, rt, a):
    ctx.rule("C08-G1", "reader arms that consume an end point (m l c v y) assign the current point; the writer assigns it in the matching arms and "
             "only the `v` shorthand reads it — both sides track it identically")
    for op, row in SPEC.items():
        if row.get("current_point"):
            got = rt.get(op)
            want = row["current_point"]
            ok = got is not None and any(l == "self.last" and r == want for l, r in got["assigns"])
            if op == "re" and ok:
                ok = any(l == "self.start" and "rect.x" in r and "rect.y" in r for l, r in got["assigns"])
            if row.get("subpath_start"):
                ok = ok and any(l == "self.start" and r == row["subpath_start"] for l, r in got["assigns"])
            ctx.check(ok, "C08-G1", "OpBuilder::add#%s.last" % op, "`%s` does not set the current point to its end point: a following `v` expands "
                      "with a stale first control point" % op, "pdf/src/content.rs:%d" % (got["line"] if got else 0), detail="`%s`: self.last = %s" % (op, row["current_point"]))
    rows = writer_table(ast, a) or []
    for row in rows:
        pat = [o for o in row["ops"] if not isinstance(o, tuple)]
        if pat and pat[0] in ("MoveTo", "LineTo", "CurveTo"):
            # the assignment sits after the nested if in the CurveTo arm: look at the whole arm
            pass
    fns = ast.find("pdf/src/content.rs", "serialize_ops")
    m = find_match(fns[0]["body"], 40) if fns else None
    if m:
        for arm in m["arms"]:
            v = lookahead_ops(arm["pat"])
            if v and v[0] in ("MoveTo", "LineTo", "CurveTo", "Rect", "Close"):
                ev = []
                events(arm["body"], ev)
                txt = norm(json.dumps(arm["body"]))
                ok = "current_point" in txt and ("Some(p)" in txt or "subpath_start" in txt)
                ctx.check(ok, "C08-G1", "serialize_ops#%s.current_point" % v[0], "the serializer does not track the current point after %s: the v "
                          "shorthand is chosen against a stale point" % v[0], "pdf/src/content.rs:%d" % arm["line"], detail="%s: current_point = Some(p)" % v[0])
                # the value the two state variables hold when the arm ends (assignments evaluated in statement order)
                env = {}
                for n in walk_nodes(arm["body"]):
                    if isinstance(n, dict) and n.get("k") == "assign" and n.get("left") in ("current_point", "subpath_start"):
                        rhs = norm(n.get("right_text", ""))
                        for var in ("current_point", "subpath_start"):
                            if rhs == var:
                                rhs = env.get(var, "OLD(%s)" % var)
                        env[n["left"]] = rhs
                cp = env.get("current_point", "")
                if v[0] == "Rect":
                    okv = "rect.x" in cp and "rect.y" in cp and env.get("subpath_start", "") == cp
                    ctx.check(okv, "C08-G1", "serialize_ops#Rect.value", "after `re` the serializer's current point is %r (the reader sets both the current point and the subpath "
                              "start to the rectangle's origin): the `v` shorthand is chosen against a different point than the reader will assume" % cp,
                              "pdf/src/content.rs:%d" % arm["line"], detail="current_point = subpath_start = Some(rect origin)")
                if v[0] == "Close":
                    okv = cp == "OLD(subpath_start)"
                    ctx.check(okv, "C08-G1", "serialize_ops#Close.value", "after `h` the serializer's current point is %r, the reader returns to the subpath start" % cp,
                              "pdf/src/content.rs:%d" % arm["line"], detail="current_point = subpath_start")
                if v[0] == "MoveTo":
                    okv = cp and env.get("subpath_start") == cp
                    ctx.check(bool(okv), "C08-G1", "serialize_ops#MoveTo.value", "after `m` current point (%r) and subpath start (%r) differ" % (cp, env.get("subpath_start")),
                              "pdf/src/content.rs:%d" % arm["line"], detail="current_point = subpath_start = Some(p)")


def _cp_paths(n, limit=512):
    """control paths of a syntax subtree as (operator keywords written, current point assigned?) pairs: statements compose in sequence,
    the arms of a `match` and the branches of an `if` are alternatives"""
    def seq(a, b):
        out = [(x[0] + y[0], x[1] or y[1]) for x in a for y in b]
        return out[:limit]
    if isinstance(n, list):
        cur = [((), False)]
        for x in n:
            cur = seq(cur, _cp_paths(x, limit))
        return cur
    if not isinstance(n, dict):
        return [((), False)]
    k = n.get("k")
    if k == "macro" and n.get("name") in ("write", "writeln"):
        toks = (n.get("fmt") or "").replace("\\n", " ").split()
        kw = toks[-1] if toks and "{" not in toks[-1] else None
        return [((kw,), False)] if kw else [((), False)]
    if k == "assign":
        cur = _cp_paths(n.get("right"), limit)
        if norm(n.get("left")) == "current_point":
            cur = [(x[0], True) for x in cur]
        return cur
    if k == "match":
        head = _cp_paths(n.get("on_tree"), limit)
        alts = []
        for arm in n.get("arms", []):
            alts += _cp_paths(arm.get("body"), limit)
        return seq(head, alts or [((), False)])
    if k == "if":
        head = _cp_paths(n.get("cond_tree"), limit)
        alts = _cp_paths(n.get("then"), limit) + (_cp_paths(n.get("else"), limit) if n.get("else") else [((), False)])
        return seq(head, alts)
    cur = [((), False)]
    for key in n:
        if isinstance(n[key], (dict, list)) and key not in ("pat",):
            cur = seq(cur, _cp_paths(n[key], limit))
    return cur


def rule_point_paths(ctx, ast, rt):
    """seeded C08-9: `current_point = subpath_start` hoisted above the choice between `h` and the fused `s` / `b` / `b*` - the reader
    returns to the subpath start only for a bare `h`, so after `s` the two sides disagree about the point the next `v` is chosen against"""
    ctx.rule("C08-G1-path", "on every control path of every serializer arm: the arm assigns `current_point` on the path that writes operator keyword K "
             "exactly when the reader's arm for K assigns its current point (`self.last`) - both sides move the point under the same operators, "
             "shorthand by shorthand")
    fns = ast.find("pdf/src/content.rs", "serialize_ops")
    m = find_match(fns[0]["body"], 40) if fns else None
    seen = set()
    for arm in (m["arms"] if m else []):
        for kws, assigned in _cp_paths(arm["body"]):
            for kw in kws:
                got = rt.get(kw)
                if got is None or (kw, assigned) in seen:
                    continue
                seen.add((kw, assigned))
                reader = any(l == "self.last" for l, r in got["assigns"])
                ctx.check(reader == assigned, "C08-G1-path", "serialize_ops#%s.point-moves" % kw,
                          "on a path that writes `%s` the serializer %s its current point, the reader's `%s` arm %s: the `v` shorthand of a following curve "
                          "is chosen against a point the reader will not assume" % (kw, "moves" if assigned else "keeps", kw, "moves it" if reader else "keeps it"),
                          "pdf/src/content.rs:%d" % arm["line"], detail="`%s`: writer moves=%s reader moves=%s" % (kw, assigned, reader))
    ctx.floor("C08-G1-path", len({k for k, a_ in seen if a_}), 7, "operator keywords written on a path that moves the serializer's current point (h m l c v y re)")


def rule_enum_cast(ctx, f, ast):
    """the serializer writes enumerated operands as `value as u8`: the enum's discriminants must be the specification's numbers"""
    ctx.rule("C08-SIB-enum", "an enumerated operand that the serializer writes as `<enum> as <int>` has the specification's number as the discriminant of each variant "
             "(the reader maps numbers to variants by name, the writer by declaration order)")
    fns = ast.find("pdf/src/content.rs", "serialize_ops")
    txt = norm(json.dumps(fns[0]["body"])) if fns else ""
    n = 0
    for op, row in SPEC.items():
        if "enum" not in row:
            continue
        names = set(row["enum"].values())
        adts = [a for k, a in f.adts.items() if k.startswith("content::") and a.get("kind") == "Enum" and {v["name"] for v in a["variants"]} == names]
        if not adts:
            ctx.lost("C08-SIB-enum", "enum with variants %s (operand of `%s`)" % (sorted(names), op))
            continue
        # does the writer cast a value for this keyword?
        cast = re.search(r'\{\} ' + re.escape(op) + r'\\*",[a-z_]+as(u8|i32|u32|usize)', txt.replace(" ", "")) is not None or re.search(r"as\s*(u8|i32)", txt) is not None
        if not cast:
            continue
        n += 1
        a = adts[0]
        for val, name in row["enum"].items():
            got = [v for v in a["variants"] if v["name"] == name]
            ctx.check(bool(got) and got[0].get("discr") == int(val), "C08-SIB-enum", "%s#%s" % (a["path"].split("::")[-1], name),
                      "%s::%s has discriminant %s, but `%s %s` means %s: the serializer (which writes the discriminant) and the reader (which maps %s to %s) disagree"
                      % (a["path"].split("::")[-1], name, got[0].get("discr") if got else "?", val, op, name, val, name), a["span"], detail="%s = %s" % (name, val))
    ctx.floor("C08-SIB-enum", n, 3, "enumerated operands written by casting (j, J, Tr)")


def rule_drain(ctx, f):
    ctx.rule("C08-G2", "the operand iterator passed to the dispatcher is a full-range drain of the operand buffer (operands never leak to the next operator)")
    bs = [b for b in f.bodies.values() if b["id"].endswith("OpBuilder::parse")]
    if not ctx.floor("C08-G2", len(bs), 1, "OpBuilder::parse"):
        return
    for b in bs:
        fl = Flow(b)
        adds = [(bi, t) for bi, t in F.calls(b) if last_seg(F.callee_name(t)) == "add" and "OpBuilder" in F.callee_name(t)]
        ctx.floor("C08-G2", len(adds), 1, "call of the dispatcher")
        for bi, t in adds:
            l = arg_local(t, 2)
            ats = fl.origins(l, passthrough=()) if l is not None else []
            dr = [a for a in ats if a[0] == "call" and last_seg(a[1]) == "drain"]
            ok = len(dr) == 1 and "RangeFull" in dr[0][3]["arg_tys"][1]["s"] and not [a for a in ats if a[0] == "call" and last_seg(a[1]) != "drain"]
            ctx.check(ok, "C08-G2", b["id"] + "#drain", "the dispatcher does not get `buffer.drain(..)`: operands that an operator does not consume, or "
                      "that precede a failing operator, stay in the buffer and are read by the next operator", t["span"], detail="add(op, buffer.drain(..), ..)")


def rule_adj(ctx, f, rt):
    ctx.rule("C08-ADJ", "in serialize_ops a token that may end in a regular byte is never directly followed by one that may begin with a regular byte, "
             "and every literal word is an operator keyword the reader knows")
    a = adj.get_adj(f, list(rt.keys()) + adj.OBJECT_KEYWORDS)
    a.atomic = {"primitive::serialize_name", "primitive::PdfString::serialize"}
    so = f.body("content::serialize_ops")
    if so is None:
        ctx.lost("C08-ADJ", "content::serialize_ops")
        return a
    a.solve([so["id"]])
    seen = set()
    for kind, fn, where, msg in a.violations:
        key = "%s#%s:%s" % (fn, kind, re.sub(r":\d+", "", where))
        if key in seen:
            continue
        seen.add(key)
        ctx.bad("C08-ADJ", key, msg, where)
    for bid, s in a.analysed:
        ctx.ok("C08-ADJ", bid, "summary %s" % s)
    return a


def rule_display(ctx, f):
    ctx.rule("C08-SIB-display", "the Display impls the serializer's `{}` placeholders go through (Point, Rgb, Cmyk, Matrix, ViewRect) print exactly as many "
             "numbers as the operator reads, separated by one space and nothing else")
    a = adj.get_adj(f, adj.OBJECT_KEYWORDS)
    n = 0
    for ty, kinds in sorted(DISPLAY_KINDS.items()):
        if not ty.startswith("content::"):
            continue
        b = f.body("<%s as std::fmt::Display>::fmt" % ty)
        if b is None:
            ctx.lost("C08-SIB-display", "Display for " + ty)
            continue
        fn = a.ast.fn_for_body(b)
        if fn is None:
            ctx.lost("C08-SIB-display", "syntax tree of Display for " + ty)
            continue

        def _walk(x):
            if isinstance(x, dict):
                yield x
                for v in x.values():
                    yield from _walk(v)
            elif isinstance(x, list):
                for y in x:
                    yield from _walk(y)
        fmts = [x["fmt"] for x in _walk(fn["body"]) if x.get("k") == "macro" and x.get("fmt") is not None]
        n += 1
        want = " ".join(["{}"] * len(kinds))
        ctx.check(fmts == [want], "C08-SIB-display", ty + "#format", "%s is printed with %s (the operator reads %d numbers separated by white-space: %r)" % (ty, fmts, len(kinds), want),
                  b["span"], detail=want)
        # ... in the order of the specification, which is also the order in which the operand reader of that type takes them
        order = json.load(open(os.path.join(HERE, "..", "spec", "operators.json")))["operand_types"].get(ty)
        wargs = [norm(x_) for x in _walk(fn["body"]) if x.get("k") == "macro" and x.get("fmt") is not None for x_ in x.get("args", [])]
        wfields = [x_[5:] if x_.startswith("self.") else x_ for x_ in wargs]
        ctx.check(order is not None and wfields == order, "C08-SIB-display", ty + "#field-order", "%s prints its fields in the order %s, the operand is defined as %s" % (ty, wfields, order),
                  b["span"], detail="printed in the order %s" % order)
        helper = {"content::Point": "point", "content::ViewRect": "rect", "content::Rgb": "rgb", "content::Cmyk": "cmyk", "content::Matrix": "matrix"}[ty]
        hf = [x for x in a.ast.fns if x["rel"] == "pdf/src/content.rs" and x["name"] == helper and not x.get("cfg_test")]
        if not hf:
            ctx.lost("C08-SIB-display", "operand reader `%s`" % helper)
            continue
        reads = []          # ("local", name) | ("field", name) in evaluation order
        field_of = {}
        # a local closure that takes the next number (`let mut next_number = || args.next()...;`) reads when it is called
        reader_closures = set()
        def is_read(tree):
            for y in _walk(tree):
                if y.get("k") == "mcall" and y.get("method") == "next" and norm(y.get("recv", "")) == "args":
                    return True
                if y.get("k") == "call" and norm(y.get("func", "")) in READ_KINDS and any("args" in norm(a_) for a_ in y.get("args", [])):
                    return True
                if y.get("k") == "call" and norm(y.get("func", "")) in reader_closures:
                    return True
            return False
        for x in _walk(hf[0]["body"]):
            if x.get("k") == "let" and isinstance(x.get("init"), dict) and x["init"].get("k") == "closure" and is_read(x["init"].get("body")):
                reader_closures.add(norm(x.get("pat", "")).replace("mut", "", 1) if norm(x.get("pat", "")).startswith("mut") else norm(x.get("pat", "")))
        for x in _walk(hf[0]["body"]):
            if x.get("k") == "let" and isinstance(x.get("init"), dict) and x["init"].get("k") != "closure" and is_read(x["init"]) and re.match(r"^(mut)?[a-z_][a-z0-9_]*$", norm(x.get("pat", ""))):
                reads.append(("local", norm(x["pat"]).replace("mut", "", 1) if norm(x["pat"]).startswith("mut") else norm(x["pat"])))
            if x.get("k") == "struct" and norm(x.get("path", "")).split("::")[-1] == ty.split("::")[-1]:
                for fl_ in x["fields"]:
                    tx = norm(fl_["e"].get("text", "")) if isinstance(fl_["e"], dict) else ""
                    if re.match(r"^[a-z_][a-z0-9_]*$", tx):
                        field_of[tx] = fl_["name"]
                    elif is_read(fl_["e"]):
                        reads.append(("field", fl_["name"]))
        rfields = [field_of.get(nm, "?" + nm) if k_ == "local" else nm for k_, nm in reads]
        ctx.check(rfields == order, "C08-SIB-display", ty + "#read-order", "`%s` takes the numbers of a %s in the order %s, the operand is defined (and printed) as %s"
                  % (helper, ty, rfields, order), "pdf/src/content.rs:%d" % hf[0]["line"], detail="read in the order %s" % order)
    ctx.floor("C08-SIB-display", n, 5, "Display impls of operand types")


def rule_exact_eq(ctx, f):
    ctx.rule("C08-SIB-eq", "the operand types whose equality chooses a shorthand (`v` / `y` when a control point EQUALS the current / end point) are compared exactly: "
             "PartialEq for Point is the derived, field-by-field one (the reader rebuilds the omitted operand as exactly that point)")
    n = 0
    for ty in ("content::Point",):
        b = f.impl_method("std::cmp::PartialEq", ty, "eq")
        if b is None:
            ctx.lost("C08-SIB-eq", "PartialEq for " + ty)
            continue
        n += 1
        derived = any(m.startswith("derive(PartialEq") for m in (b.get("mac") or []))
        arith = [st[2][1] for i, j, st in F.stmts(b) if st[0] == "assign" and st[2][0] == "binop" and st[2][1] in ("Sub", "Lt", "Le", "Gt", "Ge", "Add", "Mul", "Div")]
        ctx.check(derived and not arith, "C08-SIB-eq", ty + "#exact", "%s is compared with a hand-written PartialEq (%s): two different points can compare equal, the serializer then drops a "
                  "control point that the reader puts back as another value" % (ty, ", ".join(sorted(set(arith))) or "not derived"), b["span"], detail="#[derive(PartialEq)]")
    ctx.floor("C08-SIB-eq", n, 1, "operand types compared by the serializer")


def rule_parts(ctx, f):
    ctx.rule("C08-G3", "a content stream split into several parts is parsed as ONE stream: Content::operations joins the decoded parts and parses once, after the "
             "loop over the parts (operands and their operator may sit in different parts, 7.8.2)")
    b = f.body("content::Content::operations")
    if b is None:
        ctx.lost("C08-G3", "content::Content::operations")
        return
    cfg = CFG(b)
    loops = cfg.loops()
    parses = [(bi, t) for bb in [b] + f.closures_of(b["id"]) for bi, t in F.calls(bb) if last_seg(F.callee_name(t)) in ("parse_ops", "parse") and "content::" in F.callee_name(t)]
    inloop = [t for bi, t in F.calls(b) if last_seg(F.callee_name(t)) in ("parse_ops", "parse") and "content::" in F.callee_name(t) and any(bi in body for body in loops.values())]
    ctx.floor("C08-G3", len(parses), 1, "parse call in Content::operations")
    ctx.check(not inloop, "C08-G3", "Content::operations#one-parse", "the parts of a content stream are parsed one by one: operands at the end of a part are lost and the operator that "
              "opens the next part is dropped", inloop[0]["span"] if inloop else b["span"], detail="join the parts, then parse_ops once")


def run(ctx):
    f = F.load("default")
    ctx.count("bodies", len(f.bodies))
    crate_files = {b["_file"] for b in f.bodies.values()}
    ast = adj.Ast(only=crate_files)
    ast.renames = {o.split("::")[-1]: n.split("::")[-1] for o, n in getattr(f, "renamed", {}).items()}
    LOCAL_FNS.clear()
    for fn_ in ast.fns:
        if fn_["rel"] == "pdf/src/content.rs" and not fn_.get("cfg_test") and fn_["name"] not in ("serialize_ops", "parse", "add", "inline_image"):
            LOCAL_FNS.setdefault(fn_["name"], fn_)
    rt, m = reader_table(ast)
    if rt is None:
        ctx.lost("C08-TABLE", "match on the operator keyword in OpBuilder::add")
        return ctx.finish("anchor lost", ["astx"])
    a = rule_adj(ctx, f, rt)
    rule_table(ctx, f, ast, rt)
    rule_sib(ctx, f, ast, rt, a)
    rule_current_point(ctx, f, ast, rt, a)
    rule_point_paths(ctx, ast, rt)
    rule_enum_cast(ctx, f, ast)
    rule_display(ctx, f)
    rule_parts(ctx, f)
    rule_exact_eq(ctx, f)
    rule_drain(ctx, f)
    return ctx.finish(
        "Static analysis of the syntax trees of the operator dispatcher and the serializer (astx), joined with MIR facts for placeholder types "
        "and resolved callees: the reader table (keyword -> operand readers, pushed Op sequence, state effects) is compared row by row with "
        "ISO 32000-1 Annex A (spec/operators.json); every serializer leaf (pattern + look-ahead + guard -> operand writers, keyword) is "
        "compared with the reader row of its keyword; current-point tracking; provenance of the operand iterator; token adjacency of the "
        "written stream. Numeric formatting of operands and inline-image data are not decided.",
        ["astx (syn) for the two match expressions", "rustc nightly MIR construction", "spec/operators.json transcribed from ISO 32000-1 Annex A"])
