"""C01 — reading arbitrary bytes never panics, aborts or hangs.

Decided (structure of every body reachable from the document-level read API):
  PANIC   every explicit panic site (panic!/unreachable!/assert*!/unwrap/expect, `Index` impls used by the
          crate) is discharged by an idiom that makes it unreachable, or is a reviewed entry of
          rules/discharged.json
  ACCESS  every bounds check, slice range, slice function with a panicking contract, division and allocation
          whose operands are *not* file numbers (those belong to C14) is dominated by a comparison / produced
          by a search / a constant index after a length test ... or is a reviewed entry
  LOOP    every natural loop has a termination witness (iterator, bounded range, input-consuming call,
          monotone counter, seen-set, shrinking slice, owned descent)
  G1      the parser's nesting budget: the parser cycle is cut by a decremented, tested budget
  G3      the /Prev walk is a seen-set loop
  G5      IndexRange::to_range returns only start <= end <= len
  G6      every store to the lexer cursor is clamped, searched or compared with the buffer length
Not decided: arithmetic on in-memory sizes (debug-only overflow checks of positions/lengths), the contents of
collections, time and memory in proportion to the input beyond the loop witnesses.
"""
import facts as F
from cfg import CFG
from flow import Flow, last_seg
import census


def rule_to_range(ctx, f, run):
    ctx.rule("C01-G5", "every range IndexRange::to_range returns satisfies start <= end <= len: each bound is 0, the length, or was compared (<=) "
             "with its neighbour on the path to the return")
    b = f.body("backend::IndexRange::to_range")
    if b is None:
        ctx.lost("C01-G5", "IndexRange::to_range")
        return
    # the provided method is the only one: an implementation that brings its own to_range is not covered by what is shown below
    over = [im for im in f.impls if im.get("trait") == "backend::IndexRange" and any(n_ == "to_range" for n_, p_ in im.get("items", []))]
    ctx.check(not over, "C01-G5", "to_range#no-override", "%s override(s) IndexRange::to_range: the ranges they hand to the backend are not the ones checked here (an open-ended read "
              "starting past the end of the file would panic in the slice)" % ", ".join(sorted(str((im.get("self") or {}).get("s", im.get("id"))) for im in over)), b["span"],
              detail="only the provided IndexRange::to_range builds ranges")
    T = run.taint
    cfg = T.cfg(b)
    LEN = [2]
    rel = []        # (block that is entered when a <= b holds, canon(a), canon(b))
    for i, bb in enumerate(b["blocks"]):
        t = bb["term"]
        if t["k"] != "switch":
            continue
        dl = F.op_local(t["discr"])
        for st in bb["stmts"]:
            if st[0] == "assign" and st[1] == [dl] and st[2][0] == "binop" and st[2][1] in ("Le", "Lt"):
                a = F.op_place(st[2][2])
                c = F.op_place(st[2][3])
                if a is None or c is None:
                    continue
                arms = {x[0]: x[1] for x in t["arms"]}
                true_t = t["otherwise"] if 0 in arms else arms.get(1)
                rel.append((true_t, T.canon_place(b, a), T.canon_place(b, c)))
    sites = [(i, st) for i, j, st in F.stmts(b) if st[0] == "assign" and st[2][0] == "aggregate" and st[2][1].get("adt") == "std::ops::Range"]
    ctx.floor("C01-G5", len(sites), 1, "Range values built in to_range")

    def holds(bi, x, y):
        return any(cfg.dominates(tb, bi) and a == x and c == y for tb, a, c in rel)
    for bi, st in sites:
        so, eo = st[2][2][0], st[2][2][1]
        sp = T.canon_place(b, F.op_place(so)) if F.op_place(so) else None
        ep = T.canon_place(b, F.op_place(eo)) if F.op_place(eo) else None
        end_ok = ep == LEN or (ep is not None and holds(bi, ep, LEN))
        start_ok = F.const_int(so) == 0 or (sp is not None and (holds(bi, sp, ep) or (ep == LEN and holds(bi, sp, LEN))))
        ctx.check(end_ok and start_ok, "C01-G5", "to_range#bb%d" % len([1 for x, _ in sites if x <= bi]),
                  "a returned range is not ordered/bounded by comparisons on its path (start ok=%s, end ok=%s)" % (start_ok, end_ok), b["span"],
                  detail="start<=end<=len")


def rule_cursor(ctx, f, run):
    ctx.rule("C01-G6", "every store to Lexer.pos is a constant, min(.., buf.len()), the result of a boundary search / next_word, an expression of "
             "buf.len() alone, x + c after x + c' (c' >= c - 1) was compared with the length or looked up with get(), or is re-clamped before the "
             "function returns")
    T = run.taint
    OKCALLS = ("min", "boundary", "boundary_rev", "skip_whitespace", "next_word", "position", "rposition")
    n = 0

    def split(k):
        """(base, const) of  base + const"""
        if k and k[0] == "Add":
            for a, c in ((k[1], k[2]), (k[2], k[1])):
                if c and c[0] == "c" and isinstance(c[1], int):
                    return a, c[1]
        return k, 0

    def only_len(k):
        if not isinstance(k, tuple) or not k:
            return False
        if k[0] == "c":
            return True
        if k[0] == "len":
            return True
        if k[0] in ("Sub", "Add", "saturating_sub", "min"):
            return all(only_len(x) for x in k[1:])
        return False

    for bid, b in sorted(f.bodies.items()):
        if not bid.startswith("parser::lexer::Lexer"):
            continue
        fl = None
        cfg = T.cfg(b)
        for i, j, st in F.stmts(b):
            if st[0] != "assign" or len(st[1]) < 2 or st[1][-1][0] != "field" or st[1][-1][2] != "pos":
                continue
            if T._adt_of_place(b, st[1][:-1]) != "parser::lexer::Lexer":
                continue
            n += 1
            fl = fl or Flow(b)
            rv = st[2]
            ok = False
            why = ""
            if rv[0] == "use" and rv[1][0] == "const":
                ok, why = True, "constant"
            elif rv[0] == "use":
                op = rv[1]
                pl = F.op_place(op)
                l = pl[0] if pl else None
                key = T.expr_key(b, op)
                base, c = split(key)
                names = {last_seg(a[1]) for a in fl.origins(l) if a[0] == "call"} if l is not None else set()
                if names & set(OKCALLS):
                    ok, why = True, "from %s" % sorted(names & set(OKCALLS))
                elif only_len(key):
                    ok, why = True, "an expression of buf.len() only"
                elif T._clamped_after(b, i, st[1]):
                    ok, why = True, "re-clamped before the function returns"
                else:
                    # guards: comparisons / get() look-ups of base + c' with c' >= c - 1 that dominate the store
                    for bi, bb in enumerate(b["blocks"]):
                        if ok or not cfg.dominates(bi, i):
                            continue
                        cands = []
                        t = bb["term"]
                        if t["k"] == "switch":
                            for s2 in bb["stmts"]:
                                if s2[0] == "assign" and s2[2][0] == "binop" and s2[2][1] in ("Lt", "Le", "Gt", "Ge"):
                                    ka, kb = T.expr_key(b, s2[2][2]), T.expr_key(b, s2[2][3])
                                    # the other side must be (an expression of) the buffer length
                                    if only_len(kb):
                                        cands.append(ka)
                                    if only_len(ka):
                                        cands.append(kb)
                        if t["k"] == "call" and bi != i and last_seg(F.callee_name(t)) in ("get", "get_mut"):
                            for a in t["args"][1:]:
                                cands.append(T.expr_key(b, a))
                        for g in cands:
                            gb, gc = split(g)
                            if gb == base and gc >= c - 1 and T._places_stable(b, T._places_in(gb), bi, i, count_to=False):
                                ok, why = True, "%s + %d after %s + %d was compared with the length / looked up" % ("x", c, "x", gc)
            ctx.check(ok, "C01-G6", "%s#pos-store@%s" % (bid.split("::")[-1], _ordinal(b, i, j)), "the lexer cursor is set to a value that is neither clamped, searched nor compared with the buffer length",
                      b["span"], detail=why)
    ctx.floor("C01-G6", n, 8, "stores to Lexer.pos")


def _ordinal(b, bi, j):
    k = 0
    for i2, j2, st in F.stmts(b):
        if st[0] == "assign" and len(st[1]) >= 2 and st[1][-1][0] == "field" and st[1][-1][2] == "pos":
            k += 1
            if (i2, j2) == (bi, j):
                return k
    return 0


def run(ctx):
    f = F.load()
    ctx.count("bodies", len(f.bodies))
    R = census.get_run(f)
    ctx.count("read-reachable bodies analysed", R.bodies)
    ctx.count("panic-capable sites in the read universe", len(R.sites))
    ctx.floor("C01-PANIC", R.bodies, 500, "bodies reachable from the read API")
    ctx.floor("C01-PANIC", len(R.sites), 350, "panic-capable constructs found in them")
    ctx.rule("C01-PANIC", "every explicit panic / unwrap on a read path is unreachable by a recognised idiom (guarded conversion, Option just set, variants "
             "never constructed, wrapper invariant, Index impl unused by the crate) or is a reviewed entry of rules/discharged.json")
    census.report_sites(ctx, R, "C01-PANIC", ("explicit",), "C01", "explicit")
    ctx.rule("C01-ACCESS", "every bounds check / slice range / panicking slice function / division / allocation on a read path whose operands are not file "
             "numbers is dominated by a comparison with the length, produced by a search, a constant index after a length test, a chunk of constant "
             "size ... or is a reviewed entry of rules/discharged.json")
    census.report_sites(ctx, R, "C01-ACCESS", ("const", "access"), "C01", "access")
    und = sum(1 for s in R.sites if s.status == "open" and census.category(s) == "arith")
    ctx.note("not decided: %d overflow checks on in-memory sizes/positions (debug-build arithmetic on untainted values)" % und)
    # loops
    ctx.rule("C01-LOOP", "every natural loop in a read-reachable body has a termination witness")
    loops = R.loops()
    kinds = {}
    for b, head, k, txt in loops:
        kinds[k] = kinds.get(k, 0) + 1
        tainted_range = (k is None and "numeric range" in txt)
        if tainted_range:
            continue        # reported under C14 (K4)
        ctx.check(k is not None, "C01-LOOP", "%s#loop@%s" % (b["id"], _loop_ord(R, b, head)), txt, b["blocks"][head]["term"].get("span", b["span"]), detail="%s: %s" % (k, txt))
    ctx.floor("C01-LOOP", len(loops), 70, "natural loops in the read universe")
    ctx.rule("C01-G7", "a loop of the shape `while cursor + X < len` whose body relies on that condition alone advances the cursor by no more per iteration "
             "than the condition guarantees to be left (X, plus one if the comparison is strict)")
    from termination import consumption_check
    n7 = 0
    for b, head, k, txt in loops:
        cfg = R.taint.cfg(b)
        rec7, ok7, t7 = consumption_check(f, b, cfg, head, cfg.loops()[head], R.taint)
        if rec7:
            n7 += 1
            ctx.check(ok7, "C01-G7", "%s#loop@%s" % (b["id"], _loop_ord(R, b, head)), t7, b["blocks"][head]["term"].get("span", b["span"]), detail=t7)
    ctx.floor("C01-G7", n7, 1, "cursor loops guarded by their condition alone (the predictor row loop of flate_decode)")
    ctx.note("loop witnesses: " + ", ".join("%s=%d" % (k, v) for k, v in sorted(kinds.items(), key=lambda x: str(x[0]))))
    # G1 parser budget, G3 /Prev seen-set
    ctx.rule("C01-G1", "the recursive descent of the object parser is cut by a budget that is tested against zero and passed on decremented")
    rec, findings, accepted = R.recursion()
    pc = [a for a in accepted if any("parser::_parse_with_lexer_ctx" in n or "parser::parse_with_lexer_ctx" in n for n in a[0])]
    ctx.check(bool(pc) and all("budget" in a[1] for a in pc), "C01-G1", "parser#max-depth",
              "the parser's recursion (array / dictionary nesting) is not bounded by a decremented and tested depth budget", "pdf/src/parser/mod.rs",
              detail=pc[0][1] if pc else "")
    for x in findings:
        if any("parser::" in n for n in x["nodes"]):
            ctx.bad("C01-G1", "parser#cycle", x["why"], "pdf/src/parser/mod.rs")
    # every other cycle of the read universe: a crafted file that drives an unbounded recursion overflows the stack, which aborts the process
    # (same analysis and the same witnesses as C14-REC; cycle_key is shared so that one defect has one key per property)
    import c14
    ctx.rule("C01-REC", "every cycle of the type-instantiated call graph over the read universe has a guard / budget / owned-descent / single-step witness "
             "(shared with C14-REC): unbounded recursion on a crafted file ends in a stack overflow, i.e. an abort")
    ctx.floor("C01-REC", len(accepted) + len(findings), 30, "cycles examined")
    for nodes, why in accepted:
        ctx.ok("C01-REC", c14.cycle_key(rec.inst, nodes)[:300], why)
    for x in findings:
        first = rec.inst.nodes[x["nodes"][0]]["body"]
        ctx.bad("C01-REC", "cycle:" + c14.cycle_key(rec.inst, x["nodes"]), "unbounded recursion: " + x["why"], f.bodies[first]["span"],
                path=["cycle member: " + n for n in x["nodes"][:10]])
    ctx.rule("C01-G3", "the walk over /Prev sections looks each offset up in the list of offsets already visited (error on a hit) and appends it")
    prev = [(b, head, k, txt) for b, head, k, txt in loops if b["id"].endswith("read_xref_table_and_trailer")]
    ctx.floor("C01-G3", len(prev), 2, "loops in read_xref_table_and_trailer")
    ctx.check(any(k == "seen-set" for b, head, k, txt in prev), "C01-G3", "read_xref_table_and_trailer#prev", "the /Prev loop has no seen-set witness: a file whose sections point at each other is read forever",
              "pdf/src/backend.rs", detail="seen.contains(prev) -> bail; seen.push(prev)")
    rule_to_range(ctx, f, R)
    rule_cursor(ctx, f, R)
    return ctx.finish(
        "Static analysis of the MIR facts of every body reachable from the document-level read API (call graph with virtual edges): census of "
        "panic-capable constructs, each discharged by a dominance / provenance idiom or by a reviewed table entry; termination witnesses for "
        "every natural loop; budget / seen-set / range-validation / cursor-store rules for the mechanisms the property names. File numbers that "
        "reach such constructs are decided under C14.",
        ["rustc nightly MIR construction", "mirx exporter", "reviewed entries of rules/discharged.json (read once by a person, not proven)"])


def _loop_ord(R, b, head):
    heads = sorted(R.taint.cfg(b).loops().keys())
    return heads.index(head) + 1
