"""C13 — concurrent readers get the answers sequential readers would.

Decided (lock and sharing discipline only): the guard-stack lock is released before any load
starts (LOCK1); the push is paired with an RAII pop constructed before anything can leave the
function (PAIR); the cycle-guard state must not be shared between threads while it is keyed by
reference alone (SHARE); the pop must not assert a LIFO order other threads can break while the
lock is held (G1); the compute-once cache is re-entered from inside its own computation (LOCK2);
values handed to several threads are Send + Sync by type (TYPE).
Not decided: any statement about particular interleavings.
"""
import facts as F
from cfg import CFG
from flow import Flow, call_sites, arg_local, last_seg
from tables import transitive_callees


def the_get(f):
    out = []
    for b in f.bodies.values():
        if b.get("impl", {}).get("trait") == "object::Resolve" and b["id"].endswith("::get"):
            if call_sites(b, lambda nm, t: t.get("callee") == "file::Cache::get_or_compute"):
                # private helpers of the resolver that take part in the guard protocol (say, `self.enter(key)?`) are looked at as if
                # their statements stood in get() itself
                from inline import inlined
                out.append(inlined(f, b))
    return out


def rule_lock1(ctx, f, b):
    ctx.rule("C13-LOCK1", "the MutexGuard on the guard stack is dropped on every path before the cache / resolver / reader is called")
    cfg = CFG(b)
    locks = [(bi, t) for bi, t in F.calls(b) if last_seg(F.callee_name(t)) == "lock" and "Mutex" in F.callee_name(t)]
    loads = [bi for bi, t in F.calls(b) if t.get("callee") in ("file::Cache::get_or_compute", "object::Resolve::resolve", "object::Object::from_primitive")]
    drops = {i for i, bb in enumerate(b["blocks"]) if bb["term"]["k"] == "drop" and "MutexGuard" in bb["term"]["ty"]["s"]}
    ctx.floor("C13-LOCK1", len(locks), 1, "Mutex::lock on the guard stack in the typed load")
    for bi, t in locks:
        ok = all(cfg.all_paths_pass(t["target"], [l], drops) for l in loads if cfg.can_reach(t["target"], l))
        ctx.check(ok and bool(loads), "C13-LOCK1", b["id"] + "#guard-dead-before-load",
                  "the guard-stack lock can still be held when a load starts: a nested load on the same thread self-deadlocks", t["span"],
                  detail="MutexGuard dropped before get_or_compute / resolve / from_primitive")


def rule_pair(ctx, f, b):
    ctx.rule("C13-PAIR", "the push onto the guard stack is followed, before any normal exit, by the construction of an RAII value whose Drop pops")
    cfg = CFG(b)
    fl = Flow(b)
    pushes = []
    for bi, t in F.calls(b):
        if last_seg(F.callee_name(t)) == "push" and "Vec" in F.callee_name(t):
            l = arg_local(t, 0)
            flds = set()
            ats = fl.origins(l, fields=flds) if l is not None else []
            if any(a[0] == "call" and last_seg(a[1]) == "lock" for a in ats):
                pushes.append((bi, t))
    if not ctx.floor("C13-PAIR", len(pushes), 1, "push onto the locked guard stack"):
        return None
    # RAII aggregates: ADT with a Drop impl in the crate whose drop runs a closure / pops
    drop_impls = {i["self"].get("adt") for i in f.impls if i.get("trait") == "std::ops::Drop"}
    raii = []
    for i, j, s in F.stmts(b):
        if s[0] == "assign" and s[2][0] == "aggregate" and s[2][1].get("adt") in drop_impls:
            raii.append((i, s))
    pops_in = None
    for i, s in raii:
        # closure operand that pops
        for o in s[2][2]:
            l = F.op_local(o)
            if l is None:
                continue
            for a in fl.origins(l):
                if a[0] == "agg" and a[1]["k"] == "closure":
                    cb = f.body(a[1]["closure"])
                    if cb and any(last_seg(F.callee_name(t)) in ("pop", "remove", "retain", "swap_remove", "truncate") for _, t in F.calls(cb)):
                        pops_in = cb
    ok = bool(raii) and pops_in is not None
    from cfg import ccp_reachable
    for bi, t in pushes:
        rset = {i for i, s in raii}
        # feasible paths only: after a push inside an inlined helper the helper returns Ok, so the `?` that follows takes its Continue arm
        region = ccp_reachable(b, t["target"], avoid=rset)
        ok = ok and not any(b["blocks"][r]["term"]["k"] == "return" for r in region)
        # nothing fallible between push and the RAII value: only drops / gotos (and the `?` machinery, which cannot fail or unwind)
        calls_between = [r for r in region if b["blocks"][r]["term"]["k"] == "call" and r not in rset and
                         last_seg(F.callee_name(b["blocks"][r]["term"])) not in ("branch",)]
        ok = ok and not calls_between
    ctx.check(ok, "C13-PAIR", b["id"] + "#raii-pop",
              "the guard-stack entry is not released by an RAII value constructed right after the push: an early return or a panic in the "
              "reader leaves the reference on the stack and every later load of it reports a recursive reference", b["span"],
              detail="push; then Defer(|| pop) before any call")
    return pops_in


def rule_share(ctx, f, b):
    ctx.rule("C13-SHARE", "the cycle-guard container is not shared between threads while entries are keyed by reference alone: either it is "
             "not behind a thread-safe lock reachable through &self, or membership is tested with the thread's identity")
    fl = Flow(b)
    cont = [(bi, t) for bi, t in F.calls(b) if last_seg(F.callee_name(t)) == "contains"]
    shared = False
    keyed_by_ref_only = False
    where = b["span"]
    for bi, t in cont:
        l = arg_local(t, 0)
        ats = fl.origins(l) if l is not None else []
        lk = [a for a in ats if a[0] == "call" and last_seg(a[1]) == "lock" and "Mutex" in a[1]]
        if lk:
            ml = arg_local(lk[0][3], 0)
            shared = ml is not None and fl.derives_from_arg(ml, 1) and b["locals"][1]["k"] == "ref"
            keyty = t["arg_tys"][1]["s"]
            keyed_by_ref_only = "ThreadId" not in keyty
            where = t["span"]
    if not cont:
        ctx.note("no membership test found on a locked container (guard redesigned?)")
    ctx.check(not (shared and keyed_by_ref_only), "C13-SHARE", b["id"] + "#chain",
              "the recursion-guard stack lives in the resolver behind a Mutex, is reached through &self and is tested by reference only: two "
              "threads sharing one resolver see each other's in-flight loads and report a spurious 'Recursive reference'", where,
              detail="guard state is per call chain")


def rule_g1(ctx, f, b, pop_closure):
    ctx.rule("C13-G1", "the release of a guard entry does not assert a LIFO order while the lock is held (another thread's entry may be on top: "
             "the assertion panics under the lock and poisons it)")
    if pop_closure is None:
        ctx.lost("C13-G1", "closure that pops the guard stack")
        return
    panics = [(bi, t) for bi, t in F.calls(pop_closure) if F.callee_name(t).startswith(("core::panicking::", "std::rt::begin_panic"))]
    ctx.check(not panics, "C13-G1", b["id"] + "#assert-in-drop",
              "the pop asserts that the popped entry is the caller's own (assert_eq!): with two overlapping loads the other thread's entry is on "
              "top, the assertion fails while the Mutex is held and every later load panics on the poisoned lock",
              panics[0][1]["span"] if panics else pop_closure["span"], detail="pop does not assert")


def rule_lock2(ctx, f, b):
    ctx.rule("C13-LOCK2", "the compute-once cache is not re-entered (with another key) from inside its own computation without a global order on keys")
    gc = call_sites(b, lambda nm, t: t.get("callee") == "file::Cache::get_or_compute")
    fl = Flow(b)
    nested = False
    for bi, t in gc:
        l = arg_local(t, 2)
        for a in fl.origins(l) if l is not None else []:
            if a[0] == "agg" and a[1]["k"] == "closure":
                cb = f.body(a[1]["closure"])
                if cb is None:
                    continue
                # the reader is called with the resolver itself: it can call get() again
                for _, tt in F.calls(cb):
                    if tt.get("callee") == "object::Object::from_primitive":
                        nested = True
                for s in [s for _, _, s in F.stmts(cb) if s[0] == "assign" and s[2][0] == "aggregate" and s[2][1]["k"] == "closure"]:
                    c2 = f.body(s[2][1]["closure"])
                    if c2 and any(tt.get("callee") == "object::Object::from_primitive" for _, tt in F.calls(c2)):
                        nested = True
    sync_impl = any(i.get("trait") == "file::Cache" and "SyncCache" in i["self"]["s"] for i in f.impls)
    ctx.check(not (nested and sync_impl), "C13-LOCK2", b["id"] + "#nested-compute",
              "the typed reader runs inside the compute-once cache and can load further references through the same cache: two threads "
              "(one resolver each) loading two objects that reference each other wait on each other's in-process entry forever", b["span"],
              detail="no nested compute-once wait")


def rule_type(ctx, f):
    ctx.rule("C13-TYPE", "objects handed to several threads are shareable by type: Object: Send + Sync, Shared<T> is Arc<T>, AnySync wraps dyn ... + Send + Sync")
    tr = {t["path"]: t for t in f.doc.get("traits", [])}
    o = tr.get("object::Object")
    ok = o is not None and "Self: std::marker::Sync" in o["super"] and "Self: std::marker::Send" in o["super"]
    ctx.check(ok, "C13-TYPE", "object::Object#send-sync", "trait Object no longer requires Send + Sync", detail="Object: Send + Sync")
    rc = f.adts.get("object::RcRef")
    ok = rc is not None and any(fl["name"] == "data" and fl["s"].startswith("std::sync::Arc<") for fl in rc["variants"][0]["fields"])
    ctx.check(ok, "C13-TYPE", "object::RcRef#arc", "RcRef.data is not an Arc", detail="RcRef.data: Arc<T>")
    a = f.adts.get("any::AnySync")
    ok = a is not None and all(k in a["variants"][0]["fields"][0]["s"] for k in ("std::sync::Arc<", "std::marker::Send", "std::marker::Sync"))
    ctx.check(ok, "C13-TYPE", "any::AnySync#dyn-send-sync", "AnySync does not wrap Arc<dyn .. + Send + Sync>", detail="Arc<dyn AnyObject + Send + Sync>")
    e = f.adts.get("error::PdfError")
    sh = [fl for v in e["variants"] if v["name"] == "Shared" for fl in v["fields"]] if e else []
    ctx.check(bool(sh) and sh[0]["s"].startswith("std::sync::Arc<"), "C13-TYPE", "error::PdfError::Shared#arc", "shared errors are not Arc'd", detail="Shared{source: Arc<PdfError>}")


def rule_once(ctx, f):
    ctx.rule("C13-ONCE", "a compute-once cell that several threads may reach (`OnceCell` field) is filled only through get_or_init / get_or_try_init; a `set` whose "
             "failure (another thread was first) is turned into an error makes the outcome depend on the schedule")
    n = 0
    for b in f.bodies.values():
        if b.get("mac") and any(m.startswith("derive(") for m in b["mac"]):
            continue
        fl = None
        for bi, t in F.calls(b):
            n_ = F.callee_name(t) + " " + t.get("callee_full", "")
            if "OnceCell" not in n_ and "OnceLock" not in n_:
                continue
            seg = last_seg(F.callee_name(t))
            if seg in ("get_or_init", "get_or_try_init"):
                n += 1
                ctx.ok("C13-ONCE", "%s#%s" % (b["id"], seg), "atomic initialisation")
            if seg in ("set", "try_insert"):
                n += 1
                # is the Err of `set` consumed as a failure? (map_err / ? / match)  `let _ = cell.set(..)` is fine
                d = t["dest"][0] if t.get("dest") else None
                fl = fl or Flow(b)
                used = False
                if d is not None:
                    for bj, tj in F.calls(b):
                        if bj != bi and any(F.op_local(a) == d or (F.op_local(a) is not None and any(x[0] == "call" and x[2] == bi for x in fl.origins(F.op_local(a)))) for a in tj["args"]):
                            # any consumer of the result other than dropping it: map_err / ? / unwrap / unwrap_or_else(|_| panic) / ok().expect ..
                            if last_seg(F.callee_name(tj)) not in ("drop", "drop_in_place", "forget"):
                                used = True
                    for i, bb in enumerate(b["blocks"]):
                        tt = bb["term"]
                        if tt["k"] == "switch":
                            dl = F.op_local(tt["discr"])
                            for st in bb["stmts"]:
                                if st[0] == "assign" and st[1] == [dl] and st[2][0] == "discr" and st[2][1][0] == d:
                                    used = True
                ctx.check(not used, "C13-ONCE", "%s#set" % b["id"], "the result of OnceCell::set decides the outcome: when two threads fill the cell at the same time one of them "
                          "gets an error (or a different value) although a sequential reader never would", t["span"], detail="set() result ignored")
    ctx.floor("C13-ONCE", n, 1, "initialisations of compute-once cells (Lazy::load)")


def rule_excl(ctx, f):
    ctx.rule("C13-EXCL", "the object / stream caches are cleared only by bodies that hold the storage exclusively (&mut self): clearing from a shared read path "
             "removes entries other threads are computing or waiting for")
    # every method of the cache trait other than the compute-once look-up removes entries
    impls = [im for im in f.impls if im.get("trait") == "file::Cache"]
    muts = sorted({nm for im in impls for nm, bid in im["items"]} - {"get_or_compute"})
    ctx.floor("C13-EXCL", len(impls), 1, "implementations of file::Cache (NoCache; with the `cache` feature also the SyncCache adapter)")
    ctx.floor("C13-EXCL", len(muts), 1, "entry-removing methods of file::Cache (clear)")
    n = 0
    for b in f.bodies.values():
        for bi, t in F.calls(b):
            if last_seg(F.callee_name(t)) in muts and (t.get("trait") == "file::Cache" or "file::Cache" in F.callee_name(t)):
                if (b.get("impl") or {}).get("trait") == "file::Cache":
                    continue        # the adapter forwarding clear()
                n += 1
                recv = b["locals"][1]["s"] if b["argc"] >= 1 else ""
                ctx.check(recv.startswith("&mut "), "C13-EXCL", "%s#cache-%s" % (b["id"], last_seg(F.callee_name(t))), "a cache entry is removed from a body that only has shared "
                          "access (%s): concurrent loads lose their in-progress entries" % recv, t["span"], detail="receiver %s" % recv)
    ctx.count("cache-clearing call sites", n)
    # the compute-once look-up itself never removes an entry (another thread may be waiting for exactly that entry - the underlying cache
    # unwraps it after the wait): in `impl Cache`, get_or_compute only looks up
    for im in impls:
        for nm, bid in im["items"]:
            if nm != "get_or_compute":
                continue
            gb = f.body(bid)
            if gb is None:
                continue
            rem = sorted({last_seg(F.callee_name(t)) for bb in f.with_closures(gb["id"]) for bi, t in F.calls(bb)} & {"remove", "clear", "invalidate", "pop", "retain", "take", "insert", "drain"})
            ctx.check(not rem, "C13-EXCL", "%s#lookup-only" % (im.get("self") or {}).get("s", bid), "the compute-once look-up of the cache also %s entries: a thread that waited for the entry "
                      "finds it gone (panic in the cache, poisoned lock) while sequential callers never notice" % "/".join(rem), gb["span"], detail="get_or_compute forwards to the look-up and nothing else")


def run(ctx):
    f = F.load("default")
    ctx.count("bodies", len(f.bodies))
    gets = the_get(f)
    if ctx.floor("C13", len(gets), 1, "typed load (Resolve::get through the object cache)"):
        for b in gets:
            rule_lock1(ctx, f, b)
            pc = rule_pair(ctx, f, b)
            rule_share(ctx, f, b)
            rule_g1(ctx, f, b, pc)
            rule_lock2(ctx, f, b)
    rule_type(ctx, f)
    rule_once(ctx, f)
    rule_excl(ctx, f)
    return ctx.finish(
        "Static analysis of MIR facts of file.rs / object/mod.rs / any.rs: liveness of the MutexGuard relative to the load calls "
        "(must-pass-through of its Drop), RAII pairing of push/pop, a sharing rule on the guard container (behind a Mutex, reached "
        "through &self, keyed by reference only), panic sites inside the pop, re-entrancy of the compute-once cache from its own "
        "closure, and Send/Sync facts read from trait supertraits and field types. Schedules themselves are not explored: a "
        "property over interleavings can only be addressed through lock and sharing discipline by this family.",
        ["rustc nightly MIR construction", "mirx exporter", "std::sync::Mutex poisoning semantics", "globalcache SyncCache waits on in-process entries"])
