"""C06 — encrypted documents yield their plaintext with either password, and only then.

Decided: cipher key length can reach the cipher's key size (TS); decrypt dominates filtering and
is applied once to the raw range (G1); the exemptions dominate every cipher use and xref /
object-stream members are parsed without a decoder (G2); the object id handed to decrypt is the
one read from the `n g obj` header (PROV); every failed password comparison ends in
InvalidPassword (G3); accepted V values and CFM -> cipher table (TABLE).
"""
import re
import facts as F
from cfg import CFG, ccp_reachable
from flow import Flow, call_sites, arg_local, last_seg
from bounds import slice_len_upper
from sym import PathSym, enum_paths, prefix_to, feasible, walk, show
from tables import enum_switches, exclusive_regions
from inline import inlined

ERR = "error::PdfError"
CIPHER_CALLS = ("new_from_slices", "decrypt_padded_mut", "encrypt_padded_mut")


def is_cipher_call(n, t):
    s = last_seg(n)
    return s in CIPHER_CALLS or n == "crypt::Rc4::encrypt" or n == "crypt::Rc4::new"


def rule_keylen(ctx, f):
    ctx.rule("C06-TS", "at every AES cipher construction from slices the key slice's visible upper bound reaches the cipher's "
             "key size (16 for Aes128, 32 for Aes256)")
    sites = []
    for b in f.bodies.values():
        for bi, t in F.calls(b):
            if t.get("callee", "").endswith("KeyIvInit::new_from_slices"):
                sites.append((b, bi, t))
    if not ctx.floor("C06-TS", len(sites), 2, "AES cipher constructions (new_from_slices)"):
        return
    for b, bi, t in sites:
        st = t.get("self_ty", {}).get("s", "")
        m = re.search(r"Aes(\d+)", st)
        if not m:
            ctx.bad("C06-TS", b["id"] + "#" + st, "cipher type not recognised", t["span"])
            continue
        need = int(m.group(1)) // 8
        ub = slice_len_upper(f, b, arg_local(t, 0))
        key = "%s#%s" % (b["id"], st)
        ctx.check(ub is None or ub >= need, "C06-TS", key,
                  "key slice handed to %s is at most %s bytes long, the cipher needs %d: construction always fails "
                  "(every stream/string decryption reports DecryptionFailure)" % (st, ub, need), t["span"],
                  detail="key bound %s >= %d" % ("unbounded" if ub is None else ub, need))


def rule_objkey(ctx, f):
    ctx.rule("C06-TABLE-objkey", "Algorithm 1: the per-object key handed to RC4 / AES-128 is the first min(n + 5, 16) bytes of the MD5 digest (n = file key length), "
             "not the whole digest")
    b = f.body("crypt::Decoder::decrypt")
    if b is None:
        ctx.lost("C06-TABLE-objkey", "crypt::Decoder::decrypt")
        return
    from flow import Flow
    fl = Flow(b)
    sites = [(bi, t) for bi, t in F.calls(b) if F.callee_name(t).endswith("Rc4::encrypt") or (t.get("callee", "").endswith("KeyIvInit::new_from_slices") and "Aes128" in (t.get("self_ty") or {}).get("s", ""))]
    ctx.floor("C06-TABLE-objkey", len(sites), 2, "per-object cipher keys in Decoder::decrypt (RC4 and AES-128)")
    for bi, t in sites:
        l = arg_local(t, 0)
        names = {last_seg(a[1]) for a in fl.origins(l) if a[0] == "call"} if l is not None else set()
        consts = set()
        plus5 = False
        for a in fl.origins(l) if l is not None else []:
            if a[0] == "call" and last_seg(a[1]) == "min":
                for x in a[3]["args"]:
                    c = F.const_int(x)
                    if c is not None:
                        consts.add(c)
                    elif F.op_local(x) is not None:
                        # the other operand is n + 5
                        plus5 = plus5 or any(y[0] == "binop" and y[1].startswith("Add") and 5 in (F.const_int(y[3][2]), F.const_int(y[3][3]))
                                             for y in fl.origins(F.op_local(x), passthrough=()))
        which = "Rc4" if "Rc4" in F.callee_name(t) else "Aes128"
        ctx.check("min" in names and 16 in consts and plus5, "C06-TABLE-objkey", "crypt::Decoder::decrypt#%s" % which,
                  "the %s object key is not the digest cut to min(n + 5, 16) bytes (origins: %s, constants: %s): documents with file keys shorter than 88 bits "
                  "decrypt to garbage" % (which, sorted(names), sorted(consts)), t["span"], detail="&digest[..(n + 5).min(16)]")


def rule_salts(ctx, f):
    ctx.rule("C06-SIB-salts", "AES-256 handlers: the validation salt (bytes 32..40) and the key salt (bytes 40..48) of /U and of /O are each used as often "
             "as their sibling of the other password (the user and owner branches are mirror images)")
    b = f.body("crypt::Decoder::from_password")
    if b is None:
        ctx.lost("C06-SIB-salts", "crypt::Decoder::from_password")
        return
    from flow import Flow
    # the slicing of /U and /O may sit in a private helper (`split_hash_and_salts(u)?`); the calls the rule speaks about stay calls
    b = inlined(f, b, only=lambda h: last_seg(h["id"]) not in ("revision_6_kdf", "chain_update", "update"))
    fl = Flow(b)
    # locals holding &x[32..40] / &x[40..48]
    salt = {}       # local -> (start, end)
    for bi, t in F.calls(b):
        if last_seg(F.callee_name(t)) == "index" and len(t["args"]) == 2 and "Range<usize>" in t["arg_tys"][1]["s"]:
            rl = F.op_local(t["args"][1])
            for a in fl.origins(rl, passthrough=()) if rl is not None else []:
                if a[0] == "agg":
                    cs = [F.const_int(o) for o in a[3][2]]
                    if cs in ([32, 40], [40, 48]):
                        salt[(bi, tuple(cs))] = t["dest"][0]
    ctx.floor("C06-SIB-salts", len(salt), 4, "salt slices of /U and /O (validation and key)")
    uses = {}
    for (bi, rng), dest in salt.items():
        # all locals that are copies / reborrows of the slice
        n = 0
        for cbi, ct in F.calls(b):
            if last_seg(F.callee_name(ct)) in ("update", "revision_6_kdf", "chain_update"):
                for a in ct["args"]:
                    l = F.op_local(a)
                    if l is not None and any(x[0] == "call" and x[2] == bi and last_seg(x[1]) == "index" for x in fl.origins(l)):
                        n += 1
        uses.setdefault(rng, []).append(n)
    for rng, ns in sorted(uses.items()):
        what = "validation salt" if rng == (32, 40) else "key salt"
        ctx.check(len(ns) == 2 and ns[0] == ns[1] and ns[0] >= 2, "C06-SIB-salts", "from_password#%s" % what.replace(" ", "-"),
                  "the %s of /U and of /O are used %s times: one password's branch hashes the other kind of salt (the password is accepted but the file key "
                  "comes out wrong, or the reverse)" % (what, ns), b["span"], detail="%s used %s times each" % (what, ns))

    # the (intermediate key, wrapped file key) pairs: a key derived with the OWNER key salt unwraps /OE, one derived with the USER key salt /UE
    pairs = 0
    for i, j, st in F.stmts(b):
        if not (st[0] == "assign" and st[2][0] == "aggregate" and st[2][1].get("k") == "tuple" and len(st[2][2]) == 2):
            continue
        kl, wl = F.op_local(st[2][2][0]), F.op_local(st[2][2][1])
        if kl is None or wl is None:
            continue
        fw = set()
        fl.origins(wl, fields=fw)
        wrapped = sorted(x for x in fw if x in ("ue", "oe"))
        if len(wrapped) != 1:
            continue
        sf = set()
        for a in fl.origins(kl):
            if a[0] != "call":
                continue
            seg = last_seg(a[1])
            if seg == "revision_6_kdf":
                for arg in a[3]["args"][1:]:
                    l = F.op_local(arg)
                    if l is not None:
                        fl.origins(l, fields=sf)
            if seg in ("finalize", "finalize_reset"):
                hl = F.op_local(a[3]["args"][0])
                hroots = {x[2] for x in fl.origins(hl) if x[0] == "call" and last_seg(x[1]) == "new"} if hl is not None else set()
                for ubi, ut in F.calls(b):
                    if last_seg(F.callee_name(ut)) in ("update", "chain_update") and len(ut["args"]) >= 2:
                        rl = F.op_local(ut["args"][0])
                        rroots = {x[2] for x in fl.origins(rl) if x[0] == "call" and last_seg(x[1]) == "new"} if rl is not None else set()
                        if rroots & hroots:
                            dl = F.op_local(ut["args"][1])
                            if dl is not None:
                                fl.origins(dl, fields=sf)
        owner_salt = "o" in sf
        pairs += 1
        ok = (wrapped == ["oe"]) == owner_salt and ("u" in sf or "o" in sf)
        ctx.check(ok, "C06-SIB-salts", "from_password#wrapped-key@%d" % pairs, "an intermediate key derived from the %s salt is paired with /%s: the password is accepted "
                  "but the file key that comes out is wrong" % ("owner" if owner_salt else "user", wrapped[0].upper()), b["blocks"][i]["term"].get("span", b["span"]),
                  detail="%s key salt <-> /%s" % ("owner" if owner_salt else "user", wrapped[0].upper()))
    ctx.floor("C06-SIB-salts", pairs, 4, "(intermediate key, wrapped key) pairs of revisions 5 and 6")

    # what a computed hash is compared WITH: the hash made with the validation salt of /O is compared with the first 32 bytes of /O, the one made
    # with the salt of /U with those of /U
    def slices(l, depth=0):
        """{((start, end), entry)}: constant sub-slices of /U or /O that flow into the value, through hashers and the revision-6 kdf"""
        out = set()
        if l is None or depth > 3:
            return out
        atoms = fl.origins(l)
        # where the value can be pinned down to ONE slicing (through tuples and `?`), only that one counts
        rc = fl.root_call([l])
        if rc is not None and last_seg(F.callee_name(rc[1])) == "index":
            atoms = [("call", F.callee_name(rc[1]), rc[0], rc[1])]
        for a in atoms:
            if a[0] != "call":
                continue
            seg = last_seg(a[1])
            if seg == "index" and len(a[3]["args"]) == 2:
                rl = F.op_local(a[3]["args"][1])
                rng = None
                for x in fl.origins(rl, passthrough=()) if rl is not None else []:
                    if x[0] == "agg":
                        cs = [F.const_int(o) for o in x[3][2]]
                        if len(cs) == 2 and None not in cs:
                            rng = tuple(cs)
                fs = set()
                bl = F.op_local(a[3]["args"][0])
                if bl is not None:
                    fl.origins(bl, fields=fs)
                for ent in fs & {"u", "o"}:
                    if rng is not None:
                        out.add((rng, ent))
            if seg == "revision_6_kdf":
                for arg in a[3]["args"][1:2]:
                    out |= slices(F.op_local(arg), depth + 1)
            if seg in ("finalize", "finalize_reset"):
                hl = F.op_local(a[3]["args"][0])
                hroots = {x[2] for x in fl.origins(hl) if x[0] == "call" and last_seg(x[1]) == "new"} if hl is not None else set()
                for ubi, ut in F.calls(b):
                    if last_seg(F.callee_name(ut)) in ("update", "chain_update") and len(ut["args"]) >= 2:
                        rl2 = F.op_local(ut["args"][0])
                        rroots = {x[2] for x in fl.origins(rl2) if x[0] == "call" and last_seg(x[1]) == "new"} if rl2 is not None else set()
                        if rroots & hroots:
                            out |= slices(F.op_local(ut["args"][1]), depth + 1)
        return out
    ncmp = 0
    for bi, t in F.calls(b):
        if not (t.get("dest") and b["locals"][t["dest"][0]]["s"] == "bool" and last_seg(F.callee_name(t)) in ("eq", "ne") and len(t["args"]) == 2 and
                "u8" in (t.get("callee_full", "") + t.get("resolved_full", ""))):
            continue
        sa, sb_ = slices(arg_local(t, 0)), slices(arg_local(t, 1))
        for comp, stored in ((sa, sb_), (sb_, sa)):
            salt_e = {e for r, e in comp if r == (32, 40)}
            hash_e = {e for r, e in stored if r == (0, 32)}
            if salt_e and hash_e and not {e for r, e in stored if r == (32, 40)}:
                ncmp += 1
                ctx.check(len(salt_e) == 1 and salt_e == hash_e, "C06-SIB-salts", "from_password#hash-compared@%d" % ncmp, "a hash computed with the validation salt of /%s is "
                          "compared with the hash stored in /%s: the right password of one kind is refused" % ("/".join(sorted(x.upper() for x in salt_e)), "/".join(sorted(x.upper() for x in hash_e))),
                          t["span"], detail="hash(.., /%s[32..40]) == /%s[0..32]" % ("".join(sorted(salt_e)).upper(), "".join(sorted(hash_e)).upper()))
                break
    ctx.floor("C06-SIB-salts", ncmp, 4, "comparisons of a computed hash with the stored one (user and owner, revisions 5 and 6)")


def rule_order(ctx, f):
    ctx.rule("C06-G1", "in the stream decoder the decrypt call is applied once to the raw backend range and dominates the "
             "first filter application")
    cands = []
    for b in f.bodies.values():
        d = call_sites(b, lambda n, t: n == "crypt::Decoder::decrypt")
        e = call_sites(b, lambda n, t: n == "enc::decode")
        if d and e:
            cands.append((b, d, e))
    if not ctx.floor("C06-G1", len(cands), 1, "body that decrypts and then applies filters"):
        return
    for b, d, e in cands:
        cfg = CFG(b)
        fl = Flow(b)
        loops = cfg.loops()
        inloop = lambda bb: any(bb in blk for blk in loops.values())
        ok1 = len(d) == 1 and not inloop(d[0][0])
        ctx.check(ok1, "C06-G1", b["id"] + "#once", "decrypt is applied %d times / inside a loop" % len(d), b["span"], detail="one decrypt, outside the filter loop")
        # data argument derives from Backend::read
        dl = arg_local(d[0][1], 2)
        src = fl.origins(dl, at=d[0][0], cfg=cfg)
        from_read = any(a[0] == "call" and last_seg(a[1]) == "read" for a in src)
        from_dec = any(a[0] == "call" and a[1] == "enc::decode" for a in src)
        ctx.check(from_read and not from_dec, "C06-G1", b["id"] + "#raw", "decrypt is not applied to the raw backend bytes", d[0][1]["span"], detail="decrypt(raw range)")
        # order: no path entry -> decode that avoids the decoder test; and decrypt can reach decode but not vice versa
        ok3 = all(cfg.can_reach(d[0][0], x[0]) and not cfg.can_reach(x[0], d[0][0]) for x in e)
        ctx.check(ok3, "C06-G1", b["id"] + "#order", "a filter is applied before decryption", b["span"], detail="decrypt precedes every enc::decode")
        # the only way around decrypt is the `decoder is None` branch
        sw = None
        for i, bb in enumerate(b["blocks"]):
            t = bb["term"]
            if t["k"] == "switch" and cfg.dominates(i, d[0][0]):
                dl2 = F.op_local(t["discr"])
                for s in bb["stmts"]:
                    if s[0] == "assign" and s[1] == [dl2] and s[2][0] == "discr":
                        pl = s[2][1]
                        if any(e2[0] == "field" and e2[2] == "decoder" for e2 in pl[1:]):
                            sw = i
        ctx.check(sw is not None, "C06-G1", b["id"] + "#guard", "decryption is not conditional on the presence of a decoder only",
                  b["span"], detail="skipped only when Storage.decoder is None")
        # nothing gets around the decoder test: every path from the entry to a normal return passes it (an early return, say for a stream without
        # filters, hands out ciphertext)
        if sw is not None:
            errs = {i2 for i2, bb2 in enumerate(b["blocks"]) if bb2["term"]["k"] == "call" and last_seg(F.callee_name(bb2["term"])) == "from_residual"} | \
                   {i2 for i2, j2, s2 in F.stmts(b) if s2[0] == "assign" and s2[2][0] == "aggregate" and s2[2][1].get("variant") == "Err"}
            ok5 = cfg.all_paths_pass(0, cfg.exits, {sw} | errs)
            ctx.check(ok5, "C06-G1", b["id"] + "#no-bypass", "a path returns data without passing the test for a decoder: such streams come back encrypted",
                      b["span"], detail="every non-error return is behind `if let Some(decoder)`")
        # id argument is the function's id parameter
        il = arg_local(d[0][1], 1)
        ctx.check(il is not None and fl.derives_from_arg(il), "C06-PROV", b["id"] + "#id",
                  "the object id passed to decrypt is not the stream's id", d[0][1]["span"], detail="decrypt(id parameter)")


def rule_exempt(ctx, f):
    ctx.rule("C06-G2", "in Decoder::decrypt the tests for the /Encrypt object, for (metadata and not EncryptMetadata) and for "
             "empty data dominate every cipher use and return the data untouched; xref streams are parsed without a decoder")
    b = f.body("crypt::Decoder::decrypt")
    if b is None:
        ctx.lost("C06-G2", "crypt::Decoder::decrypt")
        return
    cfg = CFG(b)
    fl = Flow(b)
    ciphers = [bi for bi, t in F.calls(b) if is_cipher_call(F.callee_name(t), t)]
    ctx.floor("C06-G2", len(ciphers), 5, "cipher uses in Decoder::decrypt")
    tests = {}
    n_of = {}
    for bi, t in F.calls(b):
        n = F.callee_name(t)
        n_of[bi] = n
        if last_seg(n) in ("eq", "ne") and "Option<object::PlainRef>" in t.get("callee_full", "") + t.get("resolved_full", ""):
            flds = set()
            for k in range(len(t["args"])):
                l = arg_local(t, k)
                if l is not None:
                    fl.origins(l, fields=flds)
            for nm in ("encrypt_indirect_object", "metadata_indirect_object"):
                if nm in flds:
                    tests[nm] = (bi, t)
        if last_seg(n) == "is_empty":
            tests["empty"] = (bi, t)
    for nm in ("encrypt_indirect_object", "metadata_indirect_object", "empty"):
        if nm not in tests:
            ctx.bad("C06-G2", "crypt::Decoder::decrypt#" + nm, "exemption test on %s is missing" % nm, b["span"])
            continue
        bi, t = tests[nm]
        sw = b["blocks"][t["target"]]["term"]
        ok = False
        if sw["k"] == "switch" and F.op_local(sw["discr"]) == t["dest"][0]:
            # the "true" successor must return without a cipher call, with _0 = Ok(data)
            true_t = None
            for a in sw["arms"]:
                if a[0] == 1:
                    true_t = a[1]
            if true_t is None:
                true_t = sw["otherwise"]
            reg = cfg.reachable_from(true_t)
            ok = not (reg & set(ciphers)) and any(b["blocks"][r]["term"]["k"] == "return" for r in reg)
        if not ok and t.get("target") is not None and t.get("dest") and len(t["dest"]) == 1:
            # the outcome may be kept in a variable and tested later (`let in_encrypt_dict = ..; if in_encrypt_dict || .. { return Ok(data) }`):
            # with the test assumed true, constant propagation reaches a return and no cipher
            reg = ccp_reachable(b, t["target"], init={t["dest"][0]: 0 if last_seg(n_of[bi]) == "ne" else 1})
            ok = not (reg & set(ciphers)) and any(b["blocks"][r]["term"]["k"] == "return" for r in reg)
        # `eq` dominates all ciphers — except metadata test, which is only evaluated when encrypt_metadata is false
        if nm == "metadata_indirect_object":
            # the combined test (encrypt_metadata switch) must dominate
            em = None
            for i, bb in enumerate(b["blocks"]):
                tt = bb["term"]
                if tt["k"] == "switch":
                    dl = F.op_local(tt["discr"])
                    for s in bb["stmts"]:
                        if s[0] == "assign" and s[1] == [dl] and s[2][0] == "use" and F.op_place(s[2][1]) and \
                                any(e[0] == "field" and e[2] == "encrypt_metadata" for e in F.op_place(s[2][1])[1:]):
                            em = i
            dom = em is not None and all(cfg.dominates(em, c) for c in ciphers) and cfg.dominates(em, bi)
            # and when encrypt_metadata is false, the eq test lies on every path to a cipher
            if dom:
                false_t = [a[1] for a in b["blocks"][em]["term"]["arms"] if a[0] == 0]
                if false_t:
                    dom = all(cfg.all_paths_pass(false_t[0], [c], {bi}) for c in ciphers)
        else:
            dom = all(cfg.dominates(bi, c) for c in ciphers)
        ctx.check(ok and dom, "C06-G2", "crypt::Decoder::decrypt#" + nm,
                  "the %s exemption does not protect every cipher use (returns-untouched=%s, dominates=%s)" % (nm, ok, dom),
                  t["span"], detail="%s test dominates %d cipher uses and returns the data unmodified" % (nm, len(ciphers)))
    # where the two exempt objects are recorded: encrypt_indirect_object <- the trailer's /Encrypt reference, metadata_indirect_object <- the
    # catalog's /Metadata reference
    want = {"encrypt_indirect_object": "Encrypt", "metadata_indirect_object": "Metadata"}
    seen_fields = set()
    for bb in f.bodies.values():
        bfl = None
        for i, j, st in F.stmts(bb):
            if st[0] == "assign" and len(st[1]) > 1 and st[1][-1][0] == "field" and st[1][-1][2] in want and bb["id"] != "crypt::Decoder::new":
                fld = st[1][-1][2]
                bfl = bfl or Flow(bb)
                rv = st[2]
                ops = [rv[1]] if rv[0] == "use" else (list(rv[2]) if rv[0] == "aggregate" else [])
                keys = set()
                for o in ops:
                    l = F.op_local(o)
                    for a in bfl.origins(l) if l is not None else []:
                        if a[0] == "const" and isinstance(a[1], dict) and "str" in a[1]:
                            keys.add(a[1]["str"])
                nones = rv[0] == "aggregate" and rv[1].get("variant") == "None"
                if nones:
                    continue
                seen_fields.add(fld)
                ctx.check(keys == {want[fld]}, "C06-G2", "%s#%s" % (bb["id"], fld), "Decoder.%s is set from the dictionary key(s) %s (expected /%s): the wrong object is exempted "
                          "from decryption and the right one is not" % (fld, sorted(keys), want[fld]), bb["blocks"][i]["term"].get("span", bb["span"]), detail="%s <- /%s" % (fld, want[fld]))
    ctx.floor("C06-G2", len(seen_fields), 2, "exempt-object fields that are assigned (encrypt_indirect_object, metadata_indirect_object)")
    # xref stream parsed without decoder
    n = 0
    for bb in f.bodies.values():
        for bi, t in call_sites(bb, lambda nm, t: last_seg(nm) == "parse_indirect_stream"):
            n += 1
            l = arg_local(t, 2)
            if l is None:
                ctx.bad("C06-G2", bb["id"] + "#xref-decoder", "decoder argument is not a local", t["span"])
                continue
            ats = Flow(bb).origins(l)
            none_only = all((a[0] == "agg" and a[1].get("variant") == "None") for a in ats if a[0] in ("agg", "arg", "call"))
            ctx.check(none_only and ats, "C06-G2", bb["id"] + "#xref-decoder",
                      "the cross-reference stream is parsed with a decoder (it is never encrypted)", t["span"],
                      detail="parse_indirect_stream(.., None)")
    ctx.floor("C06-G2", n, 1, "parse_indirect_stream call sites")
    # object-stream members: parse(slice, resolve, flags) has no decoder parameter -> ctx None
    p = f.body("parser::parse_with_lexer")
    if p is None:
        ctx.lost("C06-G2", "parser::parse_with_lexer")
    else:
        cs = call_sites(p, lambda nm, t: last_seg(nm) == "parse_with_lexer_ctx")
        ok = bool(cs)
        for bi, t in cs:
            l = arg_local(t, 2)
            ats = Flow(p).origins(l) if l is not None else []
            if not ats or not all(a[0] == "agg" and a[1].get("variant") == "None" for a in ats if a[0] in ("agg", "arg", "call")):
                ok = False
        ctx.check(ok, "C06-G2", "parser::parse_with_lexer#no-context", "members of object streams would be decrypted a second time",
                  p["span"], detail="parse_with_lexer passes ctx = None")

    # ... and the compressed arm of the object lookup does not bring a decoder of its own: the member bytes come out of an object
    # stream that was decrypted as a whole
    lk = [b for b in f.bodies.values() if call_sites(b, lambda n, t: n == "xref::XRefTable::get") and
          call_sites(b, lambda n, t: last_seg(n) == "parse_indirect_object")]
    ctx.floor("C06-G2", len(lk), 1, "object lookup (XRefTable::get + parse_indirect_object)")
    for b in lk:
        cfg = CFG(b)
        xv = {v["vi"]: v["name"] for v in f.adts["xref::XRef"]["variants"]}
        sws = enum_switches(b, "xref::XRef", f)
        if not sws:
            ctx.lost("C06-G2", "switch on the xref entry in " + b["id"])
            continue
        i, pl, arms, other = sws[0]
        regs = exclusive_regions(cfg, {xv[k]: tg for k, tg in arms.items()})
        out = {}
        for vn in ("Raw", "Stream"):
            reg = regs.get(vn, set()) | {arms[k] for k in arms if xv[k] == vn}
            uses = False
            for r in reg:
                bb = b["blocks"][r]
                for st in bb["stmts"]:
                    if st[0] == "assign":
                        rv = st[2]
                        pls = [rv[1]] if rv[0] in ("ref", "rawptr", "discr") else [F.op_place(o) for o in ([rv[1]] if rv[0] == "use" else [])]
                        for q in pls:
                            if q and any(e[0] == "field" and e[2] == "decoder" for e in q[1:]):
                                uses = True
                        if rv[0] == "aggregate" and rv[1].get("adt") == "parser::Context":
                            uses = True
            out[vn] = uses
        ctx.check(out.get("Raw") and not out.get("Stream"), "C06-G2", b["id"] + "#decoder-arms",
                  "the decoder reaches the parser in the arms %s of the object lookup (expected: the direct arm only - members of an object stream were "
                  "decrypted with the stream and would be decrypted twice)" % sorted(k for k, v in out.items() if v), b["blocks"][i]["term"]["span"],
                  detail="Storage.decoder is read in the Raw arm only")


def rule_identity(ctx, f):
    ctx.rule("C06-PROV", "the PlainRef given to Decoder::decrypt for strings is the one read from the `n g obj` header; the stream's "
             "InFile id is the same header id")
    # Context::decrypt passes self.id
    b = f.body("parser::Context::<'a>::decrypt")
    if b is None:
        ctx.lost("C06-PROV", "parser::Context::decrypt")
    else:
        fl = Flow(b)
        for bi, t in call_sites(b, lambda n, t: n == "crypt::Decoder::decrypt"):
            flds = set()
            fl.origins(arg_local(t, 1), fields=flds)
            ctx.check("id" in flds, "C06-PROV", b["id"] + "#id", "Context::decrypt does not pass its own id", t["span"], detail="decrypt(self.id, ..)")
    # both string forms ( (...) and <...> ) are decrypted: every Primitive::String the object parser builds holds bytes that went through
    # Context::decrypt when a context is there
    pp = f.body("parser::_parse_with_lexer_ctx")
    if pp is None:
        ctx.lost("C06-PROV", "parser::_parse_with_lexer_ctx")
    else:
        pfl = Flow(pp)
        ns = 0
        for i, j, st in F.stmts(pp):
            if st[0] == "assign" and st[2][0] == "aggregate" and st[2][1].get("adt") == "primitive::Primitive" and st[2][1].get("variant") == "String":
                ns += 1
                l = F.op_local(st[2][2][0])
                from flow import PASS_LAST
                names = {last_seg(a[1]) for a in pfl.origins(l, passthrough=PASS_LAST + ("new",)) if a[0] == "call"} if l is not None else set()
                ctx.check("decrypt" in names, "C06-PROV", "_parse_with_lexer_ctx#string-%d-decrypted" % ns, "a string form is built without passing through Context::decrypt: "
                          "such strings of an encrypted document come back as ciphertext", pp["blocks"][i]["term"].get("span", pp["span"]), detail="string = ctx.decrypt(string)")
        ctx.floor("C06-PROV", ns, 2, "Primitive::String constructions in the object parser (literal and hexadecimal)")
        # nested values (array elements, dictionary values, the dictionary of a stream) are parsed with the very same context: strings inside
        # them are encrypted like any other
        nrec = 0
        for pb in [x for x in f.bodies.values() if x.get("_file") == pp.get("_file") and x["kind"] != "Closure"]:
          cpar = [k for k in range(1, pb["argc"] + 1) if "parser::Context" in pb["locals"][k]["s"] and pb["locals"][k]["s"].startswith("std::option::Option<")]
          if not cpar:
              continue
          pfl = Flow(pb)
          for bi, t in F.calls(pb):
              cb = f.bodies.get(t.get("resolved") or "") if t.get("resolved_local") else None
              if cb is None or cb["kind"] == "Closure":
                  continue
              cpos = [k for k in range(1, cb["argc"] + 1) if "parser::Context" in cb["locals"][k]["s"] and cb["locals"][k]["s"].startswith("std::option::Option<")]
              for k in cpos:
                  nrec += 1
                  l = arg_local(t, k - 1)
                  ok = bool(cpar) and l is not None and any(pfl.derives_from_arg(l, c0, passthrough=()) for c0 in cpar) and \
                      not any(a[0] == "agg" for a in pfl.origins(l, passthrough=()))
                  ctx.check(ok, "C06-PROV", "%s#ctx-handed-down@%d" % (pb["id"], nrec), "a nested value is parsed without the decryption context of the enclosing object (the "
                            "argument is not the function's own context parameter): strings inside arrays / dictionaries of an encrypted document come back as ciphertext",
                            t["span"], detail="%s(.., ctx, ..)" % last_seg(F.callee_name(t)))
        ctx.floor("C06-PROV", nrec, 3, "nested parses in the object parser (array elements, dictionary values, stream dictionaries)")
    n = 0
    for nm in ("parser::parse_object::parse_indirect_object", "parser::parse_object::parse_indirect_stream"):
        b = f.body(nm)
        if b is None:
            ctx.lost("C06-PROV", nm)
            continue
        b = inlined(f, b)        # the `<nr> <gen> obj` header may be read by a private helper
        fl = Flow(b)
        for i, j, s in F.stmts(b):
            if s[0] == "assign" and s[2][0] == "aggregate" and s[2][1].get("adt") == "parser::Context":
                names = s[2][1]["fields"]
                idop = s[2][2][names.index("id")]
                l = F.op_local(idop)
                ats = fl.origins(l, passthrough=("branch", "from_residual")) if l is not None else []
                # exactly one PlainRef aggregate flows (by copies only) into Context.id; its id / gen
                # operands come from the first / second Lexer::next() of the body
                aggs = [a for a in ats if a[0] == "agg" and a[1].get("adt") == "object::PlainRef"]
                lex = []
                if len(aggs) == 1:
                    rv = aggs[0][3]
                    fnames = rv[1]["fields"]
                    cfgb = CFG(b)
                    for fname in ("id", "gen"):
                        ol = F.op_local(rv[2][fnames.index(fname)])
                        oa = fl.origins(ol) if ol is not None else []
                        nx = sorted({a[2] for a in oa if a[0] == "call" and a[1].endswith("Lexer::<'a>::next")})
                        consts = [a for a in oa if a[0] == "const" and "int" in a[1]]
                        lex.append(nx if not consts else [])
                    if len(lex) == 2 and len(lex[0]) == 1 and len(lex[1]) == 1 and lex[0] != lex[1] and \
                            cfgb.dominates(lex[0][0], lex[1][0]):
                        lex = [1, 2]
                    else:
                        lex = []
                n += 1
                ctx.check(len(aggs) == 1 and len(lex) >= 2, "C06-PROV", nm + "#ctx-id",
                          "the decryption context's id is not built from the two header lexemes", b["span"],
                          detail="Context.id = PlainRef{id: next().to(), gen: next().to()}")
                dop = s[2][2][names.index("decoder")]
                dl = F.op_local(dop)
                ctx.check(dl is not None and fl.derives_from_arg(dl), "C06-PROV", nm + "#ctx-decoder",
                          "the context's decoder is not the caller's", b["span"], detail="Context.decoder = decoder parameter")
    ctx.floor("C06-PROV", n, 2, "Context constructions in indirect-object parsers")
    b = f.body("parser::parse_stream_object")
    if b is None:
        ctx.lost("C06-PROV", "parser::parse_stream_object")
    else:
        fl = Flow(b)
        ok = False
        for i, j, s in F.stmts(b):
            if s[0] == "assign" and s[2][0] == "aggregate" and s[2][1].get("variant") == "InFile":
                names = s[2][1]["fields"]
                l = F.op_local(s[2][2][names.index("id")])
                flds = set()
                ats = fl.origins(l, fields=flds) if l is not None else []
                ok = "id" in flds and any(a[0] == "arg" for a in ats)
        ctx.check(ok, "C06-PROV", "parser::parse_stream_object#infile-id", "the stream's id is not the context's id", b["span"], detail="InFile.id = ctx.id")


def rule_wrongpw(ctx, f):
    ctx.rule("C06-G3", "in from_password every path on which the last password comparison fails constructs PdfError::InvalidPassword")
    b = f.body("crypt::Decoder::from_password")
    if b is None:
        ctx.lost("C06-G3", "crypt::Decoder::from_password")
        return
    cfg = CFG(b)
    cmps = []
    for bi, t in F.calls(b):
        n = F.callee_name(t)
        if (t.get("dest") and b["locals"][t["dest"][0]]["s"] == "bool" and
                (last_seg(n).startswith("check_password") or (last_seg(n) in ("eq", "ne") and "u8" in (t.get("callee_full", "") + t.get("resolved_full", ""))))):
            cmps.append((bi, t))
    ctx.floor("C06-G3", len(cmps), 6, "password comparisons in from_password (2 RC4 + 2 R6 + 2 R5)")
    inv = set()
    for i, j, s in F.stmts(b):
        if s[0] == "assign" and s[2][0] == "aggregate" and s[2][1].get("adt") == ERR and s[2][1]["variant"] == "InvalidPassword":
            inv.add(i)
    rets = cfg.exits
    cmpbbs = {c[0] for c in cmps}
    for bi, t in cmps:
        sw = b["blocks"][t["target"]]["term"]
        if sw["k"] != "switch" or F.op_local(sw["discr"]) != t["dest"][0]:
            ctx.bad("C06-G3", "from_password#cmp@%s" % last_seg(F.callee_name(t)), "comparison result does not control a branch", t["span"])
            continue
        isne = last_seg(F.callee_name(t)) == "ne"
        false_t = None
        for a in sw["arms"]:
            if a[0] == (1 if isne else 0):
                false_t = a[1]
        if false_t is None:
            false_t = sw["otherwise"]
        others = cmpbbs - {bi}
        reach = cfg.reachable_from(false_t)
        newdec = {x for x, tt in F.calls(b) if F.callee_name(tt) == "crypt::Decoder::new"}
        # (a) a failed comparison never leads to a Decoder without another comparison in between
        ok = all(cfg.all_paths_pass(false_t, [nd], others) for nd in newdec)
        # (b) the last comparison's failure is reported as InvalidPassword
        if not (reach & others):
            ok = ok and cfg.all_paths_pass(false_t, rets, inv)
        # identify the comparison by its rank among comparisons (dominance order), not by line
        rank = sorted(cmpbbs).index(bi)
        ctx.check(ok, "C06-G3", "crypt::Decoder::from_password#comparison-%d" % rank,
                  "a failed password comparison can return without constructing InvalidPassword (and without trying the other password)",
                  t["span"], detail="mismatch -> other password or Err(InvalidPassword)")
    ctx.floor("C06-G3", len(inv), 3, "InvalidPassword construction sites in from_password")


def rule_no_retry(ctx, f):
    ctx.rule("C06-G4", "a rejected password is final: a load enters the document loader once, with the caller's password (no second attempt with another - e.g. the "
             "empty - password after InvalidPassword),)")
    n = 0
    for b in f.bodies.values():
        if b["kind"] == "Closure":
            continue
        ld = [(bi, t) for bb in f.with_closures(b["id"]) for bi, t in F.calls(bb) if last_seg(F.callee_name(t)) in ("load_storage_and_trailer_password", "load_storage_and_trailer")
              and "Storage" in F.callee_name(t)]
        if not ld or last_seg(b["id"]).startswith("load_storage_and_trailer"):
            continue
        n += 1
        ctx.check(len(ld) == 1, "C06-G4", b["id"] + "#one-attempt", "%s enters the document loader %d times: after a wrong password another one is tried, so a wrong password opens the "
                  "document" % (b["id"], len(ld)), ld[-1][1]["span"], detail="one call of load_storage_and_trailer_password(password)")
    ctx.floor("C06-G4", n, 1, "bodies that start a load")

def rule_table(ctx, f):
    ctx.rule("C06-TABLE", "accepted /V values are {1,2,4,5,6}, revisions 2..6; the name->CryptMethod table reads None, V2, AESV2, AESV3")
    b = f.body("crypt::Decoder::from_password")
    if b is None:
        return
    # constants the /V value is compared with
    fl = Flow(b)
    vals = set()
    for i, bb in enumerate(b["blocks"]):
        t = bb["term"]
        if t["k"] == "switch" and t["discr_ty"] == "i32":
            pl = F.op_place(t["discr"])
            flds = set()
            if pl is not None:
                Flow._note_fields(pl, flds)
                if len(pl) == 1:
                    fl.origins(pl[0], fields=flds, passthrough=())
            if "v" in flds:
                vals |= {a[0] for a in t["arms"]}
    # range 4..=6 lowers to Le/Ge comparisons
    rng = set()
    for i, j, s in F.stmts(b):
        if s[0] == "assign" and s[2][0] == "binop" and s[2][1] in ("Le", "Ge", "Lt", "Gt"):
            for a, c in ((s[2][2], s[2][3]), (s[2][3], s[2][2])):
                pl = F.op_place(a)
                ci = F.const_int(c)
                if pl is not None and ci is not None:
                    flds = set()
                    Flow._note_fields(pl, flds)
                    if len(pl) == 1:
                        fl.origins(pl[0], fields=flds, passthrough=())
                    if "v" in flds:
                        rng.add(ci)
    ok = {1, 2} <= vals and rng == {4, 6}
    ctx.check(ok, "C06-TABLE", "crypt::Decoder::from_password#V", "accepted /V values changed: exact %s range bounds %s" % (sorted(vals), sorted(rng)),
              b["span"], detail="V in {1, 2} or 4..=6")
    # method selection: V 1/2 -> constant V2; V 4..6 -> the crypt filter's own CFM
    cfgb = CFG(b)
    vsw = None
    for i, bb in enumerate(b["blocks"]):
        t = bb["term"]
        if t["k"] == "switch" and t["discr_ty"] == "i32":
            pl = F.op_place(t["discr"])
            if pl is not None and any(e[0] == "field" and e[2] == "v" for e in pl[1:]):
                vsw = (i, t)
    if vsw is None:
        ctx.lost("C06-TABLE", "switch on CryptDict.v")
    else:
        i, t = vsw
        low = set()
        for a in t["arms"]:
            if a[0] in (1, 2):
                low |= cfgb.reachable_from(a[1], avoid={t["otherwise"]}) - cfgb.reachable_from(t["otherwise"])
        ntup = 0
        for bi, j, s in F.stmts(b):
            if s[0] == "assign" and s[2][0] == "aggregate" and s[2][1]["k"] == "tuple" and len(s[2][2]) == 2 and \
                    b["locals"][s[1][0]]["s"] == "(u32, crypt::CryptMethod)":
                ntup += 1
                op = s[2][2][1]
                l = F.op_local(op)
                flds = set()
                ats = fl.origins(l, fields=flds, passthrough=()) if l is not None else []
                const_variants = {a[1].get("variant") for a in ats if a[0] == "agg" and a[1].get("adt") == "crypt::CryptMethod"}
                if bi in low:
                    ok = const_variants == {"V2"} and "method" not in flds
                    what = "V 1/2 -> RC4 (V2)"
                else:
                    ok = "method" in flds and not const_variants
                    what = "V 4..6 -> the crypt filter's CFM"
                ctx.check(ok, "C06-TABLE", "crypt::Decoder::from_password#method-%s" % ("low" if bi in low else "cf"),
                          "cipher method selection changed: expected %s, found constants %s / fields %s" % (what, sorted(const_variants), sorted(flds)),
                          b["blocks"][bi]["term"]["span"], detail=what)
        ctx.floor("C06-TABLE", ntup, 4, "(key_bits, method) selections in from_password")
    # CryptMethod reader
    rb = f.impl_method("object::Object", "crypt::CryptMethod", "from_primitive")
    if rb is None:
        ctx.lost("C06-TABLE", "<CryptMethod as Object>::from_primitive")
        return
    names = set()
    for bi, t in F.calls(rb):
        if "PartialEq" in t.get("callee", "") or last_seg(F.callee_name(t)) == "eq":
            for a in t["args"]:
                s = F.const_str(a)
                if s is not None:
                    names.add(s)
    ctx.check(names == {"None", "V2", "AESV2", "AESV3"}, "C06-TABLE", "crypt::CryptMethod#names",
              "crypt filter method names read: %s" % sorted(names), rb["span"], detail="CFM names None/V2/AESV2/AESV3")
    # decrypt: method -> cipher family
    d = f.body("crypt::Decoder::decrypt")
    if d is not None:
        cfg = CFG(d)
        mv = {v["vi"]: v["name"] for v in f.adts["crypt::CryptMethod"]["variants"]}
        for i, bb in enumerate(d["blocks"]):
            t = bb["term"]
            if t["k"] != "switch":
                continue
            dl = F.op_local(t["discr"])
            if not any(s[0] == "assign" and s[1] == [dl] and s[2][0] == "discr" and
                       any(e[0] == "field" and e[2] == "method" for e in s[2][1][1:]) for s in bb["stmts"]):
                continue
            arms = {a[0]: a[1] for a in t["arms"]}
            want = {"V2": "Rc4", "AESV2": "Aes128", "AESV3": "Aes256"}
            for vi, vn in mv.items():
                if vn not in want:
                    continue
                others = {tg for v2, tg in arms.items() if v2 != vi}
                reg = cfg.reachable_from(arms.get(vi, t["otherwise"]), avoid=others)
                fams = set()
                for r in reg:
                    tt = d["blocks"][r]["term"]
                    if tt["k"] == "call" and is_cipher_call(F.callee_name(tt), tt):
                        s = tt.get("self_ty", {}).get("s", "") + F.callee_name(tt)
                        for fam in ("Rc4", "Aes128", "Aes256"):
                            if fam in s:
                                fams.add(fam)
                ctx.check(fams == {want[vn]}, "C06-TABLE", "crypt::Decoder::decrypt#method=" + vn,
                          "crypt method %s uses cipher(s) %s, expected %s" % (vn, sorted(fams), want[vn]), t["span"],
                          detail="%s -> %s" % (vn, want[vn]))


def rule_padding(ctx, f):
    ctx.rule("C06-PAD", "AES strings and streams end in 1..=16 padding bytes (a block-aligned plaintext gets a whole block of 0x10): the data cipher strips "
             "PKCS#7 padding; the key-unwrapping ciphers of revisions 5/6 use none")
    want = {"crypt::Decoder::decrypt": "Pkcs7", "crypt::Decoder::from_password": "NoPadding", "crypt::Decoder::revision_6_kdf": "NoPadding"}
    n = 0
    for bid, pad in want.items():
        b = f.body(bid)
        if b is None:
            ctx.lost("C06-PAD", bid)
            continue
        for k, (bi, t) in enumerate(call_sites(b, lambda nm, t: last_seg(nm) in ("decrypt_padded_mut", "encrypt_padded_mut", "decrypt_padded_vec_mut", "encrypt_padded_vec_mut",
                                                                                 "decrypt_padded_b2b_mut", "encrypt_padded_b2b_mut"))):
            n += 1
            got = [last_seg(x) for x in (t.get("targs") or [])[1:]]
            ok = got == [pad]
            if not ok and pad == "Pkcs7" and got == ["NoPadding"]:
                # hand-written unpadding: the pad byte is compared with the block size inclusively (n <= 16 / n > 16 / n < 17 / n >= 17)
                cmps = set()
                todo = [b] + [f.bodies[t2.get("resolved")] for _, t2 in F.calls(b) if t2.get("resolved_local") and t2.get("resolved") in f.bodies]
                for x in todo:
                    for i, j, st in F.stmts(x):
                        if st[0] == "assign" and st[2][0] == "binop" and st[2][1] in ("Lt", "Le", "Gt", "Ge"):
                            for side, o in ((0, st[2][2]), (1, st[2][3])):
                                c = F.const_int(o)
                                if c in (16, 17):
                                    op = st[2][1] if side == 1 else {"Lt": "Gt", "Le": "Ge", "Gt": "Lt", "Ge": "Le"}[st[2][1]]
                                    cmps.add((op, c))
                ok = bool(cmps & {("Le", 16), ("Gt", 16), ("Lt", 17), ("Ge", 17)}) and not (cmps & {("Lt", 16), ("Ge", 16)})
            ctx.check(ok, "C06-PAD", "%s#padding@%d" % (bid, k), "the cipher call uses padding %s (expected %s): %s" % (
                got, pad, "plaintexts whose length is a multiple of 16 keep their 16 padding bytes" if pad == "Pkcs7" else "the unwrapped file key is rejected or cut"),
                t["span"], detail="%s::<%s>" % (last_seg(F.callee_name(t)), pad))
    ctx.floor("C06-PAD", n, 4, "padded cipher calls (2 data ciphers, 2 key ciphers)")


def rule_pw_pad(ctx, f):
    ctx.rule("C06-SIB-pad", "Algorithm 2 / 3 step a: the user and the owner key derivations both pad OR truncate the password to 32 bytes: each hashes `&pass[..32]` on "
             "one branch and the password followed by `&PADDING[..32 - len]` on the other")
    hs = [b for k, b in f.bodies.items() if "key_derivation_" in k.split("::")[-1] and b["kind"] != "Closure"]
    if not ctx.floor("C06-SIB-pad", len(hs), 2, "password key derivations (user, owner)"):
        return
    from inline import inlined
    for b0 in hs:
        b = inlined(f, b0)          # a helper shared by both derivations (`consume_padded_password`) is read in place
        fl = Flow(b)
        cut = pad = False
        for bi, t in F.calls(b):
            if last_seg(F.callee_name(t)) == "index" and len(t["args"]) == 2 and "RangeTo<usize>" in t["arg_tys"][1]["s"]:
                rl = F.op_local(t["args"][1])
                ends = []
                for a in fl.origins(rl, passthrough=()) if rl is not None else []:
                    if a[0] == "agg":
                        ends += [F.const_int(o) for o in a[3][2]]
                base_param = any(a[0] == "arg" for a in fl.origins(F.op_local(t["args"][0]))) if F.op_local(t["args"][0]) is not None else False
                if 32 in ends and base_param and "[u8; 32]" not in t["arg_tys"][0]["s"]:
                    cut = True
                if "[u8; 32]" in t["arg_tys"][0]["s"]:
                    pad = True
        cmp32 = any(st[0] == "assign" and st[2][0] == "binop" and st[2][1] in ("Lt", "Le", "Gt", "Ge") and 32 in (F.const_int(st[2][2]), F.const_int(st[2][3])) for i, j, st in F.stmts(b))
        ctx.check(cut and pad and cmp32, "C06-SIB-pad", b["id"].split("::")[-1] + "#pad-or-truncate", "the password is not padded or truncated to 32 bytes in %s (truncation %s, "
                  "padding %s, length test %s): a password longer than 32 bytes that the sibling derivation accepts is rejected here" % (b["id"].split("::")[-1], cut, pad, cmp32),
                  b["span"], detail="len < 32 ? pass + PADDING[..32 - len] : pass[..32]")


def rule_alg2f(ctx, f):
    """seeded C06-9: Algorithm 2 step f - the four 0xFF bytes enter the key hash only for revision 4 or greater with /EncryptMetadata false; a
    revision 2/3 dictionary may carry the (meaningless) entry, and hashing the bytes there rejects the right password"""
    ctx.rule("C06-ALG2f", "the hash update with the four 0xFF bytes (Algorithm 2 step f) is dominated by a test of the revision against 4 and by a test "
             "of the dictionary's encrypt_metadata field")
    n = 0
    for b in f.bodies.values():
        if not b["id"].startswith("crypt::"):
            continue
        sites = []
        fl = None
        for bi, t in F.calls(b):
            if last_seg(F.callee_name(t)) not in ("consume", "update", "chain_update") or len(t["args"]) < 2:
                continue
            al = F.op_local(t["args"][1])
            if al is None:
                continue
            fl = fl or Flow(b)
            at = fl.origins(al)
            ff = [a for a in at if a[0] == "const" and a[1].get("int") == 255]
            pure = not [a for a in at if a[0] in ("call", "arg")]
            lit = any(a[0] == "agg" and a[1].get("k") == "array" for a in at) and len(ff) == 4            # [0xff, 0xff, 0xff, 0xff]
            rep = len(ff) == 1 and len(at) == 1 and "[u8; 4]" in b["locals"][al]["s"]                      # [0xff; 4]
            prom = any(a[0] == "const" and a[1].get("bytes") == "\xff" * 4 for a in at)                     # a promoted / named constant
            if pure and (lit or rep or prom):
                sites.append((bi, t))
        if not sites:
            continue
        cfg = CFG(b)
        rev = [bi for bi, bb in enumerate(b["blocks"]) for st in bb["stmts"] if st[0] == "assign" and st[2][0] == "binop" and
               ((st[2][1] in ("Ge", "Lt") and 4 in (F.const_int(st[2][2]), F.const_int(st[2][3]))) or
                (st[2][1] in ("Gt", "Le") and 3 in (F.const_int(st[2][2]), F.const_int(st[2][3]))))]
        em = [bi for bi, bb in enumerate(b["blocks"]) for st in bb["stmts"] if st[0] == "assign" and "'encrypt_metadata'" in str(st[2])]
        for bi, t in sites:
            n += 1
            okr = any(r == bi or cfg.dominates(r, bi) for r in rev)
            oke = any(r == bi or cfg.dominates(r, bi) for r in em)
            ctx.check(okr and oke, "C06-ALG2f", "%s#ff-bytes" % b["id"], "the four 0xFF bytes are hashed into the key without a dominating test of %s: a revision 2/3 "
                      "document whose /Encrypt dictionary carries /EncryptMetadata false derives another key and the right password is rejected" %
                      ("the revision against 4" if not okr else "encrypt_metadata"), t["span"], detail="step f under revision >= 4 and !encrypt_metadata")
    ctx.floor("C06-ALG2f", n, 1, "hash updates with the constant 0xFFFFFFFF in the key derivation")


def run(ctx):
    f = F.load("default")
    ctx.count("bodies", len(f.bodies))
    rule_keylen(ctx, f)
    rule_objkey(ctx, f)
    rule_salts(ctx, f)
    rule_order(ctx, f)
    rule_exempt(ctx, f)
    rule_identity(ctx, f)
    rule_wrongpw(ctx, f)
    rule_no_retry(ctx, f)
    rule_table(ctx, f)
    rule_padding(ctx, f)
    rule_pw_pad(ctx, f)
    rule_alg2f(ctx, f)
    return ctx.finish(
        "Static analysis of MIR facts of crypt.rs / file.rs / parser: slice-length upper bounds of cipher keys against the "
        "cipher's key size; dominance of decrypt over filter application; dominance of the three exemption tests over every "
        "cipher use; provenance of the object id given to decrypt; must-pass-through of InvalidPassword on every failed "
        "comparison; V / CFM tables; padding scheme per cipher call. Key derivation bytes are value-level and not decided.",
        ["rustc nightly MIR construction", "mirx exporter", "key sizes 16/32 read from the cipher type names Aes128/Aes256"])
