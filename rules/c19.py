"""C19 — glyph widths and Unicode maps follow the font dictionaries.

Decided (agreement and provenance, not arithmetic):
  SIB    the character-map writer emits only what the character-map reader understands: its section keywords are
         the ones the reader matches, everything between them is hex strings / brackets / white-space (no other
         word such as a comma), code strings are written with 4 hex digits (the reader's 2-byte codes), and both
         range forms the reader accepts exist
  READ   the reader inserts (code from the first string, text from the second) for single entries, walks
         start..=end in both range forms, steps the text by incrementing its last byte in the string form and pairs
         codes with array elements in the array form
  PROV   simple fonts: the table is built from /FirstChar and /Widths of the same dictionary with default 0;
         composite fonts: the default is /DW, an array group sets code c1 + i to the i-th element of that array, a
         range group sets every code of c1..=c2 to the number that follows c2
  GET    Widths::get returns the default below first_char and otherwise looks values up at (code - first_char),
         falling back to the default
  SET    on every path of Widths::_set the width is stored exactly once, first_char is only ever assigned the code,
         and padding uses the default
Not decided: the arithmetic of the growth cases (how many padding entries, which index) and the text a map
assigns for every code -- both are value-level; the panic / loop / allocation side of the same functions is C14.
"""
import re
import facts as F
from cfg import CFG
from flow import Flow, last_seg, PASS_LAST, arg_local

PT = PASS_LAST + ("new", "zip")
from sym import PathSym, enum_paths, feasible, show, walk

KEYWORDS = ["beginbfchar", "endbfchar", "beginbfrange", "endbfrange"]


def return_paths(b, limit=400):
    cfg = CFG(b)
    out = []
    for p in enum_paths(cfg, 0, lambda n, path: b["blocks"][n]["term"]["k"] == "return", limit=limit):
        if b["blocks"][p[-1]]["term"]["k"] != "return":
            continue
        ps = PathSym(b, p)
        if feasible(ps):
            out.append(ps)
    return out


def rule_sib(ctx, f):
    ctx.rule("C19-SIB", "write_cmap emits only section keywords the reader matches, hex strings, brackets and white-space; codes are 4 hex digits; "
             "the reader has a single-entry section and both range forms")
    w = f.body("font::write_cmap")
    r = f.body("font::parse_cmap")
    if w is None or r is None:
        ctx.lost("C19-SIB", "font::write_cmap / font::parse_cmap")
        return
    # keywords the reader dispatches on: byte-string patterns of its `match substr.as_slice()` (syntax tree; in MIR the
    # match is a byte-by-byte decision tree)
    from adj import get_adj
    a = get_adj(f, KEYWORDS)
    rk = set()
    rfn = a.ast.fn_for_body(r)
    if rfn is None:
        ctx.lost("C19-SIB", "syntax tree of parse_cmap")
        return
    for n in walk_ast(rfn["body"]):
        if n.get("k") == "match":
            for arm in n.get("arms", []):
                for m in re.findall(r'b"([a-z]{6,14})"', arm.get("pat", "")):
                    rk.add(m)
    ctx.floor("C19-SIB", len(rk & {"beginbfchar", "beginbfrange"}), 2, "section keywords matched by parse_cmap")
    a = get_adj(f, sorted(rk | {"endbfchar", "endbfrange"}))
    a.atomic = {"font::write_unicode", "font::write_cid"}
    a.violations = []
    a.analysed = []
    a.solve([w["id"]])
    seen = set()
    for kind, fn, where, msg in a.violations:
        key = "%s#%s:%s" % (fn, kind, re.sub(r":\d+", "", where))
        if key in seen:
            continue
        seen.add(key)
        ctx.bad("C19-SIB", key, msg, where)
    for bid, s in a.analysed:
        ctx.ok("C19-SIB", bid, "summary %s" % s)
    ctx.floor("C19-SIB", len(a.analysed), 3, "writer functions summarised (write_cmap, write_cid, write_unicode)")
    # literal keywords of the writer are known to the reader
    lits = set()
    fn = a.ast.fn_for_body(w)
    if fn is None:
        ctx.lost("C19-SIB", "syntax tree of write_cmap")
        return
    for n in walk_ast(fn["body"]):
        if n.get("k") == "macro" and n.get("fmt"):
            for wd in re.findall(r"[A-Za-z]{3,}", re.sub(r"\{[^}]*\}", " ", n["fmt"])):
                lits.add(wd)
    ctx.floor("C19-SIB", len(lits), 4, "keywords written by write_cmap")
    for wd in sorted(lits):
        begin = wd.startswith("begin")
        ctx.check((wd in rk) if begin else (("begin" + wd[3:]) in rk), "C19-SIB", "write_cmap#keyword:%s" % wd,
                  "write_cmap writes the section keyword %r, which parse_cmap does not match (it knows %s)" % (wd, sorted(rk)), w["span"], detail="keyword known to the reader")
    # 4 hex digits per code / UTF-16 word
    for name in ("font::write_cid", "font::write_unicode"):
        b = f.body(name)
        if b is None:
            ctx.lost("C19-SIB", name)
            continue
        fnn = a.ast.fn_for_body(b)
        fmts = [n["fmt"] for n in walk_ast(fnn["body"]) if n.get("k") == "macro" and n.get("fmt")] if fnn else []
        hexes = [x for x in fmts if re.search(r"\{[^}]*[xX]\}", x)]
        ctx.check(bool(hexes) and all(re.search(r"\{:04X\}", x) for x in hexes), "C19-SIB", "%s#hex-width" % name.split("::")[-1],
                  "codes / UTF-16 words are not written as exactly four hex digits (formats: %s): the reader takes 2 bytes per code" % hexes, b["span"], detail="{:04X}")
    # the text is written as UTF-16BE code units (what the reader's utf16be_to_string decodes), not as code points
    wu = f.body("font::write_unicode")
    if wu is None:
        ctx.lost("C19-SIB", "font::write_unicode")
    else:
        flw = Flow(wu)
        hexargs = [(bi, t) for bi, t in F.calls(wu) if last_seg(F.callee_name(t)) in ("new_upper_hex", "new_lower_hex")]
        ctx.floor("C19-SIB", len(hexargs), 1, "hex-formatted values in write_unicode")
        for bi, t in hexargs:
            l = F.op_local(t["args"][0])
            names = {last_seg(a[1]) for a in flw.origins(l, passthrough=PT + ("iter", "next", "into_iter")) if a[0] == "call"} if l is not None else set()
            ty = " ".join(t.get("targs") or [])
            ctx.check("encode_utf16" in names and "u16" in ty, "C19-SIB", "write_unicode#utf16-units",
                      "write_unicode formats a %s that does not come from char::encode_utf16 (origins: %s): text outside the Basic Multilingual Plane is written as one "
                      "number instead of a surrogate pair and reads back as different text" % (ty or "value", sorted(names)), t["span"], detail="{:04X} of each UTF-16 unit")
    # range entries are written in the array form `<lo> <hi> [<text> <text> ..]`, which the reader inverts for every text.  The string form
    # `<lo> <hi> <text>` is inverted only while the last byte of the text stays <= 0xFF (the reader stops incrementing there, as the format
    # demands), so a writer that uses it must test that bound
    wcfg = CFG(w)
    wloops = wcfg.loops()
    cids = [bi for bi, t in F.calls(w) if F.callee_name(t) == "font::write_cid"]
    unis = [(bi, t) for bi, t in F.calls(w) if F.callee_name(t) == "font::write_unicode"]
    lits = {}
    for bi, t in F.calls(w):
        for a0 in t["args"]:
            if a0[0] == "const" and isinstance(a0[1], dict) and "str" in a0[1]:
                lits[bi] = a0[1]["str"]
    ctx.floor("C19-SIB", len(unis), 2, "write_unicode call sites in write_cmap (single entries, range entries)")
    for k, (bi, t) in enumerate(sorted(unis)):
        mine = [c for c in cids if wcfg.dominates(c, bi) and any(c in body and bi in body for body in wloops.values())]
        if len(mine) < 2:
            continue
        opened = [l for l, txt in lits.items() if "[" in txt and wcfg.dominates(l, bi) and all(wcfg.dominates(c, l) for c in mine)]
        guard = False
        for i2, bb2 in enumerate(w["blocks"]):
            if wcfg.dominates(i2, bi) and any(wcfg.dominates(c, i2) for c in mine):
                for st in bb2["stmts"]:
                    if st[0] == "assign" and st[2][0] == "binop" and st[2][1] in ("Lt", "Le", "Gt", "Ge") and any(F.const_int(o) in (0xff, 0x100) for o in (st[2][2], st[2][3])):
                        guard = True
        # `<lo> <hi>`: the first code written is the first of the run, the second the last of the run (the reader pairs lo..=hi with the texts)
        wfl = Flow(w)
        order = sorted(mine, key=lambda c: sum(1 for c2 in mine if wcfg.dominates(c2, c)))
        lo_c, hi_c = order[0], order[-1]
        def cnames(c):
            l = arg_local(w["blocks"][c]["term"], 1)
            return {last_seg(a[1]) for a in wfl.origins(l, passthrough=PT + ("last", "first", "index", "get")) if a[0] == "call"} if l is not None else set()
        lo_n, hi_n = cnames(lo_c), cnames(hi_c)
        ctx.check("last" in hi_n and "last" not in lo_n, "C19-SIB", "write_cmap#range-bounds@%d" % k, "the two codes in front of a range entry's texts are not the first and the last "
                  "code of the run (first from %s, second from %s): the reader maps lo..=hi onto the texts, so the other codes of the run are lost or shifted"
                  % (sorted(lo_n) or "an index", sorted(hi_n) or "an index"), w["blocks"][hi_c]["term"]["span"], detail="<block[0]> <block.last()> [texts of the block]")
        ctx.check(bool(opened) or guard, "C19-SIB", "write_cmap#range-form@%d" % k, "a range entry is written in the string form `<lo> <hi> <text>` with no test of the "
                  "0xFF bound: the reader increments only the last byte of the text and stops at 0xFF, so a run that crosses a multiple of 256 loses its tail", t["span"],
                  detail="range entries use the array form (or test the last byte against 0xFF)")
    # byte order marks: the writer emits none, so the reader's text decoder strips none (U+FEFF at the start of a text is a character)
    ub = f.body("font::utf16be_to_string")
    if ub is None:
        ctx.lost("C19-SIB", "font::utf16be_to_string")
    else:
        strips = sorted({last_seg(F.callee_name(t)) for bb in f.with_closures(ub["id"]) for bi, t in F.calls(bb)} & {"strip_prefix", "starts_with", "trim_start_matches", "skip", "split_at"})
        # ... whatever the spelling (a slice pattern `[0xFE, 0xFF, rest @ ..]` needs no call): what is handed to the unit decoder is the
        # parameter itself
        ufl = Flow(ub)
        whole = False
        for bi, t in F.calls(ub):
            if last_seg(F.callee_name(t)) == "utf16be_to_char" and t["args"] and F.op_place(t["args"][0]):
                r0 = ufl.resolve(F.op_place(t["args"][0]))
                for _ in range(4):
                    d0 = ufl.defs.get(r0[0], [])
                    if r0[0] != 1 and len(d0) == 1 and d0[0][0] == "assign" and not d0[0][3] and d0[0][2][0] == "ref":
                        r0 = ufl.resolve(list(d0[0][2][1]) + r0[1:])        # `&*data`
                    else:
                        break
                whole = r0[0] == 1 and all(e[0] == "deref" for e in r0[1:])
        if not whole:
            strips = strips + ["a sub-slice of the parameter"]
        # ... and the unit decoder it calls decodes all of what it is given
        uc = f.body("font::utf16be_to_char")
        if uc is None:
            ctx.lost("C19-SIB", "font::utf16be_to_char")
        else:
            cs = sorted({last_seg(F.callee_name(t)) for bb in f.with_closures(uc["id"]) for bi, t in F.calls(bb)} & {"strip_prefix", "starts_with", "trim_start_matches", "skip", "split_at", "split_first", "get"})
            cfl = Flow(uc)
            whole2 = False
            for bi, t in F.calls(uc):
                if last_seg(F.callee_name(t)) in ("chunks_exact", "chunks") and t["args"] and F.op_place(t["args"][0]):
                    r1 = cfl.resolve(F.op_place(t["args"][0]))
                    for _ in range(4):
                        d1 = cfl.defs.get(r1[0], [])
                        if r1[0] != 1 and len(d1) == 1 and d1[0][0] == "assign" and not d1[0][3] and d1[0][2][0] == "ref":
                            r1 = cfl.resolve(list(d1[0][2][1]) + r1[1:])
                        else:
                            break
                    whole2 = r1[0] == 1 and all(e[0] == "deref" for e in r1[1:])
            if cs or not whole2:
                strips = strips + ["%s in utf16be_to_char" % (", ".join(cs) or "a sub-slice")]
        ctx.check(not strips, "C19-SIB", "utf16be_to_string#no-bom-strip", "the text decoder of the character-map reader removes a prefix (%s) that the writer never adds: a mapped text "
                  "that starts with U+FEFF does not read back" % ", ".join(strips), ub["span"], detail="decodes every code unit it is given")
    # the reader accepts both range forms: a String arm and an Array arm for the third operand
    forms = set()
    for b in f.with_closures(r["id"]):
        for i, bb in enumerate(b["blocks"]):
            t = bb["term"]
            if t["k"] != "switch":
                continue
            dl = F.op_local(t["discr"])
            for s in bb["stmts"]:
                if s[0] == "assign" and s[1] == [dl] and s[2][0] == "discr" and "Primitive" in str(b["locals"][s[2][1][0]]["s"]):
                    forms.add(i)
    ctx.note("Primitive discriminant tests in parse_cmap: %d" % len(forms))


def _consts_of(s):
    out = []
    if s[0] == "assign":
        rv = s[2]
        ops = []
        if rv[0] == "use":
            ops = [rv[1]]
        elif rv[0] == "aggregate":
            ops = list(rv[2])
        elif rv[0] in ("ref",):
            ops = []
        for o in ops:
            c = F.const_bytes(o)
            if c is not None:
                out.append(c)
    return out


def walk_ast(n):
    if isinstance(n, dict):
        yield n
        for v in n.values():
            yield from walk_ast(v)
    elif isinstance(n, list):
        for x in n:
            yield from walk_ast(x)


def rule_read(ctx, f):
    ctx.rule("C19-READ", "parse_cmap: single entries insert (code of the first string, text of the second); both range forms iterate start..=end; the string "
             "form increments the last byte of the text between codes; the array form pairs codes with the array's elements")
    r = f.body("font::parse_cmap")
    if r is None:
        ctx.lost("C19-READ", "font::parse_cmap")
        return
    fl = Flow(r)
    cfg = CFG(r)
    inserts = [(bi, t) for bi, t in F.calls(r) if last_seg(F.callee_name(t)) == "insert" and "ToUnicodeMap" in F.callee_name(t) + t.get("callee_full", "")]
    ctx.floor("C19-READ", len(inserts), 3, "map.insert sites (bfchar, bfrange string form, bfrange array form)")
    loops = cfg.loops()
    n_range = 0
    for bi, t in inserts:
        # the code comes from parse_cid / a range over parse_cid results, the text from utf16be_to_string
        cl = F.op_local(t["args"][1])
        tl = F.op_local(t["args"][2])
        cn = {last_seg(a[1]) for a in fl.origins(cl, passthrough=PT) if a[0] == "call"} if cl is not None else set()
        tn = {last_seg(a[1]) for a in fl.origins(tl, passthrough=PT) if a[0] == "call"} if tl is not None else set()
        ctx.check("parse_cid" in cn, "C19-READ", "parse_cmap#insert@%d:code" % (inserts.index((bi, t)) + 1), "an inserted code does not come from parse_cid (origins: %s)" % sorted(cn), t["span"], detail="code <- parse_cid")
        ctx.check("utf16be_to_string" in tn, "C19-READ", "parse_cmap#insert@%d:text" % (inserts.index((bi, t)) + 1), "an inserted text does not come from utf16be_to_string (origins: %s)" % sorted(tn), t["span"], detail="text <- utf16be_to_string")
        cfull = " ".join(a[1] + " " + a[3].get("callee_full", "") + " " + str((a[3].get("self_ty") or {}).get("s", "")) for a in fl.origins(cl, passthrough=PT) if a[0] == "call") if cl is not None else ""
        if "new" in cn or "next" in cn:
            # inside a loop over a RangeInclusive built from two parse_cid results: the last code of the range is part of it
            incl = "RangeInclusive" in cfull
            ctx.check(incl, "C19-READ", "parse_cmap#insert@%d:inclusive" % (inserts.index((bi, t)) + 1), "a range entry walks start..end without the end: the last code of every "
                      "range (all of a one-code range) gets no text", t["span"], detail="for code in start..=end")
            if incl:
                n_range += 1
                # the range runs from the code of the FIRST string of the entry to the code of the SECOND one
                ends = None
                for a in fl.origins(cl, passthrough=PT):
                    if a[0] == "call" and last_seg(a[1]) == "new" and "RangeInclusive" in (a[1] + a[3].get("callee_full", "")) and len(a[3]["args"]) == 2:
                        toks = []
                        for o in a[3]["args"]:
                            pc0 = fl.root_call(F.op_place(o)) if F.op_place(o) else None
                            tok = None
                            if pc0 is not None and last_seg(F.callee_name(pc0[1])) == "parse_cid" and F.op_place(pc0[1]["args"][0]):
                                tk = fl.root_call(F.op_place(pc0[1]["args"][0]))
                                tok = tk[0] if tk is not None and last_seg(F.callee_name(tk[1])) in ("parse_with_lexer", "next", "parse") else None
                            toks.append(tok)
                        ends = toks
                ctx.check(ends is not None and None not in ends and ends[0] != ends[1] and cfg.dominates(ends[0], ends[1]), "C19-READ",
                          "parse_cmap#insert@%d:range-ends" % (inserts.index((bi, t)) + 1), "the code range of a bfrange entry does not run from the first string of the entry to the "
                          "second (token reads behind start / end: %s): codes between them get no text or the wrong one" % (ends,), t["span"],
                          detail="start <- first string, end <- second string")
    # codes are one or two bytes long
    pc = f.body("font::parse_cid")
    if pc is None:
        ctx.lost("C19-READ", "font::parse_cid")
    else:
        pcfg = CFG(pc)
        pfl = Flow(pc)
        lens = set()

        def reaches_ok(tg, avoid):
            reach = pcfg.reachable_from(tg, avoid=avoid) | {tg}
            return any(s2[0] == "assign" and s2[1] == [0] and s2[2][0] == "aggregate" and s2[2][1].get("variant") == "Ok" for r2 in reach for s2 in pc["blocks"][r2]["stmts"])
        for i, bb in enumerate(pc["blocks"]):
            tt = bb["term"]
            if tt["k"] != "switch":
                continue
            if tt.get("discr_ty") == "usize":
                # `match b.len() { 2 => .., 1 => .. }`
                others = {x for v0, x in tt["arms"]} | {tt.get("otherwise")}
                for v, tg in tt["arms"]:
                    if tg != tt.get("otherwise") and reaches_ok(tg, {i} | (others - {tg})):
                        lens.add(v)
                continue
            # `if b.len() == 2 { .. } else if b.len() == 1 { .. }`
            for st in bb["stmts"]:
                if st[0] == "assign" and st[2][0] == "binop" and st[2][1] in ("Eq", "Ne") and F.op_local(tt["discr"]) == st[1][0]:
                    k = F.const_int(st[2][3]) if F.const_int(st[2][3]) is not None else F.const_int(st[2][2])
                    o = st[2][2] if F.const_int(st[2][3]) is not None else st[2][3]
                    l = F.op_local(o)
                    if k is None or l is None or not any(a[0] == "call" and last_seg(a[1]) == "len" for a in pfl.origins(l)):
                        continue
                    arms = {a[0]: a[1] for a in tt["arms"]}
                    false_t = arms.get(0, tt.get("otherwise"))
                    true_t = tt.get("otherwise") if 0 in arms else arms.get(1)
                    eq_t = true_t if st[2][1] == "Eq" else false_t
                    ne_t = false_t if eq_t == true_t else true_t
                    if eq_t is not None and reaches_ok(eq_t, {i, ne_t}):
                        lens.add(k)
        ctx.check(lens == {1, 2}, "C19-READ", "parse_cid#lengths", "codes of length %s are accepted (one-byte and two-byte codes are both well-formed)" % sorted(lens), pc["span"],
                  detail="1- and 2-byte codes")
    ctx.check(n_range >= 2, "C19-READ", "parse_cmap#range-forms", "fewer than two insert sites run over a code range start..=end (string form and array form)", r["span"], detail="%d range-driven inserts" % n_range)
    # string form: the text buffer's last byte is incremented inside the same loop as an insert
    incs = []
    for i, j, s in F.stmts(r):
        if s[0] == "assign" and len(s[1]) > 1 and s[1][-1][0] == "deref" and s[2][0] == "use":
            src = F.op_place(s[2][1])
            if src:
                for a in fl.origins(src[0], passthrough=()):
                    if a[0] == "binop" and a[1].startswith("Add") and F.const_int(a[3][3]) == 1:
                        incs.append(i)
    lastmut = [bi for bi, t in F.calls(r) if last_seg(F.callee_name(t)) in ("last_mut",)]
    ok = False
    for head, body in loops.items():
        if any(bi in body for bi, t in inserts) and any(i in body for i in incs) and any(b2 in body for b2 in lastmut):
            ok = True
    ctx.check(ok, "C19-READ", "parse_cmap#string-form-step", "the string range form does not step the text by incrementing its last byte between codes", r["span"], detail="*last += 1 in the loop of an insert")
    zips = [bi for bi, t in F.calls(r) if last_seg(F.callee_name(t)) == "zip"]
    ctx.check(bool(zips), "C19-READ", "parse_cmap#array-form-zip", "the array range form does not pair the code range with the array's elements", r["span"], detail="(start..=end).zip(array)")


def rule_font_reader(ctx, f):
    ctx.rule("C19-PROV-read", "the font reader hands /Widths on as it was read: Font::from_primitive does not shorten, pad or re-order the list (the width of /LastChar is its "
             "last element)")
    b = f.impl_method("object::Object", "font::Font", "from_primitive")
    if b is None:
        ctx.lost("C19-PROV-read", "<Font as Object>::from_primitive")
        return
    cut = sorted({last_seg(F.callee_name(t)) for bb in f.with_closures(b["id"]) for bi, t in F.calls(bb)
                  if last_seg(F.callee_name(t)) in ("truncate", "drain", "split_off", "resize", "retain", "remove", "pop", "swap_remove", "reverse", "sort", "dedup", "clear", "insert") and
                  "Vec<f32>" in (F.callee_name(t) + t.get("callee_full", "") + " ".join(a["s"] for a in t.get("arg_tys", [])))})
    ctx.check(not cut, "C19-PROV-read", "Font::from_primitive#widths-as-read", "the font reader changes the /Widths list it has read (%s): codes at the end of the declared range lose "
              "their width" % ", ".join(cut), b["span"], detail="info.widths untouched")


def rule_prov(ctx, f):
    ctx.rule("C19-PROV", "simple fonts: Widths { first_char <- /FirstChar, values <- /Widths of the same font, default 0 }; composite fonts: default <- /DW; "
             "array group: set(c1 + i, element i); range group: set(c, w) for c in c1..=c2 with w the element after c2")
    b = f.body("font::Font::widths")
    if b is None:
        ctx.lost("C19-PROV", "font::Font::widths")
        return
    fl = Flow(b)
    cfg = CFG(b)
    aggs = [(i, s) for i, j, s in F.stmts(b) if s[0] == "assign" and s[2][0] == "aggregate" and s[2][1].get("adt") == "font::Widths"]
    ctx.floor("C19-PROV", len(aggs), 1, "Widths literal for simple fonts")
    for i, s in aggs:
        names = s[2][1]["fields"]
        ops = dict(zip(names, s[2][2]))
        fs_first, fs_vals = set(), set()
        lf = F.op_local(ops.get("first_char"))
        lv = F.op_local(ops.get("values"))
        if lf is not None:
            fl.origins(lf, fields=fs_first)
        if lv is not None:
            fl.origins(lv, fields=fs_vals)
        dflt = ops.get("default")
        d0 = dflt is not None and dflt[0] == "const" and float(dflt[1].get("float", dflt[1].get("int", 1)) or 0) == 0.0
        ctx.check("first_char" in fs_first, "C19-PROV", "widths#simple:first_char", "the table of a simple font does not start at the font's /FirstChar (fields read: %s)" % sorted(fs_first), b["span"], detail="first_char <- TFont.first_char")
        # ... the whole array, unmodified: nothing cuts, pads or reorders the copy between /Widths and the table
        muts = []
        roots = set()
        st0 = [lv] if lv is not None else []
        seenl = set()
        while st0:
            x0 = st0.pop()
            if x0 in seenl:
                continue
            seenl.add(x0)
            for dq in fl.defs.get(x0, []):
                if dq[0] == "assign" and dq[2][0] == "use" and F.op_local(dq[2][1]) is not None:
                    st0.append(F.op_local(dq[2][1]))
                if dq[0] == "assign" and dq[2][0] in ("ref", "rawptr"):
                    st0.append(dq[2][1][0])
        for bi2, t2 in F.calls(b):
            if last_seg(F.callee_name(t2)) in ("truncate", "resize", "pop", "remove", "drain", "retain", "clear", "swap_remove", "dedup", "split_off", "sort", "reverse", "push", "insert", "extend") \
                    and t2["args"]:
                l2 = F.op_local(t2["args"][0])
                base2 = l2
                for d2 in fl.defs.get(l2, []) if l2 is not None else []:
                    if d2[0] == "assign" and d2[2][0] in ("ref", "rawptr"):
                        base2 = d2[2][1][0]
                if base2 in seenl and "Vec<f32>" in (F.callee_name(t2) + t2.get("callee_full", "") + t2["arg_tys"][0]["s"]):
                    muts.append(last_seg(F.callee_name(t2)))
        ctx.check(not muts, "C19-PROV", "widths#simple:values-unmodified", "the width table of a simple font is the /Widths array after %s: entries are cut off or moved, so a code inside "
                  "FirstChar..=LastChar reports another width than the array assigns" % ", ".join(sorted(set(muts))), b["span"], detail="values = widths.clone(), untouched")
        ctx.check("widths" in fs_vals, "C19-PROV", "widths#simple:values", "the table of a simple font is not the font's /Widths (fields read: %s)" % sorted(fs_vals), b["span"], detail="values <- TFont.widths")
        ctx.check(d0, "C19-PROV", "widths#simple:default", "the default width of a simple font is not 0", b["span"], detail="default: 0.0")
    # composite fonts
    news = [(bi, t) for bi, t in F.calls(b) if F.callee_name(t) == "font::Widths::new"]
    ctx.floor("C19-PROV", len(news), 1, "Widths::new for composite fonts")
    for bi, t in news:
        fs = set()
        l = F.op_local(t["args"][0])
        if l is not None:
            fl.origins(l, fields=fs)
        ctx.check("default_width" in fs, "C19-PROV", "widths#cid:default", "the default width of a composite font is not its /DW (fields read: %s)" % sorted(fs), t["span"], detail="Widths::new(cid.default_width)")
    # Widths::set call sites of Font::widths, and of the private helpers it calls (each helper call site instantiates the helper's sites)
    def origin_names(body, bfl, local, actuals):
        """(names of calls, origin atoms) of a local; a helper's parameter continues with the caller's actual argument"""
        names, atoms = set(), []
        for a in bfl.origins(local, passthrough=PT) if local is not None else []:
            atoms.append(a)
            if a[0] == "call":
                names.add(last_seg(a[1]))
            if a[0] == "arg" and actuals and a[1] in actuals:
                cb, cfl, op = actuals[a[1]]
                n2, a2 = origin_names(cb, cfl, F.op_local(op), None)
                names |= n2
                atoms += a2
        return names, atoms
    sites = []      # (body, flow, bi, t, actuals)
    for bi, t in F.calls(b):
        if F.callee_name(t) == "font::Widths::set":
            sites.append((b, fl, bi, t, None))
        elif t.get("resolved_local") and t.get("resolved") in f.bodies and f.bodies[t["resolved"]]["_file"] == b["_file"] and not f.bodies[t["resolved"]].get("pub"):
            hb = f.bodies[t["resolved"]]
            hfl = None
            for hbi, ht in F.calls(hb):
                if F.callee_name(ht) == "font::Widths::set":
                    hfl = hfl or Flow(hb)
                    sites.append((hb, hfl, hbi, ht, {k + 1: (b, fl, a) for k, a in enumerate(t["args"])}))
    ctx.floor("C19-PROV", len(sites), 3, "Widths::set call sites (array group, referenced array group, range group)")
    n_arr = n_rng = 0
    for k, (sb, sfl, bi, t, actuals) in enumerate(sites, 1):
        cl = F.op_local(t["args"][1])
        wl = F.op_local(t["args"][2])
        cnames, co = origin_names(sb, sfl, cl, actuals)
        wnames, wo = origin_names(sb, sfl, wl, actuals)
        ctx.check("as_number" in wnames, "C19-PROV", "widths#set@%d:width" % k, "a width stored for a composite font is not read as a number from the /W array (origins: %s)" % sorted(wnames), t["span"], detail="w.as_number()")
        ctx.check("as_usize" in cnames, "C19-PROV", "widths#set@%d:code" % k, "a code stored for a composite font does not derive from the group's first code (origins: %s)" % sorted(cnames), t["span"], detail="c1 = p.as_usize()")
        if "enumerate" in cnames:
            n_arr += 1
            # the enumerate index and the width come from the same iteration
            ctx.check("enumerate" in wnames or "next" in wnames, "C19-PROV", "widths#set@%d:pairing" % k, "the offset added to the first code and the width do not come from the same array iteration", t["span"], detail="for (i, w) in array.iter().enumerate()")
        else:
            n_rng += 1
            incl = any(a[0] == "call" and last_seg(a[1]) == "next" and "RangeInclusive" in (a[3].get("callee_full", "") + str(a[3].get("self_ty"))) for a in co)
            ctx.check(incl, "C19-PROV", "widths#set@%d:range" % k, "the range group does not iterate over the inclusive range c1..=c2 (`c_first c_last w` assigns w to both ends)", t["span"], detail="for c in c1 ..= c2")
    ctx.check(n_arr >= 2 and n_rng >= 1, "C19-PROV", "widths#forms", "the /W reader lost one of its group forms (array groups: %d, range groups: %d)" % (n_arr, n_rng), b["span"], detail="c [w ...] (direct and by reference) and c1 c2 w")


def rule_get_set(ctx, f):
    ctx.rule("C19-GET", "Widths::get: the default below first_char; otherwise values.get(code - first_char), falling back to the default")
    g = f.body("font::Widths::get")
    if g is None:
        ctx.lost("C19-GET", "font::Widths::get")
    else:
        ps = return_paths(g)
        ctx.floor("C19-GET", len(ps), 2, "paths of Widths::get")
        below = other = 0
        for p in ps:
            conds = [(show(ex), v) for ex, v, bb in p.branch_conditions()]
            ret = show(p.expr_of_local(0, len(p.events)))
            # strictly below: `code < first_char` (the code equal to first_char is the first entry of the table)
            lt = [c for c in conds if re.search(r"Lt\(arg2, \*arg1\.first_char\)", c[0])]
            le = [c for c in conds if re.search(r"Le\(arg2, \*arg1\.first_char\)", c[0])]
            if le:
                ctx.bad("C19-GET", "get#boundary", "the code equal to first_char is treated as lying below the table (`<=`): it gets the default width instead of the first entry", g["span"])
            if lt and lt[0][1][0] == "not" and "get(" not in ret:
                below += 1
                ctx.check(ret.endswith("default"), "C19-GET", "get#below", "a code below first_char does not get the default width (returns %s)" % ret, g["span"], detail=ret)
            else:
                other += 1
                okx = "get(" in ret and re.search(r"Sub\w*\(arg2, \*arg1\.first_char\)", ret) and "unwrap_or" in ret and ret.rstrip(")").endswith("default")
                ctx.check(bool(okx), "C19-GET", "get#inside", "a code at or above first_char is not looked up at (code - first_char) with the default as fallback (returns %s)" % ret[:160], g["span"], detail=ret[:200])
        ctx.check(below >= 1 and other >= 1, "C19-GET", "get#cases", "Widths::get lost one of its two cases", g["span"])
    ctx.rule("C19-SET", "Widths::_set: on every path the width is stored exactly once (push or element store), first_char is only assigned the code, padding "
             "repeats the default")
    s = f.body("font::Widths::_set")
    if s is None:
        ctx.lost("C19-SET", "font::Widths::_set")
        return
    ps = return_paths(s)
    ctx.floor("C19-SET", len(ps), 5, "paths of Widths::_set (empty, append, prepend, gap, overwrite)")
    for k, p in enumerate(ps):
        stores = 0
        fc_ok = True
        pad_ok = True
        for i, e in enumerate(p.events):
            if e[0] == "term" and e[2]["k"] == "call":
                ce = p.call_expr(e[2], i, 0)
                nm = last_seg(ce[1])
                txt = show(ce)
                if nm == "push" and txt.rstrip(")").endswith("arg3"):
                    stores += 1
                if nm == "repeat" and "default" not in txt:
                    pad_ok = False
            if e[0] == "assign" and len(e[2][1]) > 1:
                pl = e[2][1]
                val = show(p.expr_of_rvalue(e[2][2], i, 0))
                if pl[-1][0] == "field" and pl[-1][2] == "first_char":
                    fc_ok = fc_ok and val == "arg2"
                elif pl[-1][0] == "deref" and val == "arg3":
                    stores += 1
        # the growth arithmetic (padding count, element index) is computed from the OLD start of the table: no read of first_char
        # follows its re-assignment on the path
        i_fc = [i for i, e in enumerate(p.events) if e[0] == "assign" and len(e[2][1]) > 1 and e[2][1][-1][0] == "field" and e[2][1][-1][2] == "first_char"]
        stale = False
        if i_fc:
            for i, e in enumerate(p.events):
                if i > i_fc[0] and e[0] == "assign":
                    rv = e[2][2]
                    pls = [F.op_place(o) for o in ([rv[1]] if rv[0] == "use" else ([rv[2], rv[3]] if rv[0] == "binop" else ([rv[2]] if rv[0] in ("cast", "unop") else [])))]
                    if rv[0] in ("ref", "rawptr"):
                        pls.append(rv[1])
                    if any(q and len(q) > 1 and q[-1][0] == "field" and q[-1][2] == "first_char" for q in pls):
                        stale = True
        key = "_set#path%d" % (k + 1)
        ctx.check(not stale, "C19-SET", key + ":old-start", "first_char is read after it was re-assigned on this path: the padding count / index is computed from the new "
                  "start, so nothing is padded and the existing widths shift to other codes", s["span"], detail="growth arithmetic uses the old first_char")
        ctx.check(stores == 1, "C19-SET", key + ":store", "a path of _set stores the width %d times (expected exactly once)" % stores, s["span"], detail="width stored once")
        ctx.check(fc_ok, "C19-SET", key + ":first_char", "first_char is assigned something other than the code being set", s["span"], detail="first_char = cid")
        ctx.check(pad_ok, "C19-SET", key + ":padding", "padding entries are not the default width", s["span"], detail="repeat(self.default)")


def run(ctx):
    f = F.load()
    ctx.count("bodies", len(f.bodies))
    rule_sib(ctx, f)
    rule_read(ctx, f)
    rule_prov(ctx, f)
    rule_font_reader(ctx, f)
    rule_get_set(ctx, f)
    return ctx.finish(
        "Static analysis of font.rs: token-adjacency / vocabulary summary of the character-map writer against the keywords and byte classes of "
        "its reader; provenance of the arguments of every map.insert / Widths::set / Widths literal; path enumeration of Widths::get and "
        "Widths::_set with syntactic expression reconstruction. Arithmetic of the growth cases and the text assigned to each code are not decided.",
        ["rustc nightly MIR construction", "mirx exporter", "astx extractor"])
