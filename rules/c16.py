"""C16 — every encoder is inverted by its decoder and emits the standard format.

Decided (structure): the Flate encoder is a zlib encoder and every path to its return passes
`finish`, the returned buffer being the finished one (TS); every encodable filter has a decoder
and encode/decode dispatch to sibling implementations of the same format (SIB); LZW encoder and
decoder agree on bit order, code size and the constructor used for the EarlyChange value the
encoder accepts; the hex encoder's alphabet is a subset of the decoder's digit set; the ASCII85
encoder emits `z` only for a full zero group, uses base 85 / offset 33 and ends with `~>`.
Not decided: inversion over all byte strings (value-level).
"""
import json
import os
import facts as F
from cfg import CFG
from flow import Flow, call_sites, arg_local, last_seg, PASS_LAST
from tables import exclusive_regions, enum_switches, region_calls, transitive_callees
from byteclass import outcome_partition, classify, arg_subject, ret_shape, fmt_set, FULL
from sym import PathSym, walk, strip, show

SPEC = json.load(open(os.path.join(os.path.dirname(os.path.abspath(__file__)), "..", "spec", "iso32000.json")))
SF = "enc::StreamFilter"

ENC_ROLES = {
    "ASCIIHexDecode": ("hex", lambda ns: "enc::encode_nibble" in ns),
    "ASCII85Decode": ("a85", lambda ns: "enc::base85_chunk" in ns),
    "LZWDecode": ("lzw", lambda ns: any(n.startswith("weezl::encode") for n in ns)),
    "FlateDecode": ("flate", lambda ns: any("libflate::zlib::Encoder" in n or "libflate::deflate::Encoder" in n for n in ns)),
}
DEC_ROLES = {
    "ASCIIHexDecode": lambda ns: "enc::decode_nibble" in ns,
    "ASCII85Decode": lambda ns: "enc::word_85" in ns or "enc::sym_85" in ns,
    "LZWDecode": lambda ns: any(n.startswith("weezl::decode") for n in ns),
    "FlateDecode": lambda ns: any("libflate::zlib::Decoder" in n for n in ns),
}


def dispatch_table(f, name):
    b = f.body(name)
    if b is None:
        return None, None
    cfg = CFG(b)
    vs = {v["vi"]: v["name"] for v in f.adts[SF]["variants"]}
    sws = enum_switches(b, SF, f)
    if not sws:
        return b, None
    i, pl, arms, other = sws[0]
    regs = exclusive_regions(cfg, dict({vs[k]: tg for k, tg in arms.items()}, **{"_": other}))
    table = {}
    for vn, reg in regs.items():
        if vn == "_":
            continue
        table[vn] = [t["resolved"] for r, t in region_calls(b, reg) if t.get("resolved_local") and f.body(t.get("resolved"))]
    return b, table


def rule_finish(ctx, f):
    ctx.rule("C16-TS", "the Flate encoder is libflate's zlib encoder (FlateDecode data is zlib-framed) and every path from its "
             "construction to the return of the buffer passes finish(); the returned bytes derive from finish()")
    n = 0
    for b in f.bodies.values():
        news = [(bi, t) for bi, t in F.calls(b) if "libflate::" in F.callee_name(t) and "Encoder" in F.callee_name(t) and last_seg(F.callee_name(t)) in ("new", "with_options")]
        if not news:
            continue
        n += 1
        cfg = CFG(b)
        fl = Flow(b)
        for bi, t in news:
            nm = F.callee_name(t)
            ctx.check("libflate::zlib::Encoder" in nm, "C16-TS", b["id"] + "#container",
                      "the Flate encoder is %s: FlateDecode requires the zlib container (RFC 1950), raw deflate is not what standard decoders expect" % nm,
                      t["span"], detail="libflate::zlib::Encoder")
            fin = [x for x, tt in F.calls(b) if last_seg(F.callee_name(tt)) == "finish" and "libflate" in F.callee_name(tt)]
            rets = cfg.exits
            # from the function's entry, not only from the construction: an early return (say, for empty input) hands out bytes that are
            # not a zlib stream - the empty input, too, is encoded as a header, an empty final block and a checksum
            ok = bool(fin) and cfg.all_paths_pass(bi, rets, set(fin)) and cfg.all_paths_pass(0, rets, set(fin))
            ctx.check(ok, "C16-TS", b["id"] + "#finish",
                      "a path from the encoder's construction to the return does not call finish(): the trailing blocks/checksum are never written",
                      t["span"], detail="finish() on every path to the return")
            # the input is written into the encoder before it is finished
            writes = []
            for wi, wt in F.calls(b):
                if last_seg(F.callee_name(wt)) in ("write_all", "write", "extend_from_slice", "write_fmt") and len(wt["args"]) >= 2:
                    dl = F.op_local(wt["args"][1])
                    if dl is not None and any(a[0] == "arg" for a in fl.origins(dl)):
                        writes.append(wi)
            okw = bool(writes) and bool(fin) and all(cfg.all_paths_pass(0, [x], set(writes)) for x in fin)
            ctx.check(okw, "C16-TS", b["id"] + "#writes-input", "the function's input never reaches the encoder before finish(): every input is encoded as the empty stream",
                      t["span"], detail="write_all(data) before finish()")
            ats = fl.origins(0, passthrough=PASS_LAST + ("into_result",))
            from_fin = any(a[0] == "call" and last_seg(a[1]) == "finish" for a in ats) and not any(a[0] == "call" and last_seg(a[1]) not in ("finish", "into_result", "unwrap", "expect", "branch", "map_err", "ok") for a in ats)
            ctx.check(from_fin, "C16-TS", b["id"] + "#returns-finished",
                      "the returned buffer is not the one handed back by finish()", b["span"], detail="return value derives from finish().into_result()")
    ctx.floor("C16-TS", n, 1, "bodies constructing a libflate encoder")


def rule_sib(ctx, f):
    ctx.rule("C16-SIB", "every filter `encode` accepts is one `decode` implements, and both dispatch to implementations of the same format "
             "(roles by helper/library)")
    eb, enc = dispatch_table(f, "enc::encode")
    db, dec = dispatch_table(f, "enc::decode")
    if enc is None or dec is None:
        ctx.lost("C16-SIB", "dispatch switch in enc::encode / enc::decode")
        return
    ctx.floor("C16-SIB", len(enc), 4, "encodable filter variants")
    for vn, callee in sorted(enc.items()):
        if vn not in ENC_ROLES:
            ctx.bad("C16-SIB", "enc::encode#" + vn, "encoder for %s has no registered role" % vn, eb["span"])
            continue
        role, pred = ENC_ROLES[vn]
        ok_e = len(callee) == 1 and pred(transitive_callees(f, f.body(callee[0]), depth=2) | {callee[0]})
        ctx.check(ok_e, "C16-SIB", "enc::encode#" + vn, "filter %s is encoded by %s, which is not a %s encoder" % (vn, callee, role), eb["span"],
                  detail="%s -> %s (%s encoder)" % (vn, callee, role))
        dcal = dec.get(vn, [])
        ok_d = len(dcal) == 1 and DEC_ROLES[vn](transitive_callees(f, f.body(dcal[0]), depth=2))
        ctx.check(ok_d, "C16-SIB", "enc::decode#" + vn, "filter %s can be encoded but its decoder is %s (not a %s decoder)" % (vn, dcal, role), db["span"],
                  detail="%s decodes with %s" % (vn, dcal))


def _weezl_ctor_args(b, kind):
    out = []
    for bi, t in F.calls(b):
        nm = F.callee_name(t)
        if nm.startswith("weezl::%s::" % kind) and last_seg(nm) in ("new", "with_tiff_size_switch"):
            args = []
            for a in t["args"]:
                c = F.op_const(a)
                if c is not None:
                    args.append(c.get("int", c.get("bits", c.get("ty"))))
                else:
                    l = F.op_local(a)
                    vs = [x[1].get("variant") for x in Flow(b).origins(l) if x[0] == "agg"] if l is not None else []
                    args.append(vs[0] if vs else "?")
            out.append((bi, last_seg(nm), args))
    return out


def rule_lzw(ctx, f):
    ctx.rule("C16-SIB-lzw", "LZW encoder and decoder use the same bit order and minimum code size, and for the EarlyChange value the encoder "
             "accepts they use the same (non-)early-change variant")
    eb, db = f.body("enc::lzw_encode"), f.body("enc::lzw_decode")
    if eb is None or db is None:
        ctx.lost("C16-SIB-lzw", "enc::lzw_encode / enc::lzw_decode")
        return
    ea, da = _weezl_ctor_args(eb, "encode"), _weezl_ctor_args(db, "decode")
    ctx.floor("C16-SIB-lzw", len(ea), 1, "weezl encoder constructions")
    ctx.floor("C16-SIB-lzw", len(da), 2, "weezl decoder constructions")
    argsets = {tuple(a[2]) for a in ea} | {tuple(a[2]) for a in da}
    ctx.check(len(argsets) == 1, "C16-SIB-lzw", "enc::lzw#params", "bit order / code size differ between encoder and decoder: %s" % sorted(map(str, argsets)),
              eb["span"], detail="all constructions use %s" % sorted(map(str, argsets)))

    def by_early(b, ctors):
        def subj(e):
            return isinstance(e, tuple) and e[0] == "field" and e[2] == "early_change"
        stops = {c[0] for c in ctors}
        res = {}
        for S, path in classify(b, subj, stops=stops):
            last = [x for x in path if x >= 0][-1]
            for c in ctors:
                if c[0] == last:
                    res.setdefault(c[1], set()).update(S)
        return res
    e_map, d_map = by_early(eb, ea), by_early(db, da)
    # values of EarlyChange the encoder accepts (reach a constructor)
    ok = True
    detail = []
    for ctor, S in e_map.items():
        dS = d_map.get(ctor, set())
        detail.append("encoder %s for EarlyChange %s, decoder %s for %s" % (ctor, fmt_set(S), ctor, fmt_set(dS)))
        if not (S <= dS):
            ok = False
    ctx.check(ok and bool(e_map), "C16-SIB-lzw", "enc::lzw#early-change",
              "for an EarlyChange value the encoder accepts, the decoder uses a different code-size switch: " + "; ".join(detail), eb["span"],
              detail="; ".join(detail))


def _value_set(e, S, subj_pred):
    """image of byte set S under an expression built from the subject with +,- constants and casts"""
    if isinstance(e, tuple):
        if e[0] in ("cast", "ref", "deref"):
            return _value_set(e[1], S, subj_pred)
        if subj_pred(e):
            return set(S)
        if e[0] == "const" and e[1] == "int":
            return {e[2]}
        if e[0] == "binop":
            a = _value_set(e[2], S, subj_pred)
            b = _value_set(e[3], S, subj_pred)
            if a is None or b is None:
                return None
            op = e[1].replace("WithOverflow", "").replace("Unchecked", "")
            if op == "Add":
                return {(x + y) & 0xff for x in a for y in b} if len(a) == 1 or len(b) == 1 else None
            if op == "Sub":
                return {(x - y) & 0xff for x in a for y in b} if len(a) == 1 or len(b) == 1 else None
        if e[0] == "field" and e[2] == "0":
            return _value_set(e[1], S, subj_pred)
    return None


def rule_hex(ctx, f):
    ctx.rule("C16-SIB-hex", "the hex encoder maps nibbles 0..15 into the decoder's digit alphabet and panics for no nibble it is given")
    eb, nb = f.body("enc::encode_nibble"), f.body("enc::decode_nibble")
    if eb is None or nb is None:
        ctx.lost("C16-SIB-hex", "enc::encode_nibble / enc::decode_nibble")
        return
    dec = outcome_partition(nb, arg_subject(1), ret_shape).get("Some", set())
    out = set()
    dom = set()
    unknown = False
    for S, path in classify(eb, arg_subject(1)):
        if path[-1] == -1:
            continue
        ps = PathSym(eb, path)
        e = ps.expr_of_local(0, len(ps.events))
        img = _value_set(e, S, arg_subject(1))
        dom |= set(S)
        if img is None:
            unknown = True
        else:
            out |= img
    ctx.check(dom == set(range(16)), "C16-SIB-hex", "enc::encode_nibble#domain", "nibbles handled: %s (need 0..15)" % fmt_set(dom), eb["span"], detail="defined on 0..15")
    ctx.check(not unknown and out <= dec and len(out) == 16, "C16-SIB-hex", "enc::encode_nibble#alphabet",
              "encoder digits %s are not 16 distinct members of the decoder's digit set %s" % (fmt_set(out), fmt_set(dec)), eb["span"],
              detail="emits %s" % fmt_set(out))
    hb = f.body("enc::encode_hex")
    if hb is not None:
        # the two nibbles are b >> 4 and b & 0xf, high first
        cs = call_sites(hb, lambda n, t: n == "enc::encode_nibble")
        cfg = CFG(hb)
        cs = sorted(cs, key=lambda c: sum(1 for d in cs if cfg.dominates(d[0], c[0])))
        ops = []
        fl = Flow(hb)
        for bi, t in cs:
            l = arg_local(t, 0)
            bo = [(a[1], F.const_int(a[3][3])) for a in fl.origins(l, passthrough=()) if a[0] == "binop"]
            ops.append(bo[0] if bo else None)
        ctx.check(ops == [("Shr", 4), ("BitAnd", 15)], "C16-SIB-hex", "enc::encode_hex#order",
                  "nibbles are produced as %s (expected high = b >> 4 first, then low = b & 0xf)" % ops, hb["span"], detail="high nibble first")


def rule_a85(ctx, f):
    ctx.rule("C16-SIB-a85", "the ASCII85 encoder divides by 85 four times, offsets digits by 33 (the decoder's lower bound), emits `z` only "
             "inside the full-group loop under an all-zero test, and ends every output with `~>`")
    cb, ab, eb, sb = f.body("enc::base85_chunk"), f.body("enc::a85"), f.body("enc::encode_85"), f.body("enc::sym_85")
    if None in (cb, ab, eb, sb):
        ctx.lost("C16-SIB-a85", "enc::base85_chunk / a85 / encode_85 / sym_85")
        return
    divs = [F.const_int(t["args"][1]) for bi, t in F.calls(cb) if last_seg(F.callee_name(t)) == "divmod"]
    ctx.check(divs == [85, 85, 85, 85], "C16-SIB-a85", "enc::base85_chunk#base", "divisors %s (expected four times 85)" % divs, cb["span"], detail="4 x divmod(.., 85)")
    # a group is the big-endian number of its four bytes (encoder) / is written back most significant byte first (decoder)
    wb85 = f.body("enc::word_85")
    enc_be = [last_seg(F.callee_name(t)) for bi, t in F.calls(cb) if last_seg(F.callee_name(t)) in ("from_be_bytes", "from_le_bytes", "from_ne_bytes")]
    dec_be = [last_seg(F.callee_name(t)) for bi, t in F.calls(wb85)] if wb85 is not None else []
    dec_be = [x for x in dec_be if x in ("to_be_bytes", "to_le_bytes", "to_ne_bytes")]
    ctx.check(enc_be == ["from_be_bytes"] and dec_be == ["to_be_bytes"], "C16-SIB-a85", "enc::base85_chunk#byte-order", "byte order of a group: encoder %s, decoder %s "
              "(ASCII85 groups are big-endian)" % (enc_be, dec_be), cb["span"], detail="from_be_bytes / to_be_bytes")
    offs = [F.const_int(o) for i, j, s in F.stmts(ab) if s[0] == "assign" and s[2][0] == "binop" and s[2][1].startswith("Add") for o in (s[2][2], s[2][3]) if F.const_int(o) is not None]
    dec = outcome_partition(sb, arg_subject(1), ret_shape).get("Some", set())
    ctx.check(offs == [33] and min(dec or {0}) == 33 and max(dec or {0}) == 33 + 84, "C16-SIB-a85", "enc::a85#offset",
              "digit offset %s vs decoder alphabet %s" % (offs, fmt_set(dec)), ab["span"], detail="digit d -> 33 + d, decoder accepts 33..117")
    # order of the five digits: a (most significant) first
    cfg = CFG(eb)
    loops = cfg.loops()
    zpush = [(bi, t) for bi, t in F.calls(eb) if last_seg(F.callee_name(t)) == "push" and any(F.const_int(a) == 122 for a in t["args"])]
    okz = bool(zpush)
    for bi, t in zpush:
        inloop = any(bi in blk for blk in loops.values())
        # dominated by an array equality test against zeros
        eqs = [x for x, tt in F.calls(eb) if last_seg(F.callee_name(tt)) in ("eq", "ne") and "[u8; 4]" in (tt.get("callee_full", "") + tt.get("resolved_full", ""))]
        okz = okz and inloop and any(cfg.dominates(x, bi) for x in eqs)
        # ... and the push sits on the EQUAL side of that test (and only there)
        side = False
        for x, tt in F.calls(eb):
            if x in eqs and tt.get("target") is not None:
                sw = eb["blocks"][tt["target"]]["term"]
                if sw["k"] != "switch" or F.op_local(sw["discr"]) != tt["dest"][0]:
                    continue
                arms = {a[0]: a[1] for a in sw["arms"]}
                false_t = arms.get(0, sw.get("otherwise"))
                true_t = sw.get("otherwise") if 0 in arms else arms.get(1)
                eq_t = true_t if last_seg(F.callee_name(tt)) == "eq" else false_t
                ne_t = false_t if eq_t == true_t else true_t
                if eq_t is not None and (bi == eq_t or bi in cfg.reachable_from(eq_t, avoid={tt["target"]})) and \
                        not (ne_t is not None and (bi == ne_t or bi in cfg.reachable_from(ne_t, avoid={tt["target"]} | set(loops)))):
                    side = True
        okz = okz and side
        # the loop that contains the `z` branch runs over complete four-byte groups only (a zero-padded final group of 1-3 bytes is not `z`)
        full = False
        for head, blk in loops.items():
            if bi in blk:
                for nb, nt in F.calls(eb):
                    if nb in blk and last_seg(F.callee_name(nt)) == "next" and "ChunksExact" in (nt.get("callee_full", "") + str(nt.get("self_ty"))):
                        full = True
        chunk4 = any(last_seg(F.callee_name(ct)) == "chunks_exact" and F.const_int(ct["args"][1]) == 4 for cb_, ct in F.calls(eb) if len(ct["args"]) > 1)
        okz = okz and full and chunk4
    consts = sorted({F.const_int(a) for bi, t in F.calls(eb) if last_seg(F.callee_name(t)) == "push" for a in t["args"] if F.const_int(a) is not None})
    ctx.check(consts == [122], "C16-SIB-a85", "enc::encode_85#shorthands", "the encoder writes the single bytes %s as shorthands: only `z` (four zero bytes) is part of the "
              "format, anything else is refused by other decoders" % [chr(c) for c in consts if 32 <= c < 127], eb["span"], detail="`z` is the only shorthand")
    ctx.check(okz, "C16-SIB-a85", "enc::encode_85#z", "`z` is emitted outside the full-group loop or without an all-zero test", eb["span"], detail="'z' only for a full [0;4] group")
    # a final group of n < 4 bytes is written as its first n + 1 digits
    efl = Flow(eb)
    tails = 0
    for bi, t in F.calls(eb):
        if last_seg(F.callee_name(t)) == "index" and len(t["args"]) == 2 and "RangeTo<usize>" in t["arg_tys"][1]["s"] and "[u8; 5]" in t["arg_tys"][0]["s"]:
            tails += 1
            l = F.op_local(t["args"][1])
            okt = False
            for a in efl.origins(l, passthrough=()) if l is not None else []:
                if a[0] == "agg":
                    for o in a[3][2]:
                        ol = F.op_local(o)
                        ats = efl.origins(ol, passthrough=()) if ol is not None else []
                        if any(x[0] == "binop" and x[1].startswith("Add") for x in ats) and any(x[0] == "const" and x[1].get("int") == 1 for x in ats) and \
                                any(x[0] == "call" and last_seg(x[1]) == "len" for x in ats):
                            okt = True
            ctx.check(okt, "C16-SIB-a85", "enc::encode_85#tail-digits", "the digits written for a short final group are not the first len + 1 of the five: the decoder cannot "
                      "rebuild the last byte(s)", t["span"], detail="&digits[..n + 1] for a final group of n bytes")
    ctx.floor("C16-SIB-a85", tails, 1, "cut of the final group's digits")
    tail = [(bi, t) for bi, t in F.calls(eb) if last_seg(F.callee_name(t)) == "extend_from_slice" and any(F.const_bytes(a) == "~>" for a in t["args"])]
    if not tail:
        # constant may flow through a temp
        fl = Flow(eb)
        for bi, t in F.calls(eb):
            if last_seg(F.callee_name(t)) == "extend_from_slice":
                l = arg_local(t, 1)
                if l is not None and any(a[0] == "const" and a[1].get("bytes") == "~>" for a in fl.origins(l)):
                    tail.append((bi, t))
    ok = bool(tail) and all(cfg.all_paths_pass(0, cfg.exits, {bi for bi, t in tail}) for _ in [0])
    ctx.check(ok, "C16-SIB-a85", "enc::encode_85#eod", "output does not end with `~>` on every path", eb["span"], detail="~> appended on every path")



def rule_inflate_whole(ctx, f):
    ctx.rule("C16-TS-dec", "the Flate decoder reads the encoder's output to its end: no limit is put on the decompressed length (long runs compress 1000 : 1; a cap in "
             "proportion to the compressed size cuts them short without an error)")
    n = 0
    for b in f.bodies.values():
        if b.get("_file") != "pdf/src/enc.rs" or b["kind"] == "Closure":
            continue
        rd = [t for bi, t in F.calls(b) if last_seg(F.callee_name(t)) in ("read_to_end", "read_exact", "read") and "Read" in (F.callee_name(t) + str(t.get("trait")))]
        if not rd or not any("libflate" in F.callee_name(t) + t.get("callee_full", "") + " ".join(a["s"] for a in t.get("arg_tys", [])) for bi, t in F.calls(b)):
            continue
        n += 1
        lim = sorted({last_seg(F.callee_name(t)) for bi, t in F.calls(b)} & {"take", "read_exact", "with_capacity_limit", "take_while"})
        ctx.check(not lim, "C16-TS-dec", b["id"] + "#reads-all", "the inflater's output is limited (%s): data that compresses better than the limit allows comes back truncated" % ", ".join(lim),
                  b["span"], detail="decoder.read_to_end(..)")
    ctx.floor("C16-TS-dec", n, 2, "inflate helpers (zlib framing, raw deflate)")


def run(ctx):
    f = F.load("default")
    ctx.count("bodies", len(f.bodies))
    rule_finish(ctx, f)
    rule_sib(ctx, f)
    rule_lzw(ctx, f)
    rule_hex(ctx, f)
    rule_a85(ctx, f)
    rule_inflate_whole(ctx, f)
    return ctx.finish(
        "Static analysis of MIR facts of enc.rs: must-pass-through of finish() and identity of the zlib encoder type; dispatch "
        "tables of encode/decode compared as siblings by role; constructor arguments of the weezl encoder/decoder and the "
        "EarlyChange classes reaching each constructor; exact byte classes / value images of the hex and ASCII85 digit mappings "
        "against the decoders' accepted sets. Inversion over all byte strings is value-level and not decided.",
        ["rustc nightly MIR construction", "mirx exporter", "libflate::zlib = RFC 1950 container", "weezl constructor semantics (with_tiff_size_switch = early change)"])
