"""C14 — hostile but well-formed object graphs end in an error, not a crash.

Decided:
  REC      every cycle of the type-instantiated call graph over the read universe is cut by the recursion guard of
           `Resolve::get`, by a tested and decremented budget, follows no reference (owned descent), or is a self-call
           that only re-enters with the resolved value of a reference
  RESOLVE  the crate's resolvers never hand back a reference (so "resolve, then look again" ends after one step)
  GUARD    `StorageResolver::get` tests the chain for the key and fails before it pushes and loads
  TAINT    every index / arithmetic / division / allocation / slice function reached by a number read from the file
           (integers of primitives, numeric fields of the typed models, numbers parsed from text, numbers parked in
           helper structs) is bounded by type, compared before use in the function or in every caller, clamped, or a
           reviewed entry of rules/discharged.json
  K4       every loop over a numeric range whose end is a file number is compared / bounded / input-consuming
Not decided: file numbers that travel through the contents of collections or through iterator adaptors into
closures; the adequacy of a comparison (that it compares with the right bound); stack depth under the guard.
"""
import facts as F
from cfg import CFG
from flow import Flow, last_seg, arg_local
import census
from recursion import resolver_returns_no_reference


def cycle_key(inst, nodes):
    """a recursion is named by the public functions and trait methods on it: a private helper or a closure that a maintainer moves a
    part of one of them into (`build_filters(..)`) does not make it another recursion"""
    bodies = sorted({inst.nodes[n]["body"] for n in nodes})
    fb = getattr(getattr(inst, "f", None), "bodies", {})

    def private(bid):
        b = fb.get(bid)
        return b is not None and (b["kind"] == "Closure" or (not b.get("pub") and not (b.get("impl") or {}).get("trait")))
    named = [x for x in bodies if not private(x)]
    return " | ".join(named or bodies)


def rule_guard(ctx, f):
    ctx.rule("C14-GUARD", "StorageResolver::get looks the key up in the chain and returns an error on a hit before it pushes the key and before the "
             "cached load starts")
    gets = [b for b in f.bodies.values() if (b.get("impl") or {}).get("trait") == "object::Resolve" and b["id"].endswith("::get")
            and any(last_seg(F.callee_name(t)) == "get_or_compute" for bi, t in F.calls(b))]
    ctx.floor("C14-GUARD", len(gets), 1, "Resolve::get implementations that load through the cache")
    from inline import inlined
    gets = [inlined(f, b) for b in gets]        # a guard moved into a private helper (`self.enter(key)?`) is read in place
    for b in gets:
        cfg = CFG(b)
        cont = [(bi, t) for bi, t in F.calls(b) if last_seg(F.callee_name(t)) == "contains"]
        push = [bi for bi, t in F.calls(b) if last_seg(F.callee_name(t)) == "push"]
        load = [bi for bi, t in F.calls(b) if last_seg(F.callee_name(t)) == "get_or_compute"]
        ok = False
        for bi, t in cont:
            tg = t.get("target")
            if tg is None or b["blocks"][tg]["term"]["k"] != "switch":
                continue
            sw = b["blocks"][tg]["term"]
            arms = {a[0]: a[1] for a in sw["arms"]}
            hit = sw["otherwise"] if 0 in arms else arms.get(1)
            miss = arms.get(0, sw["otherwise"])
            # the hit branch never reaches the load; push and load are only reachable through the miss branch
            from cfg import ccp_reachable
            hit_reach = ccp_reachable(b, hit)      # follows the variant of a Result through `?` (an inlined helper returns Err -> the Break arm)
            from cfg import ccp_dominates
            if not (set(load) & hit_reach) and not (set(push) & hit_reach) and all(cfg.dominates(tg, x) or ccp_dominates(b, tg, x) for x in load + push):
                ok = True
        ctx.check(ok, "C14-GUARD", "%s#chain-test" % b["id"], "the recursion guard does not stop a repeated key before the load: a reference cycle through typed loads recurses without bound",
                  b["span"], detail="chain.contains(&key) -> Err before push / get_or_compute")
        # the key stays on the chain while the load runs: the value whose Drop pops it (a guard object whose closure calls pop) is dropped
        # only on paths that can no longer reach the load
        guards = []
        for i, j, st in F.stmts(b):
            if st[0] == "assign" and st[2][0] == "aggregate" and st[2][1].get("k") == "adt" and len(st[1]) == 1:
                for op in st[2][2]:
                    l = F.op_local(op)
                    for dfn in (Flow(b).defs.get(l, []) if l is not None else []):
                        if dfn[0] == "assign" and dfn[2][0] == "aggregate" and dfn[2][1].get("k") == "closure":
                            cb = f.bodies.get(dfn[2][1].get("closure"))
                            if cb is not None and any(last_seg(F.callee_name(tt)) == "pop" for _, tt in F.calls(cb)):
                                guards.append(st[1][0])
        drops = [(i, bb["term"]) for i, bb in enumerate(b["blocks"]) if bb["term"]["k"] == "drop" and not bb.get("cleanup") and bb["term"]["place"] and bb["term"]["place"][0] in guards]
        # an explicit `drop(guard)` moves the guard into mem::drop: that call is where the key is popped
        gcopies = set(guards)
        for _ in range(3):
            for i_, j_, st_ in F.stmts(b):
                if st_[0] == "assign" and len(st_[1]) == 1 and st_[2][0] == "use" and F.op_local(st_[2][1]) in gcopies:
                    gcopies.add(st_[1][0])
        drops += [(bi_, t_) for bi_, t_ in F.calls(b) if last_seg(F.callee_name(t_)) == "drop" and "mem" in F.callee_name(t_) and t_["args"] and F.op_local(t_["args"][0]) in gcopies
                  and not b["blocks"][bi_].get("cleanup")]
        # (every load: the cached one and the re-loads for the requested type in the arms that follow it)
        reloads = [bi for bi, t in F.calls(b) if t.get("callee") in ("object::Object::from_primitive", "object::Resolve::resolve", "object::Resolve::resolve_flags") or
                   (last_seg(F.callee_name(t)) == "and_then" and any(a_[0] == "agg" and a_[1].get("k") == "closure" and f.bodies.get(a_[1].get("closure")) is not None and
                                                                     any(t3.get("callee") == "object::Object::from_primitive" for _, t3 in F.calls(f.bodies[a_[1]["closure"]]))
                                                                     for a_ in Flow(b).origins(F.op_local(t["args"][1])) if len(t["args"]) > 1 and F.op_local(t["args"][1]) is not None))]
        okp = bool(guards) and bool(drops) and not any(cfg.can_reach(d, x) for d, _ in drops for x in load + reloads)
        gfl = Flow(b)
        for lb in load:
            kt = b["blocks"][lb]["term"]
            kl = arg_local(kt, 1) if len(kt["args"]) > 1 else None
            ats = gfl.origins(kl, passthrough=("get_inner", "get_ref")) if kl is not None else []
            # ... the very value the `contains` test looked at (the same variable), not one rebuilt from its parts
            tested = set()
            for cbi, ct in cont:
                tl = arg_local(ct, 1)
                tested |= {a_[2] for a_ in gfl.origins(tl, passthrough=("get_inner", "get_ref")) if a_[0] == "call"} if tl is not None else set()
            same = kl is not None and not any(a_[0] in ("agg", "const") for a_ in ats) and \
                {a_[2] for a_ in ats if a_[0] == "call"} == tested and bool(tested)
            ctx.check(same, "C14-GUARD", "%s#same-key" % b["id"], "the cache is asked for another key than the one the chain was tested for (a key rebuilt from parts, e.g. without "
                      "the generation): a reference to the same object under another generation passes the guard and re-enters the cache entry that is being computed - the load "
                      "never returns", kt["span"], detail="get_or_compute(key, ..) with the key of the guard")
        ctx.check(okp, "C14-GUARD", "%s#pop-after-load" % b["id"], "the object that pops the key off the chain is %s: while the load runs the chain does not contain the key, so "
                  "neither the recursion test nor the depth limit can stop a cycle" % ("dropped before the load (`let _ = ..` drops at once)" if guards and drops else "not found"),
                  b["span"], detail="guard object dropped only after the cached load")
        # depth: the length of the chain is compared with a constant before the push (each nested load costs stack, and a file can
        # make the chain of distinct objects as long as it likes)
        lens = [(bi, t) for bi, t in F.calls(b) if last_seg(F.callee_name(t)) == "len" and "Vec" in F.callee_name(t) + t.get("callee_full", "")]
        okd = False
        for bi, t in lens:
            tg = t.get("target")
            if tg is None:
                continue
            blk = b["blocks"][tg]
            d = t["dest"][0]
            for st in blk["stmts"]:
                if st[0] == "assign" and st[2][0] == "binop" and st[2][1] in ("Ge", "Gt", "Lt", "Le") and d in (F.op_local(st[2][2]), F.op_local(st[2][3])) and \
                        (F.const_int(st[2][2]) is not None or F.const_int(st[2][3]) is not None) and blk["term"]["k"] == "switch":
                    from cfg import ccp_dominates
                    if all(cfg.dominates(tg, x) or ccp_dominates(b, tg, x) for x in push + load):
                        # one outcome of the test (the limit is reached) gets to neither the push nor the load
                        from cfg import ccp_reachable
                        sw2 = blk["term"]
                        outs = {a[1] for a in sw2["arms"]} | {sw2.get("otherwise")}
                        if any(o is not None and not (ccp_reachable(b, o) & set(push + load)) for o in outs):
                            okd = True
        ctx.check(okd, "C14-GUARD", "%s#depth-limit" % b["id"], "nested typed loads have no depth limit: a chain of a few hundred distinct objects that load each other "
                  "(page -> parent -> parent ...) exhausts the stack", b["span"], detail="chain.len() >= MAX -> Err before push")
        # a failed load is re-tried only if the failure came out of the cache: the retry is dominated by a test of a flag that the
        # compute closure sets
        flags = set()
        for i, j, st in F.stmts(b):
            if st[0] == "assign" and st[2][0] == "aggregate" and st[2][1].get("k") == "closure":
                cid = st[2][1].get("closure")
                cb = f.bodies.get(cid)
                if cb is None or not any(last_seg(F.callee_name(tt)) in ("resolve", "from_primitive") for _, tt in F.calls(cb)):
                    continue
                for op in st[2][2]:
                    l = F.op_local(op)
                    for dfn in (Flow(b).defs.get(l, []) if l is not None else []):
                        if dfn[0] == "assign" and dfn[2][0] == "ref" and b["locals"][dfn[2][1][0]]["s"] == "bool":
                            flags.add(dfn[2][1][0])
        retries = [bi for bi, t in F.calls(b) if last_seg(F.callee_name(t)) in ("and_then", "from_primitive") and any(cfg.dominates(x, bi) for x in load)
                   and any(last_seg(F.callee_name(t2)) == "resolve" and cfg.dominates(x2, bi) and any(cfg.dominates(l0, x2) for l0 in load) for x2, t2 in F.calls(b))]
        okr = True
        err_retries = []
        for bi in retries:
            # retries in the Ok arm (type mismatch of a cached value) are fine; those in the Err arm need the flag
            in_err = False
            for i, bb in enumerate(b["blocks"]):
                tt = bb["term"]
                if tt["k"] == "switch" and cfg.dominates(i, bi) and any(cfg.dominates(l0, i) for l0 in load):
                    dl = F.op_local(tt["discr"])
                    for st in bb["stmts"]:
                        if st[0] == "assign" and st[1] == [dl] and st[2][0] == "discr" and "Result<any::AnySync" in b["locals"][st[2][1][0]]["s"]:
                            arms = {a[0]: a[1] for a in tt["arms"]}
                            et = arms.get(1, tt["otherwise"])
                            if et == bi or bi in cfg.reachable_from(et, avoid={i}):
                                okarm = arms.get(0)
                                if okarm is None or not (okarm == bi or bi in cfg.reachable_from(okarm, avoid={i})):
                                    in_err = True
            if in_err:
                err_retries.append(bi)
                guarded = False
                for i, bb in enumerate(b["blocks"]):
                    tt = bb["term"]
                    if tt["k"] == "switch" and cfg.dominates(i, bi) and F.op_local(tt["discr"]) is not None:
                        dl = F.op_local(tt["discr"])
                        if dl in flags or any(F.op_place(st[2][1]) and F.op_place(st[2][1])[0] in flags for st in bb["stmts"] if st[0] == "assign" and st[1] == [dl] and st[2][0] == "use"):
                            guarded = True
                okr = okr and guarded
        if err_retries:
            ctx.check(okr, "C14-GUARD", "%s#retry-once" % b["id"], "a typed load that has just failed is loaded again unconditionally: nested, every level of a failing chain "
                      "of objects doubles the work (2^depth loads)", b["span"], detail="retry only when the error came out of the cache (flag set by the compute closure)")


def run(ctx):
    f = F.load()
    ctx.count("bodies", len(f.bodies))
    R = census.get_run(f)
    ctx.count("read-reachable bodies analysed", R.bodies)
    # --- recursion --------------------------------------------------------------------------------
    ctx.rule("C14-REC", "every cycle of the type-instantiated call graph is cut by the get() guard, by a tested and decremented budget, follows no reference, "
             "or is a self-call re-entering with the resolved value of a reference")
    rec, findings, accepted = R.recursion()
    ctx.count("instantiated call-graph nodes", len(rec.inst.nodes))
    ctx.floor("C14-REC", len(rec.inst.nodes), 800, "type-instantiated bodies")
    ctx.floor("C14-REC", len(accepted) + len(findings), 30, "cycles examined")
    if rec.inst.truncated:
        ctx.bad("C14-REC", "instantiation#truncated", "the instantiated call graph was cut off at its size limit: cycles may be missed")
    for u in sorted(set(rec.inst.unresolved)):
        ctx.bad("C14-REC", "instantiation#unresolved:%s" % u[1], "a call on a type parameter could not be resolved to an impl (%s in %s)" % (u[1], u[0]))
    for nodes, why in accepted:
        ctx.ok("C14-REC", cycle_key(rec.inst, nodes)[:300], why)
    for x in findings:
        key = "cycle:" + cycle_key(rec.inst, x["nodes"])
        first = rec.inst.nodes[x["nodes"][0]]["body"]
        ctx.bad("C14-REC", key, "unbounded recursion: " + x["why"], f.bodies[first]["span"], path=["cycle member: " + n for n in x["nodes"][:10]])
    budgets = [a for a in accepted if "budget" in a[1]]
    ctx.floor("C14-REC", len(budgets), 6, "cycles cut by a budget (parser, page tree, colour space, name/number trees, appearance entries)")
    guards = [a for a in accepted if "guard" in a[1]]
    ctx.floor("C14-REC", len(guards), 2, "cycles cut by the get() guard (page tree parents, ICC alternates)")
    # --- resolvers -----------------------------------------------------------------------------------
    ctx.rule("C14-RESOLVE", "every Resolve impl of the crate fails always, hands on another resolver's answer, or follows a reference result with a tested, "
             "decremented budget and returns Ok only outside the Reference arm")
    rs = resolver_returns_no_reference(f)
    ctx.floor("C14-RESOLVE", len(rs), 2, "Resolve implementations")
    for bid, verdict, ok in rs:
        ctx.check(ok, "C14-RESOLVE", bid, "a resolver can return a reference: `X::from_primitive(resolve(r)?, ..)` loops on `n 0 obj n 0 R endobj` (%s)" % verdict,
                  f.bodies[bid]["span"] if bid in f.bodies else "", detail=verdict)
    rule_guard(ctx, f)
    # --- tainted sinks --------------------------------------------------------------------------------
    ctx.rule("C14-TAINT", "every index / arithmetic / division / allocation / slice function reached by a file number is bounded by its type, compared "
             "before use (here or in every caller), clamped, or a reviewed entry of rules/discharged.json")
    nt = sum(1 for s in R.sites if census.category(s) == "tainted")
    ctx.floor("C14-TAINT", nt, 40, "constructs reached by file numbers")
    ctx.floor("C14-TAINT", len(R.taint.field_taint), 5, "helper-struct fields that carry file numbers")
    census.report_sites(ctx, R, "C14-TAINT", ("tainted",), "C14", "tainted")
    # --- side conditions of the reviewed discharges shared with C01 ------------------------------------------
    ctx.rule("C14-REQ", "the facts elsewhere in the crate that the reviewed discharges of crash sites rest on (who constructs a value, who calls a helper, "
             "which length test precedes it) still hold - also for the sites filed under C01, since a crash on a hostile file violates both")
    nreq = 0
    live = {}
    for s0 in R.sites:
        if s0.status == "open":
            live.setdefault("%s:%s" % (s0.kind, s0.detail), set()).add(s0.body["id"])
    for e in R.table:
        if e.get("property") == "C14":
            continue        # reported with the site itself by C14-TAINT
        # only entries that still discharge something: a rewrite that removes the construct needs no side condition any more
        if not any(bid0 == e["fn"] or bid0.startswith(e["fn"] + "::") for bid0 in live.get(e["site"], ())):
            continue
        for rq in e.get("requires", []):
            nreq += 1
            okq, whyq = census.requirement(f, rq, e)
            ctx.check(okq, "C14-REQ", "%s#%s:%s" % (e["fn"], e["site"], rq["kind"] + ":" + str(rq.get("fn") or rq.get("adt")) + (":" + str(rq.get("variant") or rq.get("const") or ""))),
                      "the reviewed reason for %s in %s (\"%s\") rests on a fact that no longer holds: %s" % (e["site"], e["fn"], e["reason"][:140], whyq),
                      (f.bodies.get(e["fn"]) or {}).get("span", ""), detail=whyq)
    ctx.floor("C14-REQ", nreq, 10, "machine-checked side conditions of live entries")
    # --- loops over file-derived ranges -----------------------------------------------------------------
    ctx.rule("C14-K4", "a loop over a numeric range whose end is a file number needs the end compared / bounded, or a body that consumes input")
    n4 = 0
    for b, head, k, txt in R.loops():
        if k == "range" and "file-derived" in txt:
            n4 += 1
            ctx.ok("C14-K4", "%s#loop" % b["id"], txt)
        if k is None and "numeric range" in txt:
            n4 += 1
            ctx.bad("C14-K4", "%s#range-loop" % b["id"], txt, b["blocks"][head]["term"].get("span", b["span"]))
    ctx.floor("C14-K4", n4, 4, "loops over file-derived ranges")
    # the /Prev walk: its loop guard compares offsets of one kind (a cycle of /Prev pointers must end in an error whatever precedes the header)
    import c17
    ctx.rule("C14-K5", "the guard of the /Prev walk stores and looks up offsets of the same kind (shared with C17-UNITS #visited-offsets)")
    c17.rule_seen_units(ctx, f, "C14-K5")
    # a /Length that points at a stream (at the very stream it belongs to, say) must not be loaded as a stream again: the resolver stays abstract
    # in the call graph, so this recursion (parser -> resolve_flags -> parse_indirect_object -> parse_stream_object -> resolve_flags) is not one of
    # its cycles; what cuts it is the integer-only filter handed to resolve_flags
    import c11
    c11.rule_length(ctx, f, "C14-K6")
    return ctx.finish(
        "Static analysis of MIR facts: call graph instantiated with the concrete types of generic loaders (substitution + impl lookup), cycle "
        "enumeration with guard / budget / owned-descent / single-step witnesses; interprocedural taint of file numbers with type bounds, "
        "dominating comparisons (in the function or in all callers), clamps and a global field summary; loop-range rule.",
        ["rustc nightly MIR construction", "mirx exporter", "reviewed entries of rules/discharged.json (read once by a person, not proven)"])
