"""C14 — hostile but well-formed object graphs end in an error, not a crash.

Decided:
  REC      every cycle of the type-instantiated call graph over the read universe is cut by the recursion guard of
           `Resolve::get`, by a tested and decremented budget, follows no reference (owned descent), or is a self-call
           that only re-enters with the resolved value of a reference
  RESOLVE  the crate's resolvers never hand back a reference (so "resolve, then look again" ends after one step)
  GUARD    `StorageResolver::get` tests the chain for the key and fails before it pushes and loads
  TAINT    every index / arithmetic / division / allocation / slice function reached by a number read from the file
           (integers of primitives, numeric fields of the typed models, numbers parsed from text, numbers parked in
           helper structs) is bounded by type, compared before use in the function or in every caller, clamped, or a
           reviewed entry of rules/discharged.json
  K4       every loop over a numeric range whose end is a file number is compared / bounded / input-consuming
Not decided: file numbers that travel through the contents of collections or through iterator adaptors into
closures; the adequacy of a comparison (that it compares with the right bound); stack depth under the guard.
"""
import facts as F
from cfg import CFG
from flow import Flow, last_seg
import census
from recursion import resolver_returns_no_reference


def cycle_key(inst, nodes):
    bodies = sorted({inst.nodes[n]["body"] for n in nodes})
    return " | ".join(bodies)


def rule_guard(ctx, f):
    ctx.rule("C14-GUARD", "StorageResolver::get looks the key up in the chain and returns an error on a hit before it pushes the key and before the "
             "cached load starts")
    gets = [b for b in f.bodies.values() if (b.get("impl") or {}).get("trait") == "object::Resolve" and b["id"].endswith("::get")
            and any(last_seg(F.callee_name(t)) == "get_or_compute" for bi, t in F.calls(b))]
    ctx.floor("C14-GUARD", len(gets), 1, "Resolve::get implementations that load through the cache")
    for b in gets:
        cfg = CFG(b)
        cont = [(bi, t) for bi, t in F.calls(b) if last_seg(F.callee_name(t)) == "contains"]
        push = [bi for bi, t in F.calls(b) if last_seg(F.callee_name(t)) == "push"]
        load = [bi for bi, t in F.calls(b) if last_seg(F.callee_name(t)) == "get_or_compute"]
        ok = False
        for bi, t in cont:
            tg = t.get("target")
            if tg is None or b["blocks"][tg]["term"]["k"] != "switch":
                continue
            sw = b["blocks"][tg]["term"]
            arms = {a[0]: a[1] for a in sw["arms"]}
            hit = sw["otherwise"] if 0 in arms else arms.get(1)
            miss = arms.get(0, sw["otherwise"])
            # the hit branch never reaches the load; push and load are only reachable through the miss branch
            hit_reach = cfg.reachable_from(hit)
            if not (set(load) & hit_reach) and not (set(push) & hit_reach) and all(cfg.dominates(tg, x) for x in load + push):
                ok = True
        ctx.check(ok, "C14-GUARD", "%s#chain-test" % b["id"], "the recursion guard does not stop a repeated key before the load: a reference cycle through typed loads recurses without bound",
                  b["span"], detail="chain.contains(&key) -> Err before push / get_or_compute")


def run(ctx):
    f = F.load()
    ctx.count("bodies", len(f.bodies))
    R = census.get_run(f)
    ctx.count("read-reachable bodies analysed", R.bodies)
    # --- recursion --------------------------------------------------------------------------------
    ctx.rule("C14-REC", "every cycle of the type-instantiated call graph is cut by the get() guard, by a tested and decremented budget, follows no reference, "
             "or is a self-call re-entering with the resolved value of a reference")
    rec, findings, accepted = R.recursion()
    ctx.count("instantiated call-graph nodes", len(rec.inst.nodes))
    ctx.floor("C14-REC", len(rec.inst.nodes), 800, "type-instantiated bodies")
    ctx.floor("C14-REC", len(accepted) + len(findings), 30, "cycles examined")
    if rec.inst.truncated:
        ctx.bad("C14-REC", "instantiation#truncated", "the instantiated call graph was cut off at its size limit: cycles may be missed")
    for u in sorted(set(rec.inst.unresolved)):
        ctx.bad("C14-REC", "instantiation#unresolved:%s" % u[1], "a call on a type parameter could not be resolved to an impl (%s in %s)" % (u[1], u[0]))
    for nodes, why in accepted:
        ctx.ok("C14-REC", cycle_key(rec.inst, nodes)[:300], why)
    for x in findings:
        key = "cycle:" + cycle_key(rec.inst, x["nodes"])
        first = rec.inst.nodes[x["nodes"][0]]["body"]
        ctx.bad("C14-REC", key, "unbounded recursion: " + x["why"], f.bodies[first]["span"], path=["cycle member: " + n for n in x["nodes"][:10]])
    budgets = [a for a in accepted if "budget" in a[1]]
    ctx.floor("C14-REC", len(budgets), 6, "cycles cut by a budget (parser, page tree, colour space, name/number trees, appearance entries)")
    guards = [a for a in accepted if "guard" in a[1]]
    ctx.floor("C14-REC", len(guards), 2, "cycles cut by the get() guard (page tree parents, ICC alternates)")
    # --- resolvers -----------------------------------------------------------------------------------
    ctx.rule("C14-RESOLVE", "every Resolve impl of the crate fails always, hands on another resolver's answer, or follows a reference result with a tested, "
             "decremented budget and returns Ok only outside the Reference arm")
    rs = resolver_returns_no_reference(f)
    ctx.floor("C14-RESOLVE", len(rs), 2, "Resolve implementations")
    for bid, verdict, ok in rs:
        ctx.check(ok, "C14-RESOLVE", bid, "a resolver can return a reference: `X::from_primitive(resolve(r)?, ..)` loops on `n 0 obj n 0 R endobj` (%s)" % verdict,
                  f.bodies[bid]["span"] if bid in f.bodies else "", detail=verdict)
    rule_guard(ctx, f)
    # --- tainted sinks --------------------------------------------------------------------------------
    ctx.rule("C14-TAINT", "every index / arithmetic / division / allocation / slice function reached by a file number is bounded by its type, compared "
             "before use (here or in every caller), clamped, or a reviewed entry of rules/discharged.json")
    nt = sum(1 for s in R.sites if census.category(s) == "tainted")
    ctx.floor("C14-TAINT", nt, 40, "constructs reached by file numbers")
    ctx.floor("C14-TAINT", len(R.taint.field_taint), 5, "helper-struct fields that carry file numbers")
    census.report_sites(ctx, R, "C14-TAINT", ("tainted",), "C14", "tainted")
    # --- loops over file-derived ranges -----------------------------------------------------------------
    ctx.rule("C14-K4", "a loop over a numeric range whose end is a file number needs the end compared / bounded, or a body that consumes input")
    n4 = 0
    for b, head, k, txt in R.loops():
        if k == "range" and "file-derived" in txt:
            n4 += 1
            ctx.ok("C14-K4", "%s#loop" % b["id"], txt)
        if k is None and "numeric range" in txt:
            n4 += 1
            ctx.bad("C14-K4", "%s#range-loop" % b["id"], txt, b["blocks"][head]["term"].get("span", b["span"]))
    ctx.floor("C14-K4", n4, 4, "loops over file-derived ranges")
    return ctx.finish(
        "Static analysis of MIR facts: call graph instantiated with the concrete types of generic loaders (substitution + impl lookup), cycle "
        "enumeration with guard / budget / owned-descent / single-step witnesses; interprocedural taint of file numbers with type bounds, "
        "dominating comparisons (in the function or in all callers), clamps and a global field summary; loop-range rule.",
        ["rustc nightly MIR construction", "mirx exporter", "reviewed entries of rules/discharged.json (read once by a person, not proven)"])
