"""C12 — caches are invisible: cached and uncached documents answer identically.

Decided (structure): the stream-cache key (object id) determines the cached computation — every
call of get_data_or_decode passes the *whole* filter list and the range of the stream named by
the id (PROV); every consumer of an object-cache entry validates the type or recomputes for the
requested type (G1); NoCache computes unconditionally, the SyncCache adapter forwards key and
closure unchanged (G2); the pointer cast in downcast is dominated by the TypeId test (G3);
bodies that write pending changes invalidate the caches (PAIR, shared with C09).
Not decided: call-sequence equivalence in general.
"""
import facts as F
from cfg import CFG
from flow import Flow, call_sites, arg_local, last_seg
from tables import exclusive_regions, region_calls

IDENT = ("deref", "deref_mut", "as_ref", "as_slice", "borrow", "clone", "as_mut_slice")


def rule_prov(ctx, f):
    ctx.rule("C12-PROV", "at every call of get_data_or_decode(id, range, filters) outside forwarding impls, `filters` is the whole filter list "
             "of the stream (read from the `filters` field through deref/as_slice only) and id/range come from that stream's Original data")
    n = 0
    for b in f.bodies.values():
        for bi, t in call_sites(b, lambda nm, t: t.get("callee") == "object::Resolve::get_data_or_decode"):
            if b.get("impl", {}).get("trait") == "object::Resolve":
                # forwarding implementation: all three arguments must be the impl's own parameters
                fl = Flow(b)
                ok = all(fl.derives_from_arg(arg_local(t, k)) for k in (1, 2, 3) if arg_local(t, k) is not None)
                ctx.check(ok, "C12-PROV", b["id"] + "#forward", "a forwarding resolver changes id / range / filters", t["span"], detail="forwards its own parameters")
                continue
            n += 1
            fl = Flow(b)
            l = arg_local(t, 3)
            flds = set()
            ats = fl.origins(l, passthrough=IDENT, fields=flds) if l is not None else []
            calls_ = [a[1] for a in ats if a[0] == "call" and last_seg(a[1]) not in IDENT]
            whole = "filters" in flds and not calls_
            ctx.check(whole, "C12-PROV", b["id"] + "#filters",
                      "the stream cache is keyed by the object id only, but this call decodes with a part of the filter list "
                      "(derived through %s): a later call for the same id with the full list gets these bytes, and vice versa"
                      % (sorted(set(last_seg(c) for c in calls_)) or "unknown"), t["span"],
                      detail="filters = &stream.info.filters (whole list)")
            rl = arg_local(t, 2)
            rf = set()
            rats = fl.origins(rl, fields=rf) if rl is not None else []
            il = arg_local(t, 1)
            idf = set()
            fl.origins(il, fields=idf) if il is not None else []
            ctx.check("as:Original" in rf and "as:Original" in idf, "C12-PROV", b["id"] + "#range",
                      "id and range are not taken from the same StreamData::Original", t["span"], detail="(range, id) = StreamData::Original of the stream")
    ctx.floor("C12-PROV", n, 2, "get_data_or_decode call sites (Stream::data, ImageXObject::raw_image_data)")
    # who may use the stream cache at all: it is keyed by the object id alone, so the only producer is get_data_or_decode, whose closure decodes
    # with the filters it was given (raw bytes, partly decoded bytes, anything else must not be stored under the same key)
    m = 0
    for b in f.bodies.values():
        for bi, t in F.calls(b):
            if last_seg(F.callee_name(t)) != "get_or_compute" or not t["args"]:
                continue
            l = arg_local(t, 0)
            flds = set()
            if l is not None:
                Flow(b).origins(l, fields=flds)
            if "stream_cache" not in flds:
                continue
            m += 1
            owner = b["id"].split("::{closure")[0]
            okw = owner.endswith("::get_data_or_decode") and (f.bodies.get(owner, b).get("impl") or {}).get("trait") == "object::Resolve"
            # the compute closure hands the function's own `filters` parameter on
            okf = False
            fl = Flow(b)
            for a in fl.origins(arg_local(t, 2)) if arg_local(t, 2) is not None else []:
                if a[0] == "agg" and a[1].get("k") == "closure":
                    cb = f.bodies.get(a[1].get("closure"))
                    if cb is not None:
                        for ci, ct in F.calls(cb):
                            if last_seg(F.callee_name(ct)) == "decode" and len(ct["args"]) >= 4:
                                cfl = Flow(cb)
                                fa = F.op_local(ct["args"][3])
                                fs2 = set()
                                ats = cfl.origins(fa, fields=fs2) if fa is not None else []
                                consts = [x for x in ats if x[0] in ("const", "agg") and not (x[0] == "agg" and x[1].get("k") == "closure")]
                                okf = any(x[0] == "arg" and x[1] == 1 for x in ats) and not consts
            ctx.check(okw and okf, "C12-PROV", b["id"] + "#stream-cache-user", "the stream cache (keyed by the object id only) is filled %s: a later read of the same stream with "
                      "the full filter list is served these bytes" % ("outside get_data_or_decode" if not okw else "with something other than the caller's filter list"),
                      t["span"], detail="stream_cache.get_or_compute only in get_data_or_decode, computing decode(id, range, filters)")
    ctx.floor("C12-PROV", m, 1, "uses of the stream cache")


def rule_consumers(ctx, f):
    ctx.rule("C12-G1", "in the typed load, every arm that consumes the object-cache entry passes a type check (downcast) or recomputes "
             "for the requested type — the key carries no type, so a cached Ok *and* a cached Err may stem from a load as another type")
    cands = []
    for b in f.bodies.values():
        if b.get("impl", {}).get("trait") == "object::Resolve" and b["id"].endswith("::get"):
            gc = call_sites(b, lambda nm, t: t.get("callee") == "file::Cache::get_or_compute")
            if gc:
                cands.append((b, gc))
    if not ctx.floor("C12-G1", len(cands), 1, "typed load through the object cache"):
        return
    for b, gc in cands:
        cfg = CFG(b)
        res = gc[0][1]["dest"][0]
        # switch on discriminant(res)
        done = False
        for i, bb in enumerate(b["blocks"]):
            t = bb["term"]
            if t["k"] != "switch":
                continue
            dl = F.op_local(t["discr"])
            if not any(s[0] == "assign" and s[1] == [dl] and s[2][0] == "discr" and s[2][1] == [res] for s in bb["stmts"]):
                continue
            done = True
            arms = {a[0]: a[1] for a in t["arms"]}
            ent = {"Ok": arms.get(0, t["otherwise"]), "Err": arms.get(1, t["otherwise"])}
            regs = exclusive_regions(cfg, ent)
            for vn, reg in regs.items():
                rc = [tt for r, tt in region_calls(b, reg | {ent[vn]})]
                # closures created in the arm (e.g. `.and_then(|p| T::from_primitive(p, self))`) belong to it
                for r in reg | {ent[vn]}:
                    for s in b["blocks"][r]["stmts"]:
                        if s[0] == "assign" and s[2][0] == "aggregate" and s[2][1]["k"] == "closure":
                            cb = f.body(s[2][1]["closure"])
                            if cb is not None:
                                rc += [tt for _, tt in F.calls(cb)]
                names = [F.callee_name(tt) for tt in rc]
                typed = any(last_seg(n) == "downcast" for n in names) or any(tt.get("callee") == "object::Object::from_primitive" for tt in rc)
                # a failed downcast must fall back to recomputing for the requested type
                for r, tt in region_calls(b, reg | {ent[vn]}):
                    if last_seg(F.callee_name(tt)) == "downcast" and tt.get("target") is not None:
                        sw2 = b["blocks"][tt["target"]]["term"]
                        if sw2["k"] == "switch":
                            a2 = {a[0]: a[1] for a in sw2["arms"]}
                            e2 = {"ok": a2.get(0, sw2["otherwise"]), "err": a2.get(1, sw2["otherwise"])}
                            r2 = exclusive_regions(cfg, e2)["err"] | {e2["err"]}
                            rec = any(t3.get("callee") == "object::Object::from_primitive" for _, t3 in region_calls(b, r2))
                            ctx.check(rec, "C12-G1", b["id"] + "#downcast-mismatch",
                                      "when the cached object has another type the load does not recompute for the requested type "
                                      "(cached: error, uncached: value)", tt["span"], detail="downcast Err -> T::from_primitive")
                if vn == "Err" and typed:
                    # the cached error may be handed out unchanged only when THIS call computed it (the flag the compute closure sets): on
                    # every other path through the arm the value is recomputed for the requested type
                    region = reg | {ent[vn]}
                    recompute = {r for r, tt in region_calls(b, region) if tt.get("callee") == "object::Object::from_primitive"}
                    for r in region:
                        for s in b["blocks"][r]["stmts"]:
                            if s[0] == "assign" and s[2][0] == "aggregate" and s[2][1]["k"] == "closure":
                                cb = f.body(s[2][1]["closure"])
                                if cb is not None and any(tt.get("callee") == "object::Object::from_primitive" for _, tt in F.calls(cb)):
                                    recompute.add(r)
                    # flags: bool locals borrowed mutably into the closure handed to get_or_compute and set to true there
                    gfl = Flow(b)
                    flags = set()
                    for a in gfl.origins(arg_local(gc[0][1], 2)) if arg_local(gc[0][1], 2) is not None else []:
                        if a[0] == "agg" and a[1].get("k") == "closure":
                            cb = f.body(a[1]["closure"])
                            sets_true = set()
                            cfl = Flow(cb) if cb is not None else None
                            for i3, j3, s3 in (F.stmts(cb) if cb is not None else []):
                                if s3[0] == "assign" and len(s3[1]) >= 2 and s3[1][-1][0] == "deref" and s3[2][0] == "use" and \
                                        s3[2][1][0] == "const" and s3[2][1][1].get("bool") is True:
                                    tgt = list(s3[1][:-1])
                                    for _ in range(4):
                                        d4 = [d_ for d_ in cfl.defs.get(tgt[0], []) if not d_[3]]
                                        if tgt[0] != 1 and len(d4) == 1 and d4[0][0] == "assign" and d4[0][2][0] == "use" and F.op_place(d4[0][2][1]):
                                            tgt = list(F.op_place(d4[0][2][1])) + tgt[1:]
                                        else:
                                            break
                                    if tgt[0] == 1:
                                        sets_true |= {e[1] for e in tgt[1:] if e[0] == "field"}
                            for k3, o3 in enumerate(a[3][2]):
                                l3 = F.op_local(o3)
                                if k3 in sets_true and l3 is not None:
                                    for d3 in gfl.defs.get(l3, []):
                                        if d3[0] == "assign" and d3[2][0] == "ref" and len(d3[2][1]) == 1 and b["locals"][d3[2][1][0]]["s"] == "bool":
                                            flags.add(d3[2][1][0])
                    gates = []
                    for r in region:
                        t4 = b["blocks"][r]["term"]
                        if t4["k"] == "switch" and F.op_place(t4["discr"]):
                            src = gfl.resolve(F.op_place(t4["discr"]))
                            if src[0] in flags and len(src) == 1:
                                a4 = {a_[0]: a_[1] for a_ in t4["arms"]}
                                if 0 in a4:
                                    gates.append((r, a4[0]))
                    exits_ = [x for x in cfg.exits]
                    okg = all(cfg.all_paths_pass(ft, exits_, recompute) for r, ft in gates) and \
                        all(cfg.all_paths_pass(ent[vn], exits_, recompute | {r for r, ft in gates}) for _ in [0])
                    ctx.check(okg and bool(recompute), "C12-G1", b["id"] + "#Err-arm-recomputes", "a cached error can be handed out without recomputation on a path where this call "
                              "did not compute it itself (the flag set by the compute closure is false there): a load as another type that failed earlier decides the answer",
                              t["span"], detail="Err: `computed` -> shared error; otherwise recompute for T")
                ctx.check(typed, "C12-G1", b["id"] + "#%s-arm" % vn,
                          "the cached %s entry is returned without a type check or recomputation: a load as type A that failed makes a later "
                          "load of the same reference as type B fail with A's error (uncached: B is computed)" % vn, t["span"],
                          detail="%s arm: downcast or recompute" % vn)
        if not done:
            ctx.lost("C12-G1", "switch on the cache result in " + b["id"])


def rule_adapters(ctx, f):
    ctx.rule("C12-G2", "NoCache::get_or_compute calls the closure on every path; the SyncCache adapter forwards key and closure unchanged")
    impls = [i for i in f.impls if i.get("trait") == "file::Cache"]
    # the SyncCache adapter exists only with the `cache` feature
    ctx.floor("C12-G2", len(impls), 2 if "cache" in f.features else 1, "Cache implementations (NoCache, Arc<SyncCache>)")
    for im in impls:
        gid = [p for n, p in im["items"] if n == "get_or_compute"]
        b = f.body(gid[0]) if gid else None
        if b is None:
            ctx.lost("C12-G2", im["id"] + "::get_or_compute")
            continue
        cfg = CFG(b)
        fl = Flow(b)
        if im["self"]["s"] == "file::NoCache":
            cs = [bi for bi, t in F.calls(b) if last_seg(F.callee_name(t)) in ("call_once", "call", "call_mut")]
            ok = bool(cs) and cfg.all_paths_pass(0, cfg.exits, set(cs))
            ctx.check(ok, "C12-G2", "file::NoCache#computes", "NoCache does not run the computation on every path", b["span"], detail="compute() on every path")
            ret = fl.origins(0)
            ctx.check(any(a[0] == "call" and last_seg(a[1]) in ("call_once", "call") for a in ret), "C12-G2", "file::NoCache#returns",
                      "NoCache does not return the closure's value", b["span"], detail="returns compute()")
        else:
            gets = [(bi, t) for bi, t in F.calls(b) if "SyncCache" in F.callee_name(t) and last_seg(F.callee_name(t)) == "get"]
            ok = len(gets) == 1
            if ok:
                t = gets[0][1]
                k_ok = fl.derives_from_arg(arg_local(t, 1), 2) and not [a for a in fl.origins(arg_local(t, 1)) if a[0] in ("const", "agg")]
                c_ok = fl.derives_from_arg(arg_local(t, 2), 3)
                ok = k_ok and c_ok
            ctx.check(ok, "C12-G2", im["self"]["s"] + "#forwards", "the cache adapter does not forward (key, compute) unchanged", b["span"], detail="self.get(key, compute)")
            # an implementation that keeps entries also drops them when told to (update / save rely on it: C12-PAIR proves they call clear)
            cid = [p_ for n_, p_ in im["items"] if n_ == "clear"]
            cb = f.body(cid[0]) if cid else None
            if cb is None:
                ctx.lost("C12-G2", im["id"] + "::clear")
            else:
                ccfg = CFG(cb)
                cl = [bi for bi, t in F.calls(cb) if last_seg(F.callee_name(t)) in ("clear", "invalidate_all", "retain", "drain") and "SyncCache" in (F.callee_name(t) + str(t.get("self_ty")) + " ".join(a_["s"] for a_ in t.get("arg_tys", [])))]
                ctx.check(bool(cl) and ccfg.all_paths_pass(0, ccfg.exits, set(cl)), "C12-G2", im["self"]["s"] + "#clear-clears", "clear() of the caching implementation does not "
                          "empty the underlying cache on every path: after update / save a typed load keeps returning the object cached before the write", cb["span"],
                          detail="(**self).clear()")


def rule_downcast(ctx, f):
    ctx.rule("C12-G3", "in downcast the raw-pointer cast is dominated by the TypeId equality test, on its true branch")
    n = 0
    for nm in ("any::AnySync::downcast", "any::Any::downcast"):
        b = f.body(nm)
        if b is None:
            ctx.lost("C12-G3", nm)
            continue
        cfg = CFG(b)
        casts = [bi for bi, t in F.calls(b) if last_seg(F.callee_name(t)) in ("from_raw", "into_raw")]
        eqs = [(bi, t) for bi, t in F.calls(b) if last_seg(F.callee_name(t)) in ("eq", "ne") and "TypeId" in (t.get("callee_full", "") + t.get("resolved_full", ""))]
        ok = bool(casts) and len(eqs) == 1
        if ok:
            bi, t = eqs[0]
            sw = b["blocks"][t["target"]]["term"]
            ok = sw["k"] == "switch" and F.op_local(sw["discr"]) == t["dest"][0]
            if ok:
                isne = last_seg(F.callee_name(t)) == "ne"
                true_t = None
                for v, tg in sw["arms"]:
                    if v == (0 if isne else 1):
                        true_t = tg
                if true_t is None:
                    true_t = sw["otherwise"]
                false_ts = {tg for v, tg in sw["arms"] if tg != true_t} | ({sw["otherwise"]} if sw["otherwise"] != true_t else set())
                bad_reg = set()
                for x in false_ts:
                    bad_reg |= cfg.reachable_from(x)
                good_reg = cfg.reachable_from(true_t)
                ok = all(c in good_reg and c not in (bad_reg - good_reg) and cfg.dominates(bi, c) for c in casts) and \
                    not any(c in bad_reg for c in casts if c not in good_reg)
                # the false branch must not reach a cast at all
                ok = ok and not any(c in bad_reg for c in casts)
        n += 1
        ctx.check(ok, "C12-G3", nm, "the pointer cast is not guarded by the TypeId comparison: a cached value of another type would be reinterpreted",
                  b["span"], detail="TypeId::of::<T>() == type_id() dominates Arc/Rc::from_raw")
    ctx.floor("C12-G3", n, 2, "downcast bodies")


def rule_invalidate(ctx, f, prop="C12"):
    """shared with C09-PAIR1"""
    rid = prop + "-PAIR"
    ctx.rule(rid, "every body that replaces a pending value of an existing object (insert/entry on Storage.changes, except create: fresh id) "
             "clears the object cache before returning; save clears it before re-reading the trailer")
    n = 0
    for b in f.bodies.values():
        if b["kind"] == "Closure":
            continue
        ins = []
        drops = []
        for bi, t in F.calls(b):
            nm = F.callee_name(t)
            if last_seg(nm) in ("clear", "drain", "retain", "remove", "remove_entry") and "HashMap" in nm and t["args"]:
                l = arg_local(t, 0)
                flds = set()
                if l is not None:
                    Flow(b).origins(l, fields=flds)
                if "changes" in flds:
                    drops.append((bi, t))
            if last_seg(nm) in ("insert", "entry", "remove", "get_mut") and "HashMap" in nm and t["args"]:
                pl = F.op_place(t["args"][0])
                l = arg_local(t, 0)
                flds = set()
                if l is not None:
                    Flow(b).origins(l, fields=flds)
                if "changes" in flds:
                    ins.append((bi, t))
        if drops:
            # dropping pending values sends later reads back to the file: whatever the caches hold for those objects (the id-keyed stream
            # cache as well) dates from before the write
            fl0 = Flow(b)
            cfg0 = CFG(b)
            sclr = []
            for bi, t in F.calls(b):
                if t.get("callee") == "file::Cache::clear" or (last_seg(F.callee_name(t)) == "clear" and "Cache" in F.callee_name(t)):
                    flds = set()
                    l = arg_local(t, 0)
                    if l is not None:
                        fl0.origins(l, fields=flds)
                    if "stream_cache" in flds:
                        sclr.append(bi)
            okd = bool(sclr) and all(cfg0.all_paths_pass(d[0], cfg0.exits, set(sclr)) for d in drops)
            ctx.check(okd, rid, b["id"] + "#changes-dropped", "pending values are removed from Storage.changes without clearing the stream cache: the objects are read from the "
                      "file again and a stream cached before the update is served with its old bytes", drops[0][1]["span"], detail="changes.clear() needs stream_cache.clear()")
        if not ins:
            continue
        n += 1
        fl = Flow(b)
        cfg = CFG(b)
        clears = []
        for bi, t in F.calls(b):
            if t.get("callee") == "file::Cache::clear" or last_seg(F.callee_name(t)) == "clear" and "Cache" in F.callee_name(t):
                flds = set()
                l = arg_local(t, 0)
                if l is not None:
                    fl.origins(l, fields=flds)
                clears.append((bi, flds))
        # create: the key is the fresh id refs.len() -> exempt
        fresh = True
        for bi, t in ins:
            kl = arg_local(t, 1)
            ats = fl.origins(kl) if kl is not None else []
            if not any(a[0] == "call" and last_seg(a[1]) == "len" for a in ats):
                fresh = False
        key = b["id"]
        if fresh:
            ctx.ok(rid, key + "#fresh-id", "inserts under a freshly allocated id (nothing cached yet)")
            continue
        obj_clear = [c for c in clears if "cache" in c[1]]
        ok = bool(obj_clear) and all(cfg.all_paths_pass(i[0], cfg.exits, {c[0] for c in obj_clear}) for i in ins)
        ctx.check(ok, rid, key + "#changes",
                  "pending change written without invalidating the object cache: a typed get() of the same reference keeps returning the "
                  "value cached before the write, while resolve() already returns the new one", b["span"],
                  detail="cache.clear() after writing Storage.changes")
    ctx.floor(rid, n, 2, "bodies writing Storage.changes (create, update)")
    # save: clears the object cache before Trailer::from_dict
    for b in f.bodies.values():
        if b["id"].endswith("::save") and b.get("impl", {}).get("self", "").startswith("file::Storage"):
            cfg = CFG(b)
            clr = [bi for bi, t in F.calls(b) if t.get("callee") == "file::Cache::clear"]
            rd = [bi for bi, t in F.calls(b) if last_seg(F.callee_name(t)) == "from_dict"]
            ok = bool(clr) and bool(rd) and all(any(cfg.dominates(c, r) for c in clr) for r in rd)
            ctx.check(ok, rid, b["id"] + "#clear-before-reread", "save re-reads the trailer through a cache that was not cleared", b["span"],
                      detail="cache.clear() dominates Trailer::from_dict")


def run(ctx):
    f = F.load("default")
    ctx.count("bodies", len(f.bodies))
    rule_prov(ctx, f)
    rule_consumers(ctx, f)
    rule_adapters(ctx, f)
    rule_downcast(ctx, f)
    rule_invalidate(ctx, f, "C12")
    return ctx.finish(
        "Static analysis of MIR facts of file.rs / stream.rs / types.rs / any.rs: provenance of the arguments of every "
        "get_data_or_decode call (the cache key is the id alone, so filters and range must be functions of the id); arm-wise "
        "inspection of the typed load's use of the cache result; must-call / forwarding of the Cache implementations; dominance "
        "of the TypeId test over the pointer cast; invalidate-on-write pairing. Call-sequence equivalence in general is not decided.",
        ["rustc nightly MIR construction", "mirx exporter", "globalcache::sync::SyncCache::get computes once per key (library contract)"])
