"""C17 — bytes before the header do not change what is read.

Decided: offset units (UNITS) over every Backend::read range bound and every Lexer::with_offset
offset — a file offset (startxref, /Prev, XRef::Raw.pos) never reaches a buffer index without the
header position added, an absolute range is never rebased twice, and a lexer's offset equals the
start of the slice it was given; the header search window / marker (TABLE) and the single
definition of the base.
Not decided: equality of everything read; prefixes that contain the marker.
"""
import facts as F
from cfg import CFG
from flow import Flow, call_sites, arg_local, last_seg
from inline import inlined
from units import Units, range_bounds


def atom_names(fl, local, at=None, cfg=None):
    flds = set()
    out = set()
    if local is None:
        return out
    for a in fl.origins(local, fields=flds, at=at, cfg=cfg):
        if a[0] == "call":
            out.add("call:" + last_seg(a[1]))
        elif a[0] == "arg":
            out.add("arg%d" % a[1])
        elif a[0] == "binop":
            out.add("op:" + a[1].replace("WithOverflow", ""))
        elif a[0] == "const" and "int" in a[1]:
            out.add("const:%d" % a[1]["int"])
    out |= {"field:" + x for x in flds}
    return out


def check_abs(ctx, u, b, fl, cfg, bi, local, op, key, what, span):
    if local is None:
        c = F.const_int(op) if op is not None else None
        in_storage = (b.get("impl") or {}).get("self", "").startswith("file::Storage")
        ctx.check(not (in_storage and c not in (None, 0)), "C17-UNITS", key,
                  "%s is the constant position %s in the file, used without the header position" % (what, c), span,
                  detail="%s is the constant %s" % (what, c))
        return
    tags = u.classify(b, local, at=bi, cfg=cfg, fl=fl)
    bad_rel = "rel" in tags and "base" not in tags
    bad_dbl = "base" in tags and ("abs" in tags or "abs-param" in tags) and "rel" not in tags
    msg = ""
    if bad_rel:
        msg = "%s is a file offset (relative to the %%PDF- header) used as a buffer position without adding the header position: " \
              "a file with bytes before the header is read at the wrong place" % what
    elif bad_dbl:
        msg = "%s is an absolute position to which the header position is added again" % what
    # a bare non-zero constant is a position counted from the header (e.g. the version digits at +1..+8):
    # where the header position is in scope it must be added
    names = atom_names(fl, local, at=bi, cfg=cfg)
    only_const = bool(names) and all(n.startswith("const:") for n in names) and any(n != "const:0" for n in names)
    in_storage = (b.get("impl") or {}).get("self", "").startswith("file::Storage")
    bad_const = only_const and in_storage and not tags
    if bad_const:
        msg = "%s is a constant position in the file used without the header position" % what
    # the header position enters the sum once (units are a set: {rel, base} looks the same however often the base was added)
    if not (bad_rel or bad_dbl or bad_const) and op is not None and op[0] in ("copy", "move"):
        from linear import linear
        lf = linear(fl, op)
        nbase = 0
        for atom, co in (lf[0].items() if lf else []):
            if atom == "field:start_offset" or (isinstance(atom, int) and 1 <= atom <= b["argc"] and u.param_is_base(b, atom)):
                nbase += co
        if nbase > 1:
            bad_dbl = True
            msg = "%s contains the header position %d times (an absolute position to which the header position is added again): files with bytes in front of " \
                  "the header are read at the wrong place" % (what, nbase)
    # one variable, several definitions (seeded C17-9: the loop variable of the /Prev walk is set to `start_offset + /Prev` in front of the loop and to the
    # bare /Prev inside it): the units are a union over definitions, so each definition is looked at on its own as well
    if not (bad_rel or bad_dbl or bad_const):
        for m, d, tg in _per_definition(u, b, fl, cfg, bi, local):
            if "rel" in tg and "base" not in tg:
                bad_rel = True
                msg = "%s is a file offset (relative to the %%PDF- header) without the header position when it comes from the definition of _%d in block %d " \
                      "(another definition of the same variable adds it): a file with bytes before the header is read at the wrong place from the second " \
                      "step on" % (what, m, d[1])
                break
    ctx.check(not (bad_rel or bad_dbl or bad_const), "C17-UNITS", key, msg, span, detail="%s: units %s" % (what, sorted(tags) or ["len/const"]))


def _per_definition(u, b, fl, cfg, bi, local):
    """(variable, definition, units of `local` with that definition alone) for every variable in the backward slice of `local` that has several whole
    definitions; a definition that is computed from the variable itself (`pos = pos + n`) inherits from the others and is skipped"""
    import copy
    from flow import rv_locals, PASS_LAST

    def back(start):
        seen, st = set(), list(start)
        while st:
            x = st.pop()
            if x in seen:
                continue
            seen.add(x)
            for d in fl.defs.get(x, []):
                if d[0] == "call":
                    # only calls that hand their argument on (checked_add, `?`, unwrap ..): what a parser returns for the bytes at a position is not
                    # "computed from" that position
                    if last_seg(F.callee_name(d[2])) in PASS_LAST:
                        st += [a[1][0] for a in d[2]["args"] if a[0] in ("copy", "move")]
                else:
                    st += rv_locals(d[2])
        return seen
    slice_ = back([local])
    for m in sorted(slice_):
        ds = fl.defs.get(m, [])
        if len(ds) < 2 or any(d[3] for d in ds) or 1 <= m <= b["argc"]:
            continue
        for d in ds:
            ops = [a[1][0] for a in d[2]["args"] if a[0] in ("copy", "move")] if d[0] == "call" else rv_locals(d[2])
            if m in back(ops):
                continue
            fl2 = copy.copy(fl)
            fl2.defs = dict(fl.defs)
            fl2.defs[m] = [d]
            yield m, d, u.classify(b, local, at=bi, cfg=cfg, fl=fl2)


def rule_units(ctx, f):
    ctx.rule("C17-UNITS", "every Backend::read bound and every Lexer::with_offset offset is an absolute buffer position: file offsets "
             "(startxref, /Prev, XRef::Raw.pos) only after adding the header position, absolute ranges never rebased; the offset given to a "
             "lexer is the start of the slice it lexes")
    u = Units(f)
    nread = 0
    nwo = 0
    for b in f.bodies.values():
        rs = call_sites(b, lambda nm, t: t.get("callee") == "backend::Backend::read")
        ws = call_sites(b, lambda nm, t: last_seg(nm) == "with_offset" and "Lexer" in nm)
        if not rs and not ws:
            continue
        if b["id"].startswith("<T as backend::Backend>"):
            continue
        fl = Flow(b)
        cfg = CFG(b)
        for k, (bi, t) in enumerate(rs):
            nread += 1
            bounds = range_bounds(b, fl, t["args"][1])
            rty = t["arg_tys"][1]["s"]
            key = "%s#read-%d" % (b["id"], k)
            if not bounds:
                if "RangeFull" in rty:
                    ctx.ok("C17-UNITS", key, "read(..): whole buffer")
                else:
                    l = F.op_local(t["args"][1])
                    check_abs(ctx, u, b, fl, cfg, bi, l, t["args"][1], key, "the range passed to Backend::read", t["span"])
                continue
            for name, l, op in bounds:
                check_abs(ctx, u, b, fl, cfg, bi, l, op, key + "." + name, "the %s of the range passed to Backend::read" % name, t["span"])
            # document-level readers (methods and closures of Storage, which knows the header position) never read from the very start of the
            # buffer: a range without a start, or starting at the constant 0, takes in whatever precedes the header
            owner = b["id"].split("::{closure")[0]
            ob = f.bodies.get(owner, b)
            if (ob.get("impl") or {}).get("self", "").startswith("file::Storage") or owner.startswith("file::Storage"):
                st = [x for x in bounds if x[0] == "start"]
                zero = (not st and "RangeFull" not in rty) or (st and st[0][1] is None and F.const_int(st[0][2]) == 0)
                ctx.check(not zero, "C17-UNITS", key + ".from-header", "a document-level read starts at the beginning of the buffer instead of at the header position: "
                          "bytes in front of `%PDF-` are taken for part of the document", t["span"], detail="range starts at (or after) start_offset")
        for k, (bi, t) in enumerate(ws):
            nwo += 1
            key = "%s#with_offset-%d" % (b["id"], k)
            ol = arg_local(t, 1)
            check_abs(ctx, u, b, fl, cfg, bi, ol, t["args"][1], key + ".offset", "the offset given to Lexer::with_offset", t["span"])
            # buffer <- read(range): offset must be that range's start
            bl = arg_local(t, 0)
            reads = [(b, fl, cfg, a[2], a[3]) for a in fl.origins(bl, at=bi, cfg=cfg) if a[0] == "call" and last_seg(a[1]) == "read"] if bl is not None else []
            if not reads and bl is not None:
                # the slice may be produced inside a closure created here (`.and_then(|end| backend.read(a..end).ok())`)
                for a in fl.origins(bl, at=bi, cfg=cfg):
                    if a[0] == "agg" and a[1]["k"] == "closure":
                        cb = f.body(a[1]["closure"])
                        if cb is not None:
                            cfl, ccfg = Flow(cb), CFG(cb)
                            for rbi, rt in call_sites(cb, lambda nm, t2: t2.get("callee") == "backend::Backend::read"):
                                reads.append((cb, cfl, ccfg, rbi, rt))
            if not reads and bl is not None:
                # ... or by a private helper of this crate (`self.body_slice()`): the reads of that helper
                for a in fl.origins(bl, at=bi, cfg=cfg):
                    hb = f.bodies.get(a[3].get("resolved") or "") if a[0] == "call" and a[3].get("resolved_local") else None
                    if hb is not None and not hb.get("pub") and hb is not b:
                        hfl, hcfg = Flow(hb), CFG(hb)
                        for rbi, rt in call_sites(hb, lambda nm, t2: t2.get("callee") == "backend::Backend::read"):
                            reads.append((hb, hfl, hcfg, rbi, rt))
            if not reads:
                ctx.bad("C17-UNITS", key + ".buffer", "the lexer's buffer does not come from Backend::read", t["span"])
                continue
            for (rb_body, rfl, rcfg, rbi, rt) in reads:
                rb = range_bounds(rb_body, rfl, rt["args"][1])
                start = [x for x in rb if x[0] == "start"]
                off_names = atom_names(fl, ol, at=bi, cfg=cfg) if ol is not None else {"const:%s" % F.const_int(t["args"][1])}
                if start:
                    st_names = atom_names(rfl, start[0][1], at=rbi, cfg=rcfg) if start[0][1] is not None else {"const:%s" % F.const_int(start[0][2])}
                else:
                    st_names = {"const:0"}
                norm = lambda ns: {n for n in ns if not n.startswith("arg") and not (n.startswith("field:") and n[6:].isdigit())}
                off_names, st_names = norm(off_names), norm(st_names)
                ctx.check(off_names == st_names, "C17-UNITS", key + ".matches-slice",
                          "the lexer is told its buffer starts at %s but the slice was read from %s: every position it reports "
                          "(stream ranges, scan results) is shifted" % (sorted(off_names), sorted(st_names)), t["span"],
                          detail="offset == start of the slice (%s)" % sorted(st_names))
    # comparisons: an absolute buffer position is compared with absolute quantities (the buffer's length), a header-relative offset with
    # header-relative ones (length minus the header position) - `abs > len - start_offset` is off by the length of the prefix
    from linear import linear
    ncmp = 0
    for b in f.bodies.values():
        if not ((b.get("impl") or {}).get("self", "").startswith("file::Storage") or b["id"].startswith("file::Storage")) or b["kind"] == "Closure":
            continue
        fl = Flow(b)
        cfg = CFG(b)
        for i, j, st in F.stmts(b):
            if not (st[0] == "assign" and st[2][0] == "binop" and st[2][1] in ("Lt", "Le", "Gt", "Ge")):
                continue
            sides = []
            for o in (st[2][2], st[2][3]):
                l = F.op_local(o)
                lf = linear(fl, o) if o[0] in ("copy", "move") else None
                nb = sum(co for atom, co in (lf[0].items() if lf else []) if atom == "field:start_offset" or (isinstance(atom, int) and 1 <= atom <= b["argc"] and u.param_is_base(b, atom)))
                tags = u.classify(b, l, at=i, cfg=cfg, fl=fl) if l is not None else set()
                sides.append((nb, tags))
            kinds = []
            for nb, tags in sides:
                if nb < 0:
                    kinds.append("relative")          # something minus the header position
                elif nb > 0 or "abs-param" in tags or ("abs" in tags and "rel" not in tags and "base" not in tags):
                    kinds.append("absolute")
                elif "rel" in tags and "base" not in tags:
                    kinds.append("relative")
                else:
                    kinds.append(None)
            if None in kinds:
                continue
            ncmp += 1
            ctx.check(kinds[0] == kinds[1], "C17-UNITS", "%s#compare@%d" % (b["id"], ncmp), "a %s position is compared with a %s quantity: the test is off by the number of bytes in "
                      "front of the header (a valid stream near the end of a prefixed file is refused, or an invalid one accepted)" % (kinds[0], kinds[1]),
                      b["blocks"][i]["term"].get("span", b["span"]), detail="both sides %s" % kinds[0])
    ctx.floor("C17-UNITS", nread, 7, "Backend::read call sites outside the blanket impl")
    ctx.floor("C17-UNITS", nwo, 4, "Lexer::with_offset call sites")
    # Rel sources present (anchors of the 'at least six places')
    nsrc = 0
    for b in f.bodies.values():
        for bi, t in F.calls(b):
            if last_seg(F.callee_name(t)) == "locate_xref_offset" and not b["id"].endswith("locate_xref_offset"):
                nsrc += 1
    ctx.floor("C17-UNITS", nsrc, 2, "uses of startxref (load, scan)")


def rule_seen_units(ctx, f, rid="C17-UNITS"):
    """the list of section offsets already visited on the /Prev walk: what is put into it and what is looked up in it are offsets of the same kind
    (both relative to the header, or both absolute).  Mixed kinds agree only when the header is at byte 0: with bytes in front of it a loop of
    /Prev pointers is never noticed (hang) or a valid chain is reported as a loop.  Shared by C17 (prefix), C01 and C14 (the loop guard)."""
    u = Units(f)
    n = 0
    for b in f.bodies.values():
        reads = call_sites(b, lambda nm, t: last_seg(nm) == "read_xref_and_trailer_at")
        if len(reads) < 2:
            continue
        b = inlined(f, b)
        conts = call_sites(b, lambda nm, t: last_seg(nm) == "contains")
        if not conts:
            continue
        fl = Flow(b)
        cfg = CFG(b)

        def kind(l, at):
            tags = u.classify(b, l, at=at, cfg=cfg, fl=fl) if l is not None else set()
            if "base" in tags or ("abs" in tags and "rel" not in tags):
                return "absolute"
            if "rel" in tags:
                return "relative"
            return None
        for bi, t in conts:
            # the looked-up value
            vl = arg_local(t, 1)
            vsrc = vl
            for d in fl.defs.get(vl, []) if vl is not None else []:
                if d[0] == "assign" and d[2][0] in ("ref", "rawptr") and len(d[2][1]) == 1:
                    vsrc = d[2][1][0]
            kq = kind(vsrc, bi)
            # the collection and everything stored into it
            cl = arg_local(t, 0)
            croots = {a[2] for a in fl.origins(cl, passthrough=("deref", "deref_mut", "as_slice", "as_mut_slice")) if a[0] in ("call", "agg")} if cl is not None else set()
            stored = []
            for pi, pt in F.calls(b):
                if last_seg(F.callee_name(pt)) in ("push", "insert", "push_back") and len(pt["args"]) >= 2:
                    pl0 = arg_local(pt, 0)
                    proots = {a[2] for a in fl.origins(pl0, passthrough=("deref", "deref_mut", "as_slice", "as_mut_slice")) if a[0] in ("call", "agg")} if pl0 is not None else set()
                    if proots & croots:
                        stored.append((pi, arg_local(pt, 1), pt["span"]))
            # initial elements: `vec![x]` = a boxed array literal / from_elem in the provenance of the collection
            for a in fl.origins(cl, passthrough=("deref", "deref_mut", "as_slice", "as_mut_slice", "into_vec", "box_assume_init_into_vec_unsafe", "from_elem")) if cl is not None else []:
                if a[0] == "agg" and a[1].get("k") == "array":
                    for o in a[3][2]:
                        if F.op_local(o) is not None:
                            stored.append((a[2], F.op_local(o), b["blocks"][a[2]]["term"].get("span", b["span"])))
            for i2, j2, st in F.stmts(b):
                # the array literal is written through the box: `(*_box) = [x]`
                if st[0] == "assign" and st[2][0] == "aggregate" and st[2][1].get("k") == "array" and st[2][1].get("elem") == "usize":
                    for o in st[2][2]:
                        if F.op_local(o) is not None and (i2, F.op_local(o)) not in [(x[0], x[1]) for x in stored]:
                            stored.append((i2, F.op_local(o), b["blocks"][i2]["term"].get("span", b["span"])))
            n += 1
            kinds = {kind(l, at) for at, l, sp in stored}
            ok = kq is not None and kinds <= {kq} and bool(stored)
            ctx.check(ok, rid, b["id"] + "#visited-offsets", "the list of visited section offsets holds %s offsets but is asked for a %s one: the two agree only for a file whose "
                      "header is at byte 0 - with bytes in front, a /Prev loop is not noticed (the walk never ends) or a valid chain is taken for a loop"
                      % (sorted(str(k) for k in kinds), kq), t["span"], detail="stored and looked-up offsets are both %s" % kq)
    ctx.floor(rid, n, 1, "look-ups in the list of visited section offsets")


def rule_table(ctx, f):
    ctx.rule("C17-TABLE", "the header is searched in the first 1024 bytes for the marker %PDF-; the first match defines the base, which is the "
             "only definition of Storage.start_offset on load")
    b = f.body("backend::Backend::locate_start_offset")
    if b is None:
        ctx.lost("C17-TABLE", "backend::Backend::locate_start_offset")
        return
    mins = [t for bi, t in F.calls(b) if last_seg(F.callee_name(t)) == "min"]
    win = [F.const_int(a) for t in mins for a in t["args"] if F.const_int(a) is not None]
    ctx.check(win == [1024], "C17-TABLE", "locate_start_offset#window", "search window is %s bytes (Acrobat / the property: 1024)" % win, b["span"], detail="min(1024, len)")
    marker = set()
    for bb in [b] + f.closures_of(b["id"]):
        for i, j, s in F.stmts(bb):
            if s[0] == "assign":
                for o in (s[2][1:] if s[2][0] in ("use",) else []):
                    if isinstance(o, list) and F.const_bytes(o) is not None:
                        marker.add(F.const_bytes(o))
        for bi, t in F.calls(bb):
            for a in t["args"]:
                if F.const_bytes(a) is not None:
                    marker.add(F.const_bytes(a))
                c = F.op_const(a)
                if c is not None and c.get("uneval"):
                    marker.add("uneval:" + c["uneval"])
    ok_marker = "%PDF-" in marker or any("HEADER" in m for m in marker)
    ctx.check(ok_marker, "C17-TABLE", "locate_start_offset#marker", "header marker constants found: %s" % sorted(marker), b["span"], detail="marker %PDF-")
    pos = [t for bi, t in F.calls(b) if last_seg(F.callee_name(t)) == "position"]
    rpos = [t for bi, t in F.calls(b) if last_seg(F.callee_name(t)) in ("rposition", "last", "max")]
    ctx.check(bool(pos) and not rpos, "C17-TABLE", "locate_start_offset#first", "the base is not the first occurrence of the marker", b["span"], detail="Iterator::position (first match)")
    # single definition of start_offset on load
    defs = []
    for bb in f.bodies.values():
        for i, j, s in F.stmts(bb):
            if s[0] == "assign" and s[2][0] == "aggregate" and s[2][1].get("adt") == "file::Storage":
                names = s[2][1]["fields"]
                op = s[2][2][names.index("start_offset")]
                l = F.op_local(op)
                if l is None:
                    defs.append((bb["id"], "const:%s" % F.const_int(op)))
                else:
                    ats = Flow(bb).origins(l)
                    defs.append((bb["id"], sorted({last_seg(a[1]) for a in ats if a[0] == "call" and last_seg(a[1]) not in ("branch", "from_residual")})))
        for i, j, s in F.stmts(bb):
            if s[0] == "assign" and any(e[0] == "field" and e[2] == "start_offset" for e in s[1][1:]):
                defs.append((bb["id"], "assignment"))
    ok = all((d[1] == ["locate_start_offset"]) or d[1] == "const:0" for d in defs) and any(d[1] == ["locate_start_offset"] for d in defs)
    ctx.check(ok, "C17-TABLE", "file::Storage#start_offset", "Storage.start_offset is defined by %s" % defs, detail="with_cache: locate_start_offset(); empty: 0; never reassigned")


def run(ctx):
    f = F.load("default")
    ctx.count("bodies", len(f.bodies))
    rule_units(ctx, f)
    rule_seen_units(ctx, f)
    rule_table(ctx, f)
    return ctx.finish(
        "Static analysis of MIR facts of backend.rs / file.rs: a units abstraction {Rel, Base, Abs} over usize values derived from their "
        "provenance (reaching definitions), with obligations at the sinks Backend::read and Lexer::with_offset, plus agreement between "
        "the offset handed to a lexer and the start of the slice it lexes; constants of the header search. Equality of everything read "
        "for prefixed and unprefixed files is value-level and not decided.",
        ["rustc nightly MIR construction", "mirx exporter", "unit seeds: startxref, /Prev, XRef::Raw.pos are Rel; start_offset is the base; len() and file ranges are Abs"])
