"""C15 — typed objects round-trip through their dictionary form without losing entries.

Decided (on the EXPANDED impls, so a slip in pdf_derive shows in every model):
  KEYS    for every ADT with derived reader and writer: keys read = keys written; every (key,
          value) the reader checks with Dictionary::expect is inserted by the writer with that
          value; the reader keeps the residual dictionary in a field iff the writer starts from a
          clone of that field
  ENUM    derived name / integer enums: the reader's table is the inverse of the writer's
  KEYS-H  hand-written pairs: keys written are keys the reader knows; (key, value) tags the reader
          requires are written; OTHER: a field the reader fills with the residual dictionary is
          read by the writer
  ABSENT  Option / empty HashMap write Null, which derived writers skip (reader side: C18)
Not decided: value equality of field contents, container element round trips.
"""
import facts as F
from cfg import CFG, ccp_reachable
from flow import Flow, call_sites, arg_local, last_seg, PASS_LAST
from tables import str_arms, exclusive_regions, enum_switches, region_aggregates
from sym import PathSym, enum_paths, feasible
import re

DICT = "primitive::Dictionary::"


def const_of(fl, t, k):
    """string constant passed as k-th argument (directly or through a temp)"""
    a = t["args"][k]
    c = F.const_str(a)
    if c is not None:
        return c
    l = F.op_local(a)
    if l is None:
        return None
    cs = [x[1]["str"] for x in fl.origins(l, passthrough=("into", "from", "as_str", "deref")) if x[0] == "const" and "str" in x[1]]
    return cs[0] if len(cs) == 1 else None


def reader_keys(f, b):
    """keys a reader body (and its closures) looks up: {key: kind}, and expect() tags {(key, value, required)}"""
    keys, tags = {}, set()
    for bb in [b] + f.closures_of(b["id"]):
        fl = Flow(bb)
        for bi, t in F.calls(bb):
            n = F.callee_name(t)
            if not n.startswith(DICT):
                continue
            m = last_seg(n)
            if m in ("remove", "get"):
                k = const_of(fl, t, 1)
                if k is not None:
                    keys[k] = m
                elif bb["kind"] == "Closure" and F.op_local(t["args"][1]) is not None:
                    # a local closure that is handed the key (`take_or_null("Filter")`): the keys are the constants at its call sites
                    ps_ = sorted({a[1] for a in fl.origins(F.op_local(t["args"][1]), passthrough=("into", "from", "as_str", "deref")) if a[0] == "arg" and a[1] >= 2})
                    for pb in [b] + f.closures_of(b["id"]):
                        pfl = Flow(pb)
                        for ci, ct in F.calls(pb):
                            if (ct.get("resolved") or "") != bb["id"] or len(ct["args"]) < 2:
                                continue
                            tl = F.op_local(ct["args"][1])
                            for d in pfl.defs.get(tl, []) if tl is not None else []:
                                if d[0] == "assign" and d[2][0] == "aggregate" and d[2][1].get("k") == "tuple":
                                    for p_ in ps_:
                                        if p_ - 2 < len(d[2][2]):
                                            o_ = d[2][2][p_ - 2]
                                            c_ = F.const_str(o_)
                                            if c_ is None and F.op_local(o_) is not None:
                                                cs_ = [x[1]["str"] for x in pfl.origins(F.op_local(o_), passthrough=("into", "from", "as_str", "deref")) if x[0] == "const" and "str" in x[1]]
                                                c_ = cs_[0] if len(cs_) == 1 else None
                                            if c_ is not None:
                                                keys[c_] = m
            elif m == "require":
                k = const_of(fl, t, 2)
                if k is not None:
                    keys[k] = "require"
            elif m == "expect":
                k, v = const_of(fl, t, 2), const_of(fl, t, 3)
                req = F.op_const(t["args"][4]).get("bool") if F.op_const(t["args"][4]) else None
                if k is not None:
                    keys.setdefault(k, "expect")
                    tags.add((k, v, req))
    return keys, tags


def delegated_reader_keys(f, b, derived_readers):
    """keys read by the derived readers of the model types a hand-written reader delegates to
    (e.g. FormXObject -> Stream<FormDict>): found through the generic arguments of its calls"""
    keys, tags = {}, set()
    for bb in [b] + f.closures_of(b["id"]):
        for bi, t in F.calls(bb):
            text = " ".join(t.get("targs", [])) + " " + t.get("callee_full", "")
            for adt, rb in derived_readers.items():
                if re.search(r"(?<![\w:])%s(?![\w:])" % re.escape(adt), text):
                    k2, t2 = reader_keys(f, rb)
                    keys.update(k2)
                    tags |= t2
    return keys, tags


def writer_keys(f, b):
    """keys a writer body inserts: {key: set(constant name values inserted)}"""
    keys = {}
    for bb in [b] + f.closures_of(b["id"]):
        fl = Flow(bb)
        for bi, t in F.calls(bb):
            n = F.callee_name(t)
            if n.startswith(DICT) and last_seg(n) == "insert":
                k = const_of(fl, t, 1)
                if k is None:
                    keys.setdefault("<non-constant>", set())
                    continue
                vals = set()
                l = arg_local(t, 2)
                if l is not None:
                    for x in fl.origins(l, passthrough=("into", "from", "to_primitive", "name")):
                        if x[0] == "const" and "str" in x[1]:
                            vals.add(x[1]["str"])
                keys.setdefault(k, set()).update(vals)
    return keys


def derived(b, which):
    return ("derive(%s)" % which) in (b.get("mac") or [])


def rule_keys(ctx, f):
    ctx.rule("C15-KEYS", "for each model with derived reader and writer: keys read = keys written; (key, value) tags checked by the reader are written "
             "with that value; the residual dictionary is kept by the reader iff the writer starts from it")
    readers, writers = {}, {}
    for b in f.bodies.values():
        im = b.get("impl") or {}
        if im.get("trait") == "object::FromDict" and b["id"].endswith("::from_dict") and derived(b, "Object"):
            readers[im["self"]] = b
        if im.get("trait") == "object::ToDict" and b["id"].endswith("::to_dict") and derived(b, "ObjectWrite"):
            writers[im["self"]] = b
    pairs = sorted(set(readers) & set(writers))
    ctx.count("derived readers", len(readers))
    ctx.count("derived writers", len(writers))
    ctx.floor("C15-KEYS", len(pairs), 41, "models with derived reader and writer")
    for name in pairs:
        rb, wb = readers[name], writers[name]
        rk, tags = reader_keys(f, rb)
        wk = writer_keys(f, wb)
        tag_keys = {k for k, v, r in tags}
        read_fields = {k for k, m in rk.items() if m == "remove"}
        ok = set(wk) == read_fields | tag_keys
        ctx.check(ok, "C15-KEYS", name + "#keys",
                  "keys read %s and keys written %s differ (only read: %s, only written: %s)" %
                  (sorted(read_fields | tag_keys), sorted(wk), sorted((read_fields | tag_keys) - set(wk)), sorted(set(wk) - read_fields - tag_keys)),
                  rb["span"], detail="%d keys agree" % len(wk))
        for k, v, req in sorted(tags, key=lambda x: str(x)):
            okv = wk.get(k) == {v}
            ctx.check(okv, "C15-KEYS", name + "#tag-" + k, "the reader checks /%s = %s but the writer inserts %s" % (k, v, sorted(wk.get(k, []))), wb["span"],
                      detail="/%s /%s written and checked" % (k, v))
        # catch-all: reader moves the residual dict (its parameter) into a field <=> writer starts from clone of that field
        r_other = None
        flr = Flow(rb)
        for i, j, s in F.stmts(rb):
            if s[0] == "assign" and s[2][0] == "aggregate" and s[2][1].get("adt") == (rb["impl"].get("self_adt")):
                for fname, op in zip(s[2][1]["fields"], s[2][2]):
                    l = F.op_local(op)
                    if l is not None and rb["locals"][l]["s"] == "primitive::Dictionary" and any(a[0] == "arg" and a[1] == 1 for a in flr.origins(l, passthrough=())):
                        r_other = fname
        w_other = None
        flw = Flow(wb)
        for bi, t in F.calls(wb):
            if F.callee_name(t).endswith("Dictionary as std::clone::Clone>::clone") or (last_seg(F.callee_name(t)) == "clone" and "Dictionary" in t.get("callee_full", "")):
                fs = set()
                flw.origins(arg_local(t, 0), fields=fs)
                # the clone that becomes the returned dict
                if any(a[0] == "call" and a[2] == bi for a in flw.origins(0)):
                    w_other = sorted(x for x in fs if not x.startswith("as:") and not x.isdigit())
                    w_other = w_other[0] if w_other else "?"
        news = [bi for bi, t in F.calls(wb) if F.callee_name(t) == DICT + "new"]
        ok = (r_other is None and w_other is None and bool(news)) or (r_other is not None and r_other == w_other)
        ctx.check(ok, "C15-KEYS", name + "#catch-all",
                  "the reader keeps unrecognised entries in %r but the writer starts from %r: entries the model does not know are %s" %
                  (r_other, w_other or "an empty dictionary", "lost" if r_other else "duplicated"), wb["span"],
                  detail="catch-all field %s on both sides" % r_other if r_other else "no catch-all on either side")


def rule_enums(ctx, f):
    ctx.rule("C15-ENUM", "for each derived name / integer enum the reader's table (name or number -> variant) is the inverse of the writer's")
    readers, writers = {}, {}
    for b in f.bodies.values():
        im = b.get("impl") or {}
        adt = f.adts.get(im.get("self_adt") or "")
        if not adt or adt["kind"] != "Enum":
            continue
        if im.get("trait") == "object::Object" and b["id"].endswith("::from_primitive") and derived(b, "Object"):
            readers[im["self_adt"]] = b
        # the writer may be hand-written (stream enums such as XObject: /Subtype selects the variant)
        if im.get("trait") == "object::ObjectWrite" and b["id"].endswith("::to_primitive") and b["kind"] != "Closure":
            writers[im["self_adt"]] = b
    pairs = sorted(set(readers) & set(writers))
    ctx.floor("C15-ENUM", len(pairs), 12, "enums with derived reader and a writer")
    for name in pairs:
        rb, wb = readers[name], writers[name]
        adt = f.adts[name]
        vnames = {v["vi"]: v["name"] for v in adt["variants"]}
        cfg = CFG(rb)
        rtab = {}
        arms = str_arms(rb)
        if arms:
            regs = exclusive_regions(cfg, {a["const"]: a["true_bb"] for a in arms})
            for a in arms:
                vs = {s[2][1]["variant"] for r, s in region_aggregates(rb, regs[a["const"]] | {a["true_bb"]}, name)}
                rtab[a["const"]] = sorted(vs)
        else:
            # integer enum: switch on the i32 payload
            for i, bb in enumerate(rb["blocks"]):
                t = bb["term"]
                if t["k"] == "switch" and t["discr_ty"] == "i32":
                    regs = exclusive_regions(cfg, dict({str(v): tg for v, tg in t["arms"]}, **{"_": t["otherwise"]}))
                    for v, tg in t["arms"]:
                        vs = {s[2][1]["variant"] for r, s in region_aggregates(rb, regs[str(v)] | {tg}, name)}
                        rtab[str(v)] = sorted(vs)
        # writer: switch on the discriminant of *self -> constant
        wtab = {}
        wcfg = CFG(wb)
        for i, bb in enumerate(wb["blocks"]):
            t = bb["term"]
            if t["k"] != "switch":
                continue
            dl = F.op_local(t["discr"])
            from tables import place_adt
            if not any(s[0] == "assign" and s[1] == [dl] and s[2][0] == "discr" and place_adt(wb, s[2][1], f) == name for s in bb["stmts"]):
                continue
            ents = {vnames[v]: tg for v, tg in t["arms"] if v in vnames}
            missing = [n for n in vnames.values() if n not in ents]
            if len(missing) == 1:
                ents[missing[0]] = t["otherwise"]
            regs = exclusive_regions(wcfg, ents)
            for vn, tg in ents.items():
                consts = set()
                for r in regs[vn] | {tg}:
                    for s in wb["blocks"][r]["stmts"]:
                        if s[0] == "assign":
                            rv = s[2]
                            ops = [rv[1]] if rv[0] == "use" else (rv[2] if rv[0] == "aggregate" else [])
                            for o in ops:
                                if F.const_str(o) is not None:
                                    consts.add(F.const_str(o))
                                if F.const_int(o) is not None and rv[0] == "aggregate" and rv[1].get("variant") == "Integer":
                                    consts.add(str(F.const_int(o)))
                wtab[vn] = sorted(consts)
        inv = {}
        for k, vs in rtab.items():
            for v in vs:
                inv.setdefault(v, []).append(k)
        ok = bool(rtab) and bool(wtab)
        bad = []
        for vn, consts in wtab.items():
            if not consts:
                continue      # catch-all variant carrying its own text
            if sorted(inv.get(vn, [])) != consts:
                ok = False
                bad.append("%s written as %s, read from %s" % (vn, consts, inv.get(vn)))
        for k, vs in rtab.items():
            if len(vs) != 1:
                ok = False
                bad.append("%r read as %s" % (k, vs))
        ctx.check(ok, "C15-ENUM", name, "reader and writer tables are not inverse: %s" % "; ".join(bad), rb["span"], detail="%d spellings" % len(rtab))


HAND = None


def rule_hand(ctx, f):
    ctx.rule("C15-KEYS-H", "hand-written reader/writer pairs: every key the writer inserts is one the reader looks up (or the reader keeps the residual "
             "dictionary); every (key, value) tag or required key the reader demands is written on every path that builds a dictionary")
    ctx.rule("C15-OTHER", "a field the reader fills with the residual dictionary is read by the writer")
    readers, writers = {}, {}
    for b in f.bodies.values():
        im = b.get("impl") or {}
        if b["kind"] == "Closure":
            continue
        if im.get("trait") == "object::Object" and b["id"].endswith("::from_primitive") and not derived(b, "Object") and not (b.get("mac")):
            readers[im["self"]] = b
        if im.get("trait") == "object::ObjectWrite" and b["id"].endswith("::to_primitive") and not derived(b, "ObjectWrite") and not (b.get("mac")):
            writers[im["self"]] = b
    pairs = sorted(set(readers) & set(writers))
    dreaders = {}
    for b in f.bodies.values():
        im = b.get("impl") or {}
        if im.get("trait") == "object::FromDict" and b["id"].endswith("::from_dict") and derived(b, "Object"):
            dreaders[im["self_adt"]] = b
    n = 0
    for name in pairs:
        rb, wb = readers[name], writers[name]
        rk, tags = reader_keys(f, rb)
        dk, dt = delegated_reader_keys(f, rb, dreaders)
        for k, v in dk.items():
            rk.setdefault(k, "delegated")
        wk = writer_keys(f, wb)
        if not rk and not wk:
            # the keys may sit in private helpers both sides call (Stream<I>: StreamInfo::from_primitive / Stream::to_pdf_stream)
            def through(body, fn, depth=0, seen=None):
                seen = seen if seen is not None else set()
                out = {}
                for bb2 in [body] + f.closures_of(body["id"]):
                    for bi2, t2 in F.calls(bb2):
                        cal = f.bodies.get(t2.get("resolved") or "")
                        if cal is None or not t2.get("resolved_local") or cal["id"] in seen or depth > 2:
                            continue
                        if cal["_file"] != body["_file"]:
                            continue
                        seen.add(cal["id"])
                        got = fn(cal)
                        out.update(got)
                        out.update(through(cal, fn, depth + 1, seen))
                return out
            rk = through(rb, lambda bb3: reader_keys(f, bb3)[0])
            wk = through(wb, lambda bb3: writer_keys(f, bb3))
            if not rk or not wk:
                continue
            unknown = sorted(k for k in wk if k not in rk and k != "<non-constant>")
            n += 1
            ctx.check(not unknown, "C15-KEYS-H", name + "#written-known(helpers)", "the writer's helpers insert %s, which the reader's helpers never look up (they read %s)"
                      % (unknown, sorted(rk)), wb["span"], detail="helper-written keys %s all known to the reader's helpers" % sorted(wk))
            continue
        n += 1
        # a writer that builds a dictionary writes back every key the reader takes out of it (an optional entry the reader stores in a typed
        # field and the writer forgets is lost on a read-write cycle)
        if wk and rk:
            forgotten = sorted(k for k, how in rk.items() if k not in wk and how != "delegated" and "<non-constant>" not in wk)
            ctx.check(not forgotten, "C15-KEYS-H", name + "#read-written", "the reader looks up %s, the writer (which writes %s) never inserts them: these entries are lost when "
                      "a value is read and written back" % (forgotten, sorted(wk)), wb["span"], detail="every key read is written")
        # residual kept?
        keeps_rest = False
        adt = rb["impl"].get("self_adt")
        for i, j, s in F.stmts(rb):
            if s[0] == "assign" and s[2][0] == "aggregate" and s[2][1].get("adt") == adt:
                for fname, op in zip(s[2][1].get("fields", []), s[2][2]):
                    l = F.op_local(op)
                    if l is not None and rb["locals"][l]["s"] == "primitive::Dictionary":
                        keeps_rest = keeps_rest or fname
        unknown = sorted(k for k in wk if k not in rk and k != "<non-constant>")
        ctx.check(not unknown or keeps_rest, "C15-KEYS-H", name + "#written-known",
                  "the writer inserts %s, which the reader never looks up" % unknown, wb["span"], detail="written keys %s all known to the reader" % sorted(wk))
        # tags and required keys the reader demands; `get(key)` followed by try_opt! is a requirement too
        cfg = CFG(wb)
        need = {(k, v) for k, v, req in tags if req}
        reqk = {k for k, m in rk.items() if m == "require"}
        # keys fetched with get() whose absence is an error (NoneError / MissingEntry on the None arm)
        flr = Flow(rb)
        rcfg = CFG(rb)
        for bi, t in F.calls(rb):
            if F.callee_name(t) == DICT + "get":
                k = const_of(flr, t, 1)
                sw = rb["blocks"][t["target"]]["term"] if t.get("target") is not None else None
                if k and sw and sw["k"] == "switch":
                    none_t = [a[1] for a in sw["arms"] if a[0] == 0] or [sw["otherwise"]]
                    some_t = [a[1] for a in sw["arms"] if a[0] == 1] or [sw["otherwise"]]
                    reg = rcfg.reachable_from(none_t[0]) - rcfg.reachable_from(some_t[0])
                    errs = [s for r in reg | {none_t[0]} for s in rb["blocks"][r]["stmts"] if s[0] == "assign" and s[2][0] == "aggregate" and s[2][1].get("adt") == "error::PdfError"]
                    if errs and none_t[0] != some_t[0]:
                        reqk.add(k)
        builds = [bi for bi, t in F.calls(wb) if F.callee_name(t) == DICT + "new"]
        for k in sorted(reqk | {k for k, v in need}):
            if not builds:
                continue
            # on every path from a Dictionary::new to the return, an insert of k happens (or the variant that starts from a stored dict)
            flw = Flow(wb)
            ins = [bi for bi, t in F.calls(wb) if F.callee_name(t).startswith(DICT + "insert") and const_of(flw, t, 1) == k]
            ok = bool(ins) and all(cfg.all_paths_pass(bb, cfg.exits, set(ins)) for bb in builds)
            ctx.check(ok, "C15-KEYS-H", name + "#required-" + k,
                      "the reader requires /%s but the writer builds a dictionary without it: the written form cannot be read back" % k, wb["span"],
                      detail="/%s written whenever a dictionary is built" % k)
        # DEFAULT: a key the writer leaves out when a field equals some constant variant must be read back, when absent, as that very variant
        flw3 = Flow(wb)
        for bi, t in F.calls(wb):
            if not F.callee_name(t).startswith(DICT + "insert"):
                continue
            k = const_of(flw3, t, 1)
            if k is None:
                continue
            for ci, ct in F.calls(wb):
                if last_seg(F.callee_name(ct)) not in ("eq", "ne") or ct.get("target") is None or not cfg.dominates(ci, bi):
                    continue
                sw = wb["blocks"][ct["target"]]["term"]
                if sw["k"] != "switch" or F.op_local(sw["discr"]) != ct["dest"][0]:
                    continue
                # the constant operand of the comparison
                vw = None
                for a0 in ct["args"]:
                    l0 = F.op_local(a0)
                    for d0 in (flw3.defs.get(l0, []) if l0 is not None else []):
                        if d0[0] == "assign" and d0[2][0] == "ref":
                            for d1 in flw3.defs.get(d0[2][1][0], []):
                                if d1[0] == "assign" and d1[2][0] == "use" and d1[2][1][0] == "const" and d1[2][1][1].get("variant"):
                                    vw = (d1[2][1][1]["ty"].lstrip("&"), d1[2][1][1]["variant"])
                if vw is None:
                    continue
                arms = {a[0]: a[1] for a in sw["arms"]}
                true_t = arms.get(1, sw["otherwise"])
                false_t = arms.get(0, sw["otherwise"])
                in_true = bi == true_t or bi in cfg.reachable_from(true_t, avoid={ct["target"]})
                in_false = bi == false_t or bi in cfg.reachable_from(false_t, avoid={ct["target"]})
                if in_true == in_false:
                    continue
                isne = last_seg(F.callee_name(ct)) == "ne"
                omitted_when_equal = (isne and in_true) or (not isne and in_false)
                if not omitted_when_equal:
                    continue
                # the reader's value for an absent key: the aggregate of that enum built on the None arm of remove(k) / get(k)
                vr = set()
                for rbi, rt in F.calls(rb):
                    if F.callee_name(rt) in (DICT + "remove", DICT + "get") and const_of(flr, rt, 1) == k and rt.get("target") is not None:
                        rsw = rb["blocks"][rt["target"]]["term"]
                        if rsw["k"] != "switch":
                            continue
                        none_t = [a[1] for a in rsw["arms"] if a[0] == 0] or [rsw["otherwise"]]
                        some_t = [a[1] for a in rsw["arms"] if a[0] == 1] or [rsw["otherwise"]]
                        reg = (rcfg.reachable_from(none_t[0]) - rcfg.reachable_from(some_t[0])) | {none_t[0]}
                        for r in reg:
                            for st in rb["blocks"][r]["stmts"]:
                                if st[0] == "assign" and st[2][0] == "aggregate" and st[2][1].get("adt") == vw[0]:
                                    vr.add(st[2][1].get("variant"))
                ctx.check(vr == {vw[1]}, "C15-KEYS-H", "%s#default-%s" % (name, k), "the writer leaves /%s out when the field is %s::%s, but the reader reads an absent /%s as %s: "
                          "the value changes on a write-read cycle" % (k, vw[0].split("::")[-1], vw[1], k, sorted(vr) or "something else"), t["span"],
                          detail="omitted exactly when the field has the reader's default for an absent key")
        # OTHER
        if keeps_rest:
            used = False
            flw = Flow(wb)
            for i, j, s in F.stmts(wb):
                if s[0] == "assign":
                    rv = s[2]
                    pl = rv[1] if rv[0] in ("ref",) else (F.op_place(rv[1]) if rv[0] == "use" else None)
                    if pl and any(e[0] == "field" and e[2] == keeps_rest for e in pl[1:]):
                        used = True
            ctx.check(used, "C15-OTHER", name + "#" + keeps_rest,
                      "the reader stores the residual dictionary in `%s` but the writer never reads that field: entries the model does not know "
                      "(and any key it does not re-create) are lost on a read-write cycle" % keeps_rest, wb["span"], detail="`%s` written back" % keeps_rest)
        # RESID: keys taken out of the dictionary before it is stored as the residual must be put back by the writer
        rcfg2 = CFG(rb)
        flr2 = Flow(rb)
        removes = []
        for bi, t in F.calls(rb):
            if F.callee_name(t) == DICT + "remove":
                k = const_of(flr2, t, 1)
                if k:
                    removes.append((bi, k))
        for i, j, s in F.stmts(rb):
            if not (s[0] == "assign" and s[2][0] == "aggregate" and s[2][1].get("adt") == adt):
                continue
            has_dict = any(F.op_local(op) is not None and rb["locals"][F.op_local(op)]["s"] == "primitive::Dictionary" for op in s[2][2])
            if not has_dict:
                continue
            variant = s[2][1].get("variant")
            lost = sorted({k for bi, k in removes if i == bi or i in rcfg2.reachable_from(bi)})
            if not lost:
                continue
            # keys the writer inserts: in the arm of this variant if the writer switches on it, else anywhere
            wins = writer_keys(f, wb)
            region_keys = None
            from tables import enum_switches, arm_regions
            sws = enum_switches(wb, adt, f)
            if sws and variant is not None:
                vidx = [vi for vi, v in enumerate(f.adts[adt]["variants"]) if v["name"] == variant]
                wcfg = CFG(wb)
                for (sb, pl, arms, other) in sws:
                    ents = {vi2: arms.get(vi2, other) for vi2 in range(len(f.adts[adt]["variants"]))}
                    regs = arm_regions(wcfg, ents)
                    if vidx and vidx[0] in regs:
                        flw2 = Flow(wb)
                        region_keys = {const_of(flw2, t, 1) for r in regs[vidx[0]] for t in [wb["blocks"][r]["term"]] if t["k"] == "call" and F.callee_name(t).startswith(DICT + "insert")}
            have = region_keys if region_keys is not None else set(wins)
            missing = [k for k in lost if k not in have]
            ctx.check(not missing, "C15-OTHER", "%s#residual-%s" % (name, variant or "struct"),
                      "the reader removes %s from the dictionary before storing it as the residual of %s, and the writer does not insert %s again: "
                      "a value read and written back loses these entries" % (lost, variant or adt.split("::")[-1], missing), rb["span"],
                      detail="removed %s, all re-inserted" % lost)
    ctx.floor("C15-KEYS-H", n, 4, "hand-written dictionary reader/writer pairs")


def rule_variants(ctx, f):
    """hand-written enum writers: every variant the reader can produce has a writer arm that does not end in the
    crate's `unimplemented!()` error"""
    ctx.rule("C15-VARIANTS", "hand-written enum reader/writer pairs: every variant the reader constructs has a writer arm that builds a value "
             "(it does not end in the crate's unimplemented!() error)")
    from tables import enum_switches, arm_regions, transitive_callees
    readers, writers = {}, {}
    for b in f.bodies.values():
        im = b.get("impl") or {}
        if b["kind"] == "Closure" or b.get("mac"):
            continue
        if im.get("trait") == "object::Object" and b["id"].endswith("::from_primitive"):
            readers[im.get("self_adt")] = b
        if im.get("trait") == "object::ObjectWrite" and b["id"].endswith("::to_primitive"):
            writers[im.get("self_adt")] = b
    n = 0
    for adt in sorted(x for x in (set(readers) & set(writers)) if x):
        if adt not in f.adts or len(f.adts[adt]["variants"]) < 2:
            continue
        rb, wb = readers[adt], writers[adt]
        sws = enum_switches(wb, adt, f)
        if not sws:
            continue
        # variants the reader (and the helpers it calls in the same impl / module) constructs
        built = set()
        seen = set()
        st = [rb]
        while st:
            b = st.pop()
            if b["id"] in seen:
                continue
            seen.add(b["id"])
            for bb in f.with_closures(b["id"]):
                for i, j, s_ in F.stmts(bb):
                    if s_[0] == "assign" and s_[2][0] == "aggregate" and s_[2][1].get("adt") == adt:
                        built.add(s_[2][1].get("variant"))
                for bi, t in F.calls(bb):
                    r = t.get("resolved")
                    if r and t.get("resolved_local") and r in f.bodies and (f.bodies[r].get("impl") or {}).get("self_adt") == adt and len(seen) < 12:
                        st.append(f.bodies[r])
        wcfg = CFG(wb)
        sb, pl, arms, other = sws[0]
        names = [v["name"] for v in f.adts[adt]["variants"]]
        ents = {vi: arms.get(vi, other) for vi in range(len(names))}
        regs = arm_regions(wcfg, ents)
        n += 1
        for vi, vn in enumerate(names):
            if vn not in built:
                continue
            unimpl = False
            for r in regs.get(vi, ()):
                t = wb["blocks"][r]["term"]
                if t["k"] == "call":
                    for a in t["args"]:
                        c = F.const_str(a)
                        if c and c.startswith("Unimplemented @"):
                            unimpl = True
            ctx.check(not unimpl, "C15-VARIANTS", "%s#%s" % (adt, vn),
                      "the reader produces %s::%s but the writer answers it with the unimplemented!() error: such a value cannot be written back" % (adt.split("::")[-1], vn),
                      wb["span"], detail="%s written" % vn)
    ctx.floor("C15-VARIANTS", n, 2, "hand-written enum reader/writer pairs with a variant switch in the writer")


def rule_positional(ctx, f):
    """hand-written pairs that store a struct as an array (Rectangle): element i written = the field the reader fills from element i"""
    ctx.rule("C15-POS", "hand-written array-shaped pairs: the writer's i-th element is, unmodified, the field the reader fills from the i-th element")
    n = 0
    for b in f.bodies.values():
        im = b.get("impl") or {}
        if im.get("trait") != "object::ObjectWrite" or not b["id"].endswith("::to_primitive") or b.get("mac") or b["kind"] == "Closure":
            continue
        adt = im.get("self_adt")
        if not adt or adt not in f.adts or f.adts[adt].get("kind") == "Enum":
            continue
        rb = f.body("<%s as object::Object>::from_primitive" % im["self"])
        if rb is None or rb.get("mac"):
            continue
        arrays = [(i, s_) for i, j, s_ in F.stmts(b) if s_[0] == "assign" and s_[2][0] == "aggregate" and s_[2][1].get("k") == "array" and len(s_[2][2]) >= 2]
        ragg = [(i, s_) for i, j, s_ in F.stmts(rb) if s_[0] == "assign" and s_[2][0] == "aggregate" and s_[2][1].get("adt") == adt and s_[2][1].get("fields")]
        if len(arrays) != 1 or len(ragg) != 1:
            continue
        flr = Flow(rb)
        rmap = {}
        for fname, op in zip(ragg[0][1][2][1]["fields"], ragg[0][1][2][2]):
            l = F.op_local(op)
            for a in flr.origins(l) if l is not None else []:
                if a[0] == "call" and last_seg(a[1]) == "index" and len(a[3]["args"]) == 2:
                    c = F.const_int(a[3]["args"][1])
                    if c is not None:
                        rmap[c] = fname
        if len(rmap) < 2:
            continue
        n += 1
        defs = {}
        for i, j, s_ in F.stmts(b):
            if s_[0] == "assign" and len(s_[1]) == 1:
                defs.setdefault(s_[1][0], []).append(s_[2])
        for pos, op in enumerate(arrays[0][1][2][2]):
            l = F.op_local(op)
            fld = None
            d = defs.get(l, []) if l is not None else []
            if len(d) == 1 and d[0][0] == "use" and d[0][1][0] in ("copy", "move"):
                pl = d[0][1][1]
                if len(pl) >= 2 and pl[0] == 1 and pl[-1][0] == "field":
                    fld = pl[-1][2]
            ctx.check(fld is not None and rmap.get(pos) == fld, "C15-POS", "%s#element%d" % (adt, pos),
                      "element %d of the written array is %s, the reader fills `%s` from element %d: a value read and written back changes"
                      % (pos, ("the field `%s`" % fld) if fld else "a computed value (not a field of the object)", rmap.get(pos), pos), b["span"],
                      detail="[%d] <-> %s" % (pos, rmap.get(pos)))
    ctx.floor("C15-POS", n, 1, "array-shaped hand-written pairs (Rectangle)")


def rule_absent(ctx, f):
    ctx.rule("C15-ABSENT", "Option::None and an empty HashMap are written as Null; derived writers skip Null values (so an absent optional stays absent)")
    for self_s, what in (("std::option::Option<T>", "None"), ("std::collections::HashMap<primitive::Name, V>", "empty map")):
        b = f.impl_method("object::ObjectWrite", self_s, "to_primitive")
        if b is None:
            ctx.lost("C15-ABSENT", "<%s as ObjectWrite>::to_primitive" % self_s)
            continue
        nulls = [s for i, j, s in F.stmts(b) if s[0] == "assign" and s[2][0] == "aggregate" and s[2][1].get("adt") == "primitive::Primitive" and s[2][1].get("variant") == "Null"]
        ctx.check(bool(nulls), "C15-ABSENT", self_s + "#null", "%s is not written as Null" % what, b["span"], detail="%s -> Null" % what)
    n = 0
    bad = []
    late = []
    for b in f.bodies.values():
        im = b.get("impl") or {}
        if im.get("trait") == "object::ToDict" and b["id"].endswith("::to_dict") and derived(b, "ObjectWrite"):
            cfg = CFG(b)
            pv = {v["name"]: v["vi"] for v in f.adts["primitive::Primitive"]["variants"]}
            for bi, t in F.calls(b):
                if F.callee_name(t).startswith(DICT + "insert"):
                    fl = Flow(b)
                    vl = arg_local(t, 2)
                    if vl is None or not any(a[0] == "call" and last_seg(a[1]) == "to_primitive" for a in fl.origins(vl)):
                        continue
                    n += 1
                    # the value being inserted: a switch on ITS discriminant with a Null arm from which the insert is not feasibly reachable
                    roots = {vl} | {l for l in range(len(b["locals"])) if False}
                    st = [vl]
                    while st:
                        x = st.pop()
                        for d in fl.defs.get(x, []):
                            if d[0] == "assign" and not d[3] and d[2][0] == "use" and F.op_local(d[2][1]) is not None:
                                y = F.op_local(d[2][1])
                                if y not in roots:
                                    roots.add(y)
                                    st.append(y)
                    nexts = {x for x, t2 in F.calls(b) if last_seg(F.callee_name(t2)) == "to_primitive"}
                    guarded = False
                    for i, bb in enumerate(b["blocks"]):
                        tt = bb["term"]
                        if tt["k"] != "switch" or not cfg.dominates(i, bi):
                            continue
                        dl = F.op_local(tt["discr"])
                        on_val = any(s2[0] == "assign" and s2[1] == [dl] and s2[2][0] == "discr" and len(s2[2][1]) == 1 and s2[2][1][0] in roots for s2 in bb["stmts"])
                        if not on_val:
                            continue
                        arms = {a[0]: a[1] for a in tt["arms"]}
                        if pv["Null"] in arms:
                            guarded = bi not in ccp_reachable(b, arms[pv["Null"]])
                            # ... and the tested value is what the field's writer returned, not that value after it was wrapped into an
                            # indirect object (a reference to a `null` object is not Null)
                            tested = [s2[2][1][0] for s2 in bb["stmts"] if s2[0] == "assign" and s2[1] == [dl] and s2[2][0] == "discr"][0]
                            calls_in = {last_seg(a[1]) for a in fl.origins(tested, passthrough=("branch",)) if a[0] == "call"}
                            if calls_in - {"to_primitive", "branch"}:
                                guarded = False
                                late.append(b["id"])
                    if not guarded:
                        bad.append(b["id"])
    ctx.floor("C15-ABSENT", n, 200, "field inserts in derived writers")
    ctx.check(not bad, "C15-ABSENT", "derived-writers#skip-null", "derived writers insert Null values: %s%s" % (sorted(set(bad))[:5],
              (" (in %s the Null test is applied after the value was wrapped into an indirect object: an absent optional is written as a reference to a null object)" % sorted(set(late))[:3]) if late else ""),
              detail="%d field inserts skip Null" % n)


def rule_name_tables(ctx, f):
    ctx.rule("C15-ENUM-H", "hand-written array-shaped models whose kind is a name (destinations): the name the writer emits for a variant is the name under "
             "which the reader builds that variant")
    ctx.rule("C15-ARR-len", "destinations are arrays read by position: for every view the writer appends, on every path to its Ok result, at least as many elements as the "
             "highest position the reader asks for, and removes none")
    from tables import str_arms, exclusive_regions, enum_switches, region_aggregates
    n = 0
    for adt, reader_id, wself in (("object::types::DestView", "object::types::Dest::from_array", "object::types::Dest"),
                                  ("object::color::ColorSpace", "object::color::ColorSpace::from_primitive_depth", "object::color::ColorSpace")):
        rb = f.body(reader_id)
        wb = f.impl_method("object::ObjectWrite", wself, "to_primitive")
        if rb is None or wb is None or adt not in f.adts:
            ctx.lost("C15-ENUM-H", "%s reader / writer" % adt)
            continue
        rcfg = CFG(rb)
        arms = str_arms(rb)
        regs = exclusive_regions(rcfg, {a["const"]: a["true_bb"] for a in arms})
        rtab = {}
        for a in arms:
            for r, st in region_aggregates(rb, regs[a["const"]] | {a["true_bb"]}, adt):
                rtab.setdefault(st[2][1]["variant"], set()).add(a["const"])
        vsn = {v["vi"]: v["name"] for v in f.adts[adt]["variants"]}
        wtab = {}
        wcfg = CFG(wb)
        for (i, pl, arms2, other) in enum_switches(wb, adt, f):
            regs2 = exclusive_regions(wcfg, {vsn[k]: tg for k, tg in arms2.items()})
            for k, tg in arms2.items():
                vn = vsn[k]
                for r in regs2.get(vn, set()) | {tg}:
                    for st in wb["blocks"][r]["stmts"]:
                        if st[0] == "assign" and st[2][0] == "use" and st[2][1][0] == "const" and isinstance(st[2][1][1], dict) and "str" in st[2][1][1]:
                            wtab.setdefault(vn, set()).add(st[2][1][1]["str"])
                    tw = wb["blocks"][r]["term"]
                    if tw["k"] == "call" and last_seg(F.callee_name(tw)) in ("name", "from", "into", "new") :
                        # `Primitive::name("CalRGB")` / `Name::from("..")`
                        for a_ in tw["args"]:
                            if a_[0] == "const" and isinstance(a_[1], dict) and "str" in a_[1]:
                                wtab.setdefault(vn, set()).add(a_[1]["str"])
        ctx.floor("C15-ENUM-H", len(rtab), 5, "variants of %s the reader builds from a name" % adt.split("::")[-1])
        if adt.endswith("DestView"):
            # seeded C15-9: the reader addresses the operands of a destination by position (`array.get(4)`), so the writer has to put an element
            # at every position the reader asks for - on every path, and without taking one away again
            ridx = {}
            for a in arms:
                ks = [F.const_int(t["args"][-1]) for r in regs[a["const"]] | {a["true_bb"]} for t in [rb["blocks"][r]["term"]]
                      if t["k"] == "call" and last_seg(F.callee_name(t)) == "get" and t["args"] and F.const_int(t["args"][-1]) is not None]
                ridx[a["const"]] = max(ks) if ks else 0
            okb = {i for i, bb in enumerate(wb["blocks"]) for st in bb["stmts"]
                   if st[0] == "assign" and st[1] == [0] and st[2][0] == "aggregate" and st[2][1].get("variant") == "Ok"}
            removers = sorted({last_seg(F.callee_name(t)) for bi, t in F.calls(wb)} & {"pop", "truncate", "remove", "swap_remove", "clear", "drain", "retain", "split_off", "dedup"})
            ctx.check(not removers and bool(okb), "C15-ARR-len", "Dest::to_primitive#no-removal", "the destination writer takes elements out of the array it builds (%s): the reader "
                      "addresses the operands by position and fails on a shorter array" % removers, wb["span"], detail="no pop / truncate / remove in the writer")
            npos = 0
            for (i, pl, arms2, other) in enum_switches(wb, adt, f):
                regs2 = exclusive_regions(wcfg, {vsn[k]: tg for k, tg in arms2.items()})
                for k, tg in arms2.items():
                    vn = vsn[k]
                    names = rtab.get(vn)
                    if not names:
                        continue
                    need = max(ridx.get(nm, 0) for nm in names)
                    pushes = [r for r in regs2.get(vn, set()) | {tg} if wb["blocks"][r]["term"]["k"] == "call" and last_seg(F.callee_name(wb["blocks"][r]["term"])) == "push"]
                    sure = [r for r in pushes if wcfg.all_paths_pass(tg, okb, {r})]
                    npos += 1
                    ctx.check(len(sure) >= need, "C15-ARR-len", "Dest::to_primitive#%s.positions" % vn, "for %s the writer appends %d element(s) on every path (%d somewhere), the "
                              "reader reads position %d of the array: a value written on the short path cannot be read back" % (vn, len(sure), len(pushes), need), wb["span"],
                              detail="%s: %d unconditional pushes after the page >= highest position read %d" % (vn, len(sure), need))
            ctx.floor("C15-ARR-len", npos, 7, "destination views whose written length is compared with the positions the reader asks for")
        for vn in sorted(rtab):
            if adt.endswith("ColorSpace") and not wtab.get(vn):
                continue        # a variant the writer refuses (Separation / DeviceN: known findings of C15-VARIANTS) writes no name
            n += 1
            ctx.check(wtab.get(vn) == rtab[vn], "C15-ENUM-H", "%s::%s" % (adt.split("::")[-1], vn), "the writer emits %s for %s, the reader builds it from %s: the value read back is "
                      "another variant" % (sorted(wtab.get(vn, [])), vn, sorted(rtab[vn])), wb["span"], detail="%s <-> /%s" % (vn, "/".join(sorted(rtab[vn]))))


ACCESSORS = {"as_array": {"Array"}, "as_bool": {"Boolean"}, "as_integer": {"Integer"}, "as_name": {"Name"}, "as_number": {"Integer", "Number"}, "as_string": {"String"},
             "as_u32": {"Integer"}, "as_u8": {"Integer"}, "as_usize": {"Integer"}, "into_array": {"Array"}, "into_dictionary": {"Dictionary"}, "into_name": {"Name"},
             "into_reference": {"Reference"}, "into_stream": {"Stream"}, "into_string": {"String"}}


def _ok_variants(f, b, adt):
    """variants of the scrutinised enum whose arm (and only that arm) reaches an Ok / Some result"""
    from tables import enum_switches
    sws = enum_switches(b, adt, f)
    if not sws:
        return None
    vs = {v["vi"]: v["name"] for v in f.adts[adt]["variants"]}
    i, pl, arms, other = sws[0]
    cfg = CFG(b)
    out = set()
    for vi, tg in arms.items():
        oth = {x for v2, x in arms.items() if x != tg} | {other}
        reach = cfg.reachable_from(tg, avoid={i}) | {tg}
        excl = reach - set().union(*[cfg.reachable_from(o, avoid={i}) | {o} for o in oth if o is not None and o != tg]) if oth else reach
        if any(st[0] == "assign" and st[1] == [0] and st[2][0] == "aggregate" and st[2][1].get("variant") in ("Ok", "Some") for r in excl | {tg} for st in b["blocks"][r]["stmts"]):
            out.add(vs[vi])
    return out


def rule_accessors(ctx, f):
    ctx.rule("C15-TABLE-acc", "the conversions every typed field is read through accept exactly the primitive kinds the writers emit for that type: as_integer / as_u32 / "
             "as_usize take an Integer only (a real is not silently truncated), as_number an Integer or a Number, as_name a Name ..; the hand-written Font reader maps "
             "each /Subtype to the variant of the same name")
    n = 0
    for nm, want in sorted(ACCESSORS.items()):
        b = f.body("primitive::Primitive::" + nm)
        if b is None:
            continue
        got = _ok_variants(f, b, "primitive::Primitive")
        if got is None:
            continue
        n += 1
        ctx.check(got == want, "C15-TABLE-acc", "Primitive::%s" % nm, "Primitive::%s succeeds for %s (expected %s): a value of another kind is converted on the way in and is "
                  "written back as something else" % (nm, sorted(got), sorted(want)), b["span"], detail="%s <- %s" % (nm, "/".join(sorted(want))))
    ctx.floor("C15-TABLE-acc", n, 10, "conversion helpers of Primitive")
    fb = f.impl_method("object::Object", "font::Font", "from_primitive")
    if fb is None:
        ctx.lost("C15-TABLE-acc", "<Font as Object>::from_primitive")
        return
    from tables import enum_switches, exclusive_regions, region_aggregates
    sws = enum_switches(fb, "font::FontType", f)
    if not ctx.floor("C15-TABLE-acc", len(sws), 1, "match on the font's /Subtype in the Font reader"):
        return
    tv = {v["vi"]: v["name"] for v in f.adts["font::FontType"]["variants"]}
    dnames = {v["name"] for v in f.adts["font::FontData"]["variants"]}
    i, pl, arms, other = sws[0]
    cfg = CFG(fb)
    regs = exclusive_regions(cfg, {tv[k]: tg for k, tg in arms.items()})
    tgts = {}
    for k, tg in arms.items():
        tgts.setdefault(tg, []).append(tv[k])
    for k, tg in sorted(arms.items()):
        vn = tv[k]
        built = {st[2][1]["variant"] for r, st in region_aggregates(fb, regs.get(vn, set()) | {tg}, "font::FontData")}
        want = {vn} if vn in dnames else {"Other"}
        shared = [x for x in tgts[tg] if x != vn]
        ctx.check(built == want and not shared, "C15-TABLE-acc", "Font#subtype-%s" % vn, "a font with /Subtype /%s is read as FontData::%s%s: it is written back with "
                  "another /Subtype" % (vn, "/".join(sorted(built)) or "?", (" (arm shared with %s)" % ", ".join(shared)) if shared else ""), fb["span"], detail="/%s -> FontData::%s" % (vn, sorted(want)[0]))
    # ... and the writer names the /Subtype after the variant it holds (the sibling table)
    wb = f.impl_method("object::ObjectWrite", "font::Font", "to_primitive")
    if wb is None:
        ctx.lost("C15-TABLE-acc", "<Font as ObjectWrite>::to_primitive")
        return
    wcfg = CFG(wb)
    dv = {v["vi"]: v["name"] for v in f.adts["font::FontData"]["variants"]}
    nw = 0
    for i2, pl2, arms2, other2 in enum_switches(wb, "font::FontData", f):
        regs2 = exclusive_regions(wcfg, {dv[k]: tg for k, tg in arms2.items()})
        rows = {}
        for k, tg in arms2.items():
            rows[dv[k]] = {st[2][1]["variant"] for r, st in region_aggregates(wb, regs2.get(dv[k], set()) | {tg}, "font::FontType")}
        if not any(rows.values()):
            continue            # the match that serialises the data, not the one that names the subtype
        for vn, built in sorted(rows.items()):
            if vn == "Other":
                continue
            nw += 1
            ctx.check(built == {vn}, "C15-TABLE-acc", "Font#writes-subtype-%s" % vn, "a FontData::%s is written with /Subtype /%s: it is read back as another kind of font"
                      % (vn, "/".join(sorted(built)) or "?"), wb["span"], detail="FontData::%s -> /Subtype /%s" % (vn, vn))
    ctx.floor("C15-TABLE-acc", nw, 5, "variants of FontData the writer names a /Subtype for")


def rule_refs_and_skips(ctx, f):
    ctx.rule("C15-REF", "a typed reference is read with the object number AND the generation it has in the file (the writer emits both); the derived writers leave "
             "out a field only when its value is Null")
    rb = f.impl_method("object::Object", "object::Ref<T>", "from_primitive")
    if rb is None:
        ctx.lost("C15-REF", "<Ref<T> as Object>::from_primitive")
    else:
        fl = Flow(rb)
        names = {last_seg(F.callee_name(t)) for bi, t in F.calls(rb)}
        fs = set()
        ats = fl.origins(0, fields=fs, passthrough=PASS_LAST + ("new", "from_id", "into_reference"))
        part = fs & {"id", "gen"}
        ctx.check("into_reference" in names and not part and "from_id" not in names, "C15-REF", "Ref<T>::from_primitive#whole-reference", "the reference reader keeps only a part of the "
                  "reference it is given (%s): a reference with a non-zero generation is read as another reference and written back as `n 0 R`" % (sorted(part) or "from_id"), rb["span"],
                  detail="Ref::new(p.into_reference()?)")
    # derived writers: the skip test of a field is a test of the Null variant and nothing else
    n = 0
    for b in f.bodies.values():
        if not (b.get("impl") and b["impl"].get("trait") in ("object::ObjectWrite", "object::ToDict") and "derive(ObjectWrite)" in (b.get("mac") or [])):
            continue
        bad = sorted({last_seg(F.callee_name(t)) for bi, t in F.calls(b)} & {"is_empty", "len", "is_null", "eq", "ne", "is_none", "is_some"})
        n += 1
        ctx.check(not bad, "C15-REF", b["impl"]["self"] + "#skips-null-only", "the derived writer of %s decides with %s whether a field is written: a value the reader requires (an empty "
                  "dictionary, say) is left out and the written form does not read back" % (b["impl"]["self"], ", ".join(bad)), b["span"], detail="a field is skipped only when it wrote Null")
    ctx.floor("C15-REF", n, 40, "derived writer bodies")


def run(ctx):
    f = F.load("default")
    ctx.count("bodies", len(f.bodies))
    rule_keys(ctx, f)
    rule_refs_and_skips(ctx, f)
    rule_enums(ctx, f)
    rule_hand(ctx, f)
    rule_variants(ctx, f)
    rule_positional(ctx, f)
    rule_name_tables(ctx, f)
    rule_accessors(ctx, f)
    rule_absent(ctx, f)
    return ctx.finish(
        "Static analysis of the macro-EXPANDED reader and writer impls in MIR: dictionary keys are extracted by tracing string constants into "
        "Dictionary::{remove,get,require,expect,insert}; name / integer enum tables from string-match and SwitchInt arms; catch-all by provenance "
        "of the residual dictionary. Compared as siblings (reader vs writer of the same model). Values of field contents and container element "
        "round trips are not decided.",
        ["rustc nightly MIR construction (post macro expansion)", "mirx exporter"])
