"""C18 — references to missing or free objects read as null.

Decided: agreement between where "no such object" errors originate / get wrapped and what the
Option reader accepts (ERR); absent key read as Null by derived readers and Null read as empty by
Option/Vec/HashMap/() (ABSENT); a required field's failure carries the field name and is not a
panic site (G1); container elements go through the element reader (G2).
"""
import re
import facts as F
from cfg import CFG
from flow import Flow, call_sites, arg_local, last_seg
from sym import PathSym, enum_paths, show, walk, strip, prefix_to, feasible

ERR = "error::PdfError"


def err_variants(f):
    adt = f.adts.get(ERR)
    if not adt:
        raise F.LostAnchor("enum error::PdfError")
    return adt["variants"]


def missing_origin_variants(ctx, f):
    """T-missing: PdfError variants constructed where the lookup finds no object"""
    out = set()
    sites = []
    for b in f.bodies.values():
        if call_sites(b, lambda n, t: n == "xref::XRefTable::get") and \
                call_sites(b, lambda n, t: last_seg(n) == "parse_indirect_object"):
            cfg = CFG(b)
            for i, bb in enumerate(b["blocks"]):
                t = bb["term"]
                if t["k"] != "switch":
                    continue
                dl = F.op_local(t["discr"])
                isd = any(s[0] == "assign" and s[1] == [dl] and s[2][0] == "discr" and
                          b["locals"][s[2][1][0]]["s"] == "xref::XRef" for s in bb["stmts"])
                if not isd:
                    continue
                xv = {v["vi"]: v["name"] for v in f.adts["xref::XRef"]["variants"]}
                arms = {a[0]: a[1] for a in t["arms"]}
                for vi, vn in xv.items():
                    if vn in ("Free", "Invalid"):
                        start = arms.get(vi, t["otherwise"])
                        for r in cfg.reachable_from(start):
                            for s in b["blocks"][r]["stmts"]:
                                if s[0] == "assign" and s[2][0] == "aggregate" and s[2][1].get("adt") == ERR:
                                    v = s[2][1]["variant"]
                                    if v not in ("Try",):
                                        out.add(v)
                                        sites.append("%s: %s arm -> %s" % (b["id"], vn, v))
    g = f.body("xref::XRefTable::get")
    if g:
        for i, j, s in F.stmts(g):
            if s[0] == "assign" and s[2][0] == "aggregate" and s[2][1].get("adt") == ERR:
                out.add(s[2][1]["variant"])
                sites.append("xref::XRefTable::get: out of table -> %s" % s[2][1]["variant"])
    # an error the lookup produces before it has consulted the table at all (a range test on the object number, say) is an origin too
    for b in f.bodies.values():
        gets = call_sites(b, lambda n, t: n == "xref::XRefTable::get")
        if gets and call_sites(b, lambda n, t: last_seg(n) == "parse_indirect_object"):
            cfg = CFG(b)
            for i, j, s in F.stmts(b):
                if s[0] == "assign" and s[2][0] == "aggregate" and s[2][1].get("adt") == ERR and s[2][1]["variant"] != "Try":
                    if not any(cfg.dominates(gb, i) for gb, gt in gets) and any(cfg.can_reach(i, gb) or True for gb, gt in gets):
                        # not behind the table look-up: produced on the way to it
                        if not any(cfg.dominates(gb, i) for gb, gt in gets) and all(not cfg.can_reach(gb, i) for gb, gt in gets):
                            out.add(s[2][1]["variant"])
                            sites.append("%s: before the table is consulted -> %s" % (b["id"], s[2][1]["variant"]))
    return out, sites


def wrapper_variants(f):
    """T-wrap: variants carrying another PdfError, with the number of construction sites"""
    ws = {}
    for v in err_variants(f):
        for fl in v["fields"]:
            if "PdfError" in fl["s"] and fl["s"] != "error::PdfError":
                ws[v["name"]] = fl["name"]
    counts = {w: 0 for w in ws}
    for b in f.bodies.values():
        for i, j, s in F.stmts(b):
            if s[0] == "assign" and s[2][0] == "aggregate" and s[2][1].get("adt") == ERR and s[2][1]["variant"] in ws:
                counts[s[2][1]["variant"]] += 1
    return ws, counts


def _switch_table(f, b, scrutinee, classify):
    """variant -> set of classified results of the paths from the switch on discriminant(*scrutinee) to the return"""
    cfg = CFG(b)
    vs = {v["vi"]: v["name"] for v in err_variants(f)}
    for i, bb in enumerate(b["blocks"]):
        t = bb["term"]
        if t["k"] != "switch":
            continue
        dl = F.op_local(t["discr"])
        isd = any(s[0] == "assign" and s[1] == [dl] and s[2][0] == "discr" and s[2][1][0] in scrutinee for s in bb["stmts"])
        if not isd:
            continue
        arms = {a[0]: a[1] for a in t["arms"]}
        table = {}
        pre = prefix_to(cfg, i)
        cache = {}
        for vi, vn in vs.items():
            start = arms.get(vi, t["otherwise"])
            if start not in cache:
                res = set()
                for p in enum_paths(cfg, start, lambda n, path: b["blocks"][n]["term"]["k"] == "return"):
                    ps = PathSym(b, pre + [i] + p)
                    if not feasible(ps):
                        continue
                    res.add(classify(ps.expr_of_local(0, len(ps.events))))
                cache[start] = res
            table[vn] = cache[start]
        return table
    return None


def _peel(e):
    while isinstance(e, tuple) and e and e[0] in ("ref", "deref", "cast"):
        e = e[1]
    return e


def predicate_table(f, b):
    """for a body P(&PdfError) -> bool: variant -> {'true'} | {'false'} | {'recurse:<variant>:<field>'} | {'unknown:..'}.
    Two spellings are understood: a match on self whose wrapper arms call P on the inner error, and P(e) = Q(g(e)) where the helper
    g(&PdfError) -> &PdfError peels the wrappers (recursively) and Q is a match on its result."""
    def cls_bool(e):
        if e[0] == "const" and e[1] == "bool":
            return "true" if e[2] else "false"
        if e[0] == "call" and e[1] == b["id"]:
            srcs = [x[2] for x in walk(e[2][0]) if x[0] == "field"]
            dcs = [x[2] for x in walk(e[2][0]) if x[0] == "downcast"]
            return "recurse:%s:%s" % (",".join(sorted(set(dcs))), ",".join(sorted(set(srcs))))
        return "unknown:" + show(e)
    direct = _switch_table(f, b, {1}, cls_bool)
    if direct is not None:
        return direct
    fl = Flow(b)
    for bi, t in F.calls(b):
        g = f.bodies.get(t.get("resolved") or "")
        if g is None or not t.get("resolved_local") or t["dest"] is None or len(t["args"]) != 1 or "error::PdfError" not in b["locals"][t["dest"][0]]["s"]:
            continue
        al = arg_local(t, 0)
        if al is None or not fl.derives_from_arg(al, 1):
            continue

        def cls_proj(e):
            x = _peel(e)
            if x == ("arg", 1):
                return "self"
            if isinstance(x, tuple) and x[0] == "call" and last_seg(x[1]) == "deref" and x[2]:
                x = _peel(x[2][0])              # Arc<PdfError> / Box<PdfError> deref
                while isinstance(x, tuple) and x[0] == "call" and last_seg(x[1]) == "deref" and x[2]:
                    x = _peel(x[2][0])
            if isinstance(x, tuple) and x[0] == "call" and x[1] == g["id"]:
                srcs = [y[2] for y in walk(x[2][0]) if y[0] == "field" and not y[2].isdigit() and y[2] != "pointer"]
                dcs = [y[2] for y in walk(x[2][0]) if y[0] == "downcast"]
                return "recurse:%s:%s" % (",".join(sorted(set(dcs))), ",".join(sorted(set(srcs))))
            if isinstance(x, tuple) and any(y[0] == "downcast" for y in walk(x)):
                return "unknown:one level only (%s is handed out without peeling it further)" % ",".join(sorted({y[2] for y in walk(x) if y[0] == "downcast"}))
            return "unknown:" + show(e)
        proj = _switch_table(f, g, {1}, cls_proj)
        # locals holding the helper's result
        res = {t["dest"][0]}
        for _ in range(4):
            for i2, j2, st in F.stmts(b):
                if st[0] == "assign" and len(st[1]) == 1 and st[2][0] == "use" and F.op_local(st[2][1]) in res:
                    res.add(st[1][0])
        inner = _switch_table(f, b, res, cls_bool)
        if proj is None or inner is None:
            continue
        table = {}
        for vn in inner:
            pr = proj.get(vn, set())
            if pr == {"self"}:
                table[vn] = inner[vn]
            elif pr and all(x.startswith("recurse:%s:" % vn) for x in pr):
                table[vn] = set(pr)
            else:
                table[vn] = {x if x.startswith("unknown:") else "unknown:" + x for x in pr} or {"unknown:no path"}
        return table
    return None


def rule_err(ctx, f):
    ctx.rule("C18-ERR", "the Option reader accepts every 'no such object' variant under any nesting of the error wrappers "
             "that are constructed in the crate, and does so before consulting allow_error_in_option")
    M, msites = missing_origin_variants(ctx, f)
    ctx.floor("C18-ERR", len(M), 3, "missing-object origin variants (Free arm, Invalid arm, out-of-table)")
    W, wcounts = wrapper_variants(f)
    ctx.floor("C18-ERR", len(W), 3, "PdfError variants wrapping a PdfError (Try, Shared, FromPrimitive)")
    ctx.note("T-missing=%s T-wrap=%s (construction sites %s)" % (sorted(M), sorted(W), wcounts))
    ob = f.impl_method("object::Object", "std::option::Option<T>", "from_primitive")
    if ob is None:
        ctx.lost("C18-ERR", "<Option<T> as Object>::from_primitive")
        return M, W
    cfg = CFG(ob)
    fl = Flow(ob)
    where = ob["span"]
    # the element reader call and its Err value
    elem = call_sites(ob, lambda n, t: t.get("callee") == "object::Object::from_primitive")
    if not ctx.floor("C18-ERR", len(elem), 1, "call of T::from_primitive in the Option reader"):
        return M, W
    res_local = elem[0][1]["dest"][0]
    # no other loading step of the Option reader hands its error on with `?`: such an error never meets the predicate
    for bb in f.with_closures(ob["id"]):
        bfl = Flow(bb)
        for bi, t in F.calls(bb):
            if last_seg(F.callee_name(t)) == "branch" and t["args"] and F.op_local(t["args"][0]) is not None:
                srcs = sorted({last_seg(a[1]) for a in bfl.origins(F.op_local(t["args"][0]), passthrough=("map_err", "and_then", "map", "ok_or", "ok_or_else")) if a[0] == "call"} &
                              {"resolve", "resolve_flags", "get", "from_primitive", "stream_data", "resolve_ref", "get_data"})
                ctx.check(not srcs, "C18-ERR", "<Option<T> as Object>::from_primitive#no-early-exit", "the Option reader hands an error of %s on with `?`: a reference to a missing or free "
                          "object fails the optional entry (and with it the whole object) instead of reading as absent" % ", ".join(srcs), t["span"],
                          detail="errors of loading steps are inspected, not propagated")
    # predicate calls on the error
    preds = []
    for bi, t in F.calls(ob):
        if not t.get("resolved_local") or t["dest"] is None:
            continue
        if ob["locals"][t["dest"][0]]["s"] != "bool" or len(t["args"]) != 1:
            continue
        al = arg_local(t, 0)
        if al is None:
            continue
        flds = set()
        ats = fl.origins(al, fields=flds)
        if any(a[0] == "call" and a[2] == elem[0][0] for a in ats) and "as:Err" in flds:
            preds.append((bi, t))
    opt_calls = call_sites(ob, lambda n, t: last_seg(n) == "options")
    good = None
    details = []
    for bi, t in preds:
        pb = f.body(t["resolved"])
        if pb is None:
            continue
        table = predicate_table(f, pb)
        if table is None:
            ctx.bad("C18-ERR", "<Option<T> as Object>::from_primitive#predicate-shape", "the test %s applied to the element's error is neither a match on the "
                    "error nor a match on the result of a wrapper-peeling helper: which errors it accepts cannot be tabulated" % t["resolved"], pb["span"])
            continue
        acc = {v for v, r in table.items() if r == {"true"}}
        look = {v for v, r in table.items() if r and all(x.startswith("recurse:%s:" % v) for x in r)}
        details.append("%s accepts=%s looks-through=%s" % (t["resolved"], sorted(acc), sorted(look)))
        need_w = {w for w in W if wcounts.get(w, 0) > 0}
        miss_m = M - acc
        miss_w = need_w - look
        # branch: true-successor reaches Ok(None) without options(); P dominates options()
        sw = ob["blocks"][t["target"]]["term"]
        ok_branch = False
        if sw["k"] == "switch" and F.op_local(sw["discr"]) == t["dest"][0]:
            true_t = sw["otherwise"] if [a for a in sw["arms"] if a[0] == 0] else None
            for a in sw["arms"]:
                if a[0] == 1:
                    true_t = a[1]
            if true_t is not None:
                region = cfg.reachable_from(true_t)
                has_none = False
                for r in region:
                    for s in ob["blocks"][r]["stmts"]:
                        if s[0] == "assign" and s[2][0] == "aggregate" and s[2][1].get("variant") == "None":
                            has_none = True
                        if s[0] == "assign" and s[1] == [0] and s[2][0] == "aggregate" and s[2][1].get("variant") == "Err":
                            has_none = False
                            break
                ok_branch = has_none and not any(o[0] in region for o in opt_calls)
        dom = all(cfg.dominates(bi, o[0]) for o in opt_calls)
        key = "<Option<T> as Object>::from_primitive"
        for mv in sorted(miss_m):
            ctx.bad("C18-ERR", key + "#missing=" + mv, "missing-object error %s (origin: %s) is not accepted by %s" %
                    (mv, "; ".join(s for s in msites if s.endswith(mv)), t["resolved"]), where)
        for wv in sorted(miss_w):
            ctx.bad("C18-ERR", key + "#wrapper=" + wv, "%s does not look through the wrapper PdfError::%s (%d construction sites) "
                    "— a missing-object error wrapped in it fails the optional entry" % (t["resolved"], wv, wcounts[wv]), where)
        if not ok_branch:
            ctx.bad("C18-ERR", key + "#branch", "the accepted case does not yield Ok(None) independent of the parse options", where)
        if not dom:
            ctx.bad("C18-ERR", key + "#before-options", "allow_error_in_option is consulted before the missing-object test "
                    "(strict mode would fail)", where)
        if not miss_m and not miss_w and ok_branch and dom:
            good = t
            for mv in sorted(M):
                ctx.ok("C18-ERR", key + "#missing=" + mv, "accepted by " + t["resolved"])
            for wv in sorted(need_w):
                ctx.ok("C18-ERR", key + "#wrapper=" + wv, "looked through by " + t["resolved"])
            ctx.ok("C18-ERR", key + "#branch", "true -> Ok(None), not under options()")
            ctx.ok("C18-ERR", key + "#before-options", "predicate dominates options()")
    if not preds:
        # direct match on the error's discriminant: wrappers cannot be looked through
        ctx.bad("C18-ERR", "<Option<T> as Object>::from_primitive#no-predicate",
                "the Option reader has no test that looks through error wrappers %s: a missing-object error wrapped by "
                "t!/the cache/derived readers is not recognised" % sorted(W), where)
    for d in details:
        ctx.note(d)
    return M, W


def rule_resolve_helper(ctx, f):
    ctx.rule("C18-ERR-helper", "Primitive::resolve hands the resolver's answer on as it is: a missing object stays a missing-object error (which the Option reader turns "
             "into None); turning it into Primitive::Null there makes strict readers fail with `unexpected Null`, which nobody recognises as absence")
    b = f.body("primitive::Primitive::resolve")
    if b is None:
        ctx.lost("C18-ERR-helper", "primitive::Primitive::resolve")
        return
    nulls = [i for i, j, st in F.stmts(b) if st[0] == "assign" and st[2][0] == "aggregate" and st[2][1].get("adt") == "primitive::Primitive" and st[2][1].get("variant") == "Null"]
    tests = [t for bi, t in F.calls(b) if last_seg(F.callee_name(t)) in ("is_missing_object", "is_err", "ok", "unwrap_or", "unwrap_or_default", "unwrap_or_else", "or_else")]
    res = [t for bi, t in F.calls(b) if t.get("callee") in ("object::Resolve::resolve", "object::Resolve::resolve_flags")]
    ctx.floor("C18-ERR-helper", len(res), 1, "resolver call in Primitive::resolve")
    ctx.check(not nulls and not tests, "C18-ERR-helper", "Primitive::resolve#passes-errors", "Primitive::resolve replaces an error of the resolver by a value (%s)"
              % ("builds Primitive::Null" if nulls else ", ".join(last_seg(F.callee_name(t)) for t in tests)), b["span"], detail="Reference(id) => r.resolve(id)")


def rule_flatten(ctx, f):
    ctx.rule("C18-ERR-text", "a loader that hands on an error it did not produce (the typed load `Resolve::get`, the resolver, the Option / container readers) "
             "wraps or propagates it; it never formats it into the text of a new error, which would hide a 'no such object' cause from the Option reader")
    n = 0
    targets = []
    for b in f.bodies.values():
        im = b.get("impl") or {}
        base = b["id"].split("::{closure")[0]
        if (im.get("trait") == "object::Resolve" and base.endswith(("::get", "::resolve_flags"))) or base.endswith(("Storage::<B, OC, SC, L>::resolve_ref",)) or \
                (im.get("trait") == "object::Object" and base.endswith("::from_primitive") and re.search(r"<(std::option::Option|object::MaybeRef|object::RcRef|std::vec::Vec|object::Ref|object::Lazy)<", b["id"])):
            targets.append(b)
    ctx.floor("C18-ERR-text", len(targets), 6, "loader bodies that pass errors on (get, resolve_flags, resolve_ref, Option/MaybeRef/RcRef/Vec readers)")
    for b in targets:
        for bi, t in F.calls(b):
            nm = F.callee_name(t)
            if last_seg(nm) in ("new_display", "new_debug") and "Argument" in nm:
                mac = " ".join(t.get("mac") or [])
                if re.search(r"\b(warn|debug|trace|info|error|log)!", mac):
                    continue        # logging, not the returned error
                ty = " ".join(t.get("targs") or []) + str(t.get("arg_tys"))
                n += 1
                ctx.check("PdfError" not in ty, "C18-ERR-text", "%s#formats-error" % b["id"],
                          "an error value is formatted into the message of a new error: a 'no such object' cause inside it can no longer be recognised, so an optional "
                          "entry pointing at a missing object fails instead of reading as absent", t["span"], detail="no PdfError is turned into text")
    ctx.count("format arguments in loader bodies", n)


def rule_absent(ctx, f):
    ctx.rule("C18-ABSENT", "derived readers read an absent key as Primitive::Null (else MissingEntry); Option, Vec, HashMap and () "
             "read Null as empty without calling the element reader")
    n = 0
    for b in f.bodies.values():
        if not (b.get("impl") and b["impl"].get("trait") == "object::FromDict" and b["id"].endswith("::from_dict")):
            continue
        if "derive(Object)" not in (b.get("mac") or []):
            continue
        cfg = CFG(b)
        fl = Flow(b)
        removes = call_sites(b, lambda nm, t: nm == "primitive::Dictionary::remove")
        for bi, t in removes:
            # key constant
            key = F.const_str(t["args"][1])
            if key is None:
                kl = arg_local(t, 1)
                ks = [a[1]["str"] for a in fl.origins(kl) if a[0] == "const" and "str" in a[1]] if kl is not None else []
                key = ks[0] if ks else "?"
            sw = b["blocks"][t["target"]]
            # discriminant switch on the Option result
            st = sw["term"]
            if st["k"] != "switch":
                continue
            arms = {a[0]: a[1] for a in st["arms"]}
            none_t = arms.get(0, st["otherwise"])
            # the None arm: either a default expression, or from_primitive(Primitive::Null)
            region = cfg.reachable_from(none_t, avoid={arms.get(1, st["otherwise"])}) if 1 in arms or 0 in arms else set()
            first_call = None
            # look only at the straight-line start of the None arm
            cur = none_t
            null_read = False
            default = False
            hops = 0
            while hops < 6:
                blk = b["blocks"][cur]
                for s in blk["stmts"]:
                    if s[0] == "assign" and s[2][0] == "aggregate" and s[2][1].get("adt") == "primitive::Primitive" and s[2][1].get("variant") == "Null":
                        null_read = True
                tt = blk["term"]
                if tt["k"] == "call":
                    if tt.get("callee") == "object::Object::from_primitive" and null_read:
                        first_call = tt
                    break
                if tt["k"] == "goto":
                    cur = tt["target"]
                    hops += 1
                    continue
                break
            has_default = first_call is None
            if first_call is not None:
                # Err arm of that read constructs MissingEntry
                errs = set()
                d = first_call["dest"][0] if first_call.get("dest") else None
                region = None
                tb = b["blocks"][first_call["target"]]
                # (a) `match read { Ok(v) => v, Err(_) => return Err(MissingEntry {..}) }`: the Err arm of the test of this very result
                if tb["term"]["k"] == "switch" and any(s[0] == "assign" and s[1] == [F.op_local(tb["term"]["discr"])] and s[2][0] == "discr" and s[2][1] == [d] for s in tb["stmts"]):
                    a2 = {a[0]: a[1] for a in tb["term"]["arms"]}
                    ok_t, err_t = a2.get(0, tb["term"]["otherwise"]), a2.get(1, tb["term"]["otherwise"])
                    if ok_t != err_t:
                        region = cfg.reachable_from(err_t, avoid={ok_t}) | {err_t}
                # (b) `read.map_err(|_| MissingEntry {..})?`: the closure handed to map_err on this very result
                elif tb["term"]["k"] == "call" and last_seg(F.callee_name(tb["term"])) == "map_err" and F.op_local(tb["term"]["args"][0]) == d:
                    region = set()
                    cl = arg_local(tb["term"], 1)
                    for a in fl.origins(cl) if cl is not None else []:
                        if a[0] == "agg" and a[1].get("k") == "closure":
                            cb = f.body(a[1]["closure"])
                            for i3, j3, s3 in (F.stmts(cb) if cb is not None else []):
                                if s3[0] == "assign" and s3[2][0] == "aggregate" and s3[2][1].get("adt") == ERR:
                                    errs.add(s3[2][1]["variant"])
                if region is None:
                    region = cfg.reachable_from(first_call["target"])       # another spelling: anything built after the read
                for r in region:
                    for s in b["blocks"][r]["stmts"]:
                        if s[0] == "assign" and s[2][0] == "aggregate" and s[2][1].get("adt") == ERR:
                            errs.add(s[2][1]["variant"])
                ok = "MissingEntry" in errs
                ctx.check(ok, "C18-ABSENT", "%s#%s" % (b["impl"]["self"], key),
                          "absent /%s is read from Null but a failure is not reported as MissingEntry" % key, t["span"],
                          detail="absent /%s -> from_primitive(Null), Err -> MissingEntry" % key)
            else:
                # no Null read: acceptable only if the arm computes a default, i.e. builds no error
                some_t = arms.get(1, st["otherwise"])
                reg = cfg.reachable_from(none_t, avoid={some_t})
                builds_err = any(s[0] == "assign" and s[2][0] == "aggregate" and s[2][1].get("adt") == ERR
                                 for r in reg for s in b["blocks"][r]["stmts"])
                # the join with the Some arm is in reg; only look at blocks not reachable from the Some arm
                only_none = reg - cfg.reachable_from(some_t)
                builds_err = any(s[0] == "assign" and s[2][0] == "aggregate" and s[2][1].get("adt") == ERR
                                 for r in only_none for s in b["blocks"][r]["stmts"])
                ctx.check(not builds_err, "C18-ABSENT", "%s#%s" % (b["impl"]["self"], key),
                          "absent /%s is an error without first reading Primitive::Null (Option/Vec fields can no longer be omitted)" % key,
                          t["span"], detail="absent /%s -> declared default" % key)
            n += 1
    ctx.floor("C18-ABSENT", n, 292, "derived field reads (Dictionary::remove sites in derive(Object) from_dict bodies)")
    # containers: Null arm does not call the element reader
    for self_s, empty in (("std::option::Option<T>", "None"), ("std::vec::Vec<T>", "Vec::new"),
                          ("std::collections::HashMap<primitive::Name, V>", "HashMap::new"), ("()", "unit")):
        b = f.impl_method("object::Object", self_s, "from_primitive")
        if b is None:
            ctx.lost("C18-ABSENT", "<%s as Object>::from_primitive" % self_s)
            continue
        if self_s == "()":
            calls_ = [t for i, t in F.calls(b)]
            ctx.check(not calls_, "C18-ABSENT", self_s + "#null", "() reader is not constant", b["span"], detail="() reads anything as ()")
            continue
        cfg = CFG(b)
        pv = {v["name"]: v["vi"] for v in f.adts["primitive::Primitive"]["variants"]}
        done = False
        for i, bb in enumerate(b["blocks"]):
            t = bb["term"]
            if t["k"] != "switch":
                continue
            dl = F.op_local(t["discr"])
            if not any(s[0] == "assign" and s[1] == [dl] and s[2][0] == "discr" and s[2][1] == [1] for s in bb["stmts"]):
                continue
            arms = {a[0]: a[1] for a in t["arms"]}
            if pv["Null"] not in arms:
                ctx.bad("C18-ABSENT", self_s + "#null", "no Null arm in the reader", t["span"])
                done = True
                break
            others = {tg for v, tg in arms.items() if v != pv["Null"]} | {t["otherwise"]}
            region = cfg.reachable_from(arms[pv["Null"]], avoid=others)
            elem_calls = [r for r in region if b["blocks"][r]["term"]["k"] == "call" and
                          b["blocks"][r]["term"].get("callee") == "object::Object::from_primitive"]
            errs = [r for r in region for s in b["blocks"][r]["stmts"]
                    if s[0] == "assign" and s[1] == [0] and s[2][0] == "aggregate" and s[2][1].get("variant") == "Err"]
            ctx.check(not elem_calls and not errs, "C18-ABSENT", self_s + "#null",
                      "Null is not read as the empty value", t["span"], detail="Null -> %s" % empty)
            done = True
            break
        if not done:
            ctx.lost("C18-ABSENT", "switch on the primitive's kind in <%s as Object>::from_primitive" % self_s)


PANIC_CALLEES = ("core::panicking::", "std::rt::begin_panic", "core::option::unwrap_failed", "core::result::unwrap_failed",
                 "core::option::expect_failed")


def rule_required(ctx, f):
    ctx.rule("C18-G1", "in derived readers a failing required field is reported as FromPrimitive/MissingEntry carrying the field "
             "name; the bodies contain no panic construct (unwrap/expect/panic/index)")
    n = 0
    for b in f.bodies.values():
        if not (b.get("impl") and b["impl"].get("trait") == "object::FromDict" and b["id"].endswith("::from_dict")):
            continue
        if "derive(Object)" not in (b.get("mac") or []):
            continue
        bad = []
        for bi, t in F.calls(b):
            nm = F.callee_name(t)
            if nm.startswith(PANIC_CALLEES) or last_seg(nm) in ("unwrap", "expect", "index", "index_mut") and not t.get("resolved_local"):
                bad.append(nm)
        for bi, bb in enumerate(b["blocks"]):
            if bb["term"]["k"] == "assert" and not bb["term"]["assert"].startswith(("Misaligned", "NullPointer")):
                bad.append("assert " + bb["term"]["assert"])
        # every FromPrimitive / MissingEntry aggregate has a constant, non-empty field operand
        fields_ok = True
        cnt = 0
        for i, j, s in F.stmts(b):
            if s[0] == "assign" and s[2][0] == "aggregate" and s[2][1].get("adt") == ERR and s[2][1]["variant"] == "FromPrimitive":
                names = s[2][1]["fields"]
                op = s[2][2][names.index("field")]
                v = F.const_str(op)
                cnt += 1
                if not v:
                    fields_ok = False
        # the error of a field's reader is wrapped (FromPrimitive names the entry): never handed on with `?`
        fl0 = Flow(b)
        for bi, t in F.calls(b):
            if last_seg(F.callee_name(t)) == "branch" and t["args"]:
                l0 = F.op_local(t["args"][0])
                if l0 is not None and any(a[0] == "call" and a[3].get("callee") == "object::Object::from_primitive" for a in fl0.origins(l0, passthrough=())):
                    bad.append("`?` on a field reader at %s (the error no longer names the entry)" % t["span"])
        # optional entries go through the Option reader (the one place where a missing object becomes None)
        adt0 = f.adts.get(b["impl"].get("self_adt") or "")
        if adt0 and len(adt0["variants"]) == 1:
            from collections import Counter
            want0 = Counter(x["s"] for x in adt0["variants"][0]["fields"] if x["s"].startswith("std::option::Option<"))
            got0 = Counter((t.get("self_ty") or {}).get("s", "") for bi, t in F.calls(b) if t.get("callee") == "object::Object::from_primitive")
            for ty0, k0 in want0.items():
                if got0.get(ty0, 0) < k0:
                    bad.append("%d field(s) of type %s but %d reads through <Option<..> as Object>::from_primitive: an optional entry pointing at a missing object fails the whole object"
                               % (k0, ty0[:70], got0.get(ty0, 0)))
        n += 1
        ctx.check(not bad and fields_ok, "C18-G1", b["impl"]["self"],
                  "derived reader can panic or loses the field name: %s" % (bad or "FromPrimitive without constant field"), b["span"],
                  detail="%d FromPrimitive sites with constant field names, no panic construct" % cnt)
    ctx.floor("C18-G1", n, 46, "derived from_dict bodies")
    # closures (map_err) building FromPrimitive for defaulted fields
    for b in f.bodies.values():
        if b["kind"] == "Closure" and "::from_dict::{closure" in b["id"] and "derive(Object)" in (b.get("mac") or []):
            for i, j, s in F.stmts(b):
                if s[0] == "assign" and s[2][0] == "aggregate" and s[2][1].get("adt") == ERR:
                    names = s[2][1]["fields"]
                    if "field" in names:
                        v = F.const_str(s[2][2][names.index("field")])
                        if not v and F.op_local(s[2][2][names.index("field")]) is not None:
                            # MissingEntry carries a String: `String::from("Name")`
                            cs = [a[1]["str"] for a in Flow(b).origins(F.op_local(s[2][2][names.index("field")])) if a[0] == "const" and "str" in a[1]]
                            v = cs[0] if len(cs) == 1 else None
                        ctx.check(bool(v), "C18-G1", b["id"], "FromPrimitive without constant field name", b["span"],
                                  detail="defaulted field error names /%s" % v)


def rule_elements(ctx, f):
    ctx.rule("C18-G2", "Vec<T> elements and HashMap values are read through T::from_primitive (so Option elements get the same treatment)")
    for self_s in ("std::vec::Vec<T>", "std::collections::HashMap<primitive::Name, V>"):
        b = f.impl_method("object::Object", self_s, "from_primitive")
        if b is None:
            ctx.lost("C18-G2", self_s)
            continue
        found = False
        for bb in f.with_closures(b["id"]):
            for bi, t in F.calls(bb):
                if t.get("callee") == "object::Object::from_primitive" and t.get("self_ty", {}).get("k") == "param":
                    found = True
        ctx.check(found, "C18-G2", self_s, "elements are not read through the element type's reader", b["span"],
                  detail="calls <T as Object>::from_primitive per element")


GROW = ("push", "resize", "resize_with", "extend", "extend_from_slice", "insert", "reserve", "append", "extend_from_within", "set_len", "splice")


ITER_OK = ("into_iter", "iter", "map", "collect", "try_collect", "cloned", "copied", "enumerate", "by_ref", "into_array", "resolve", "branch", "from_residual", "new", "new_uninit",
           "box_assume_init_into_vec_unsafe", "from_primitive", "with_capacity", "push", "next", "len", "deref", "as_slice")
ITER_BAD = ("filter", "filter_map", "skip", "skip_while", "take", "take_while", "step_by", "rev", "dedup", "retain", "flat_map", "flatten", "chain", "zip", "sort", "sort_by",
            "truncate", "remove", "swap_remove", "drain", "pop")


def rule_vec_reader(ctx, f, rid):
    """the generic array reader used by every Vec-typed entry (filter parameters, kids, annotations, ..): shared by C05 (the i-th /DecodeParms belongs to
    the i-th /Filter), C07 (an indirect /Kids array) and C18 (elements read by the element reader)"""
    ctx.rule(rid, "Vec<T>::from_primitive maps every element of the array, in order, through T's reader (no filtering, skipping or reordering adaptor - positions "
             "matter), and a reference is resolved and read again as the array it points to, not offered to T first")
    b = f.impl_method("object::Object", "std::vec::Vec<T>", "from_primitive")
    if b is None:
        ctx.lost(rid, "<Vec<T> as Object>::from_primitive")
        return
    names = [last_seg(F.callee_name(t)) for bb in f.with_closures(b["id"]) for bi, t in F.calls(bb)]
    bad = sorted({n for n in names if n in ITER_BAD})
    ctx.check(not bad, rid, "Vec<T>#in-order", "the array reader applies %s to the elements: null placeholders or other entries are dropped / moved, so an entry that is "
              "paired by position with another array (the i-th /DecodeParms with the i-th /Filter) goes to the wrong partner" % bad, b["span"], detail="into_iter().map(T::from_primitive).collect()")
    # ... every one of them: a turn of an explicit loop, or a call of the mapping closure, cannot get past an element without reading it
    is_elem = lambda t: t.get("callee") == "object::Object::from_primitive" and (t.get("self_ty") or {}).get("k") == "param"
    nel = 0
    for bb in f.with_closures(b["id"]):
        ec = [bi for bi, t in F.calls(bb) if is_elem(t)]
        if not ec:
            continue
        nel += len(ec)
        cfg2 = CFG(bb)
        if bb["kind"] == "Closure":
            rets = [i for i, blk in enumerate(bb["blocks"]) if blk["term"]["k"] == "return"]
            every = all(cfg2.all_paths_pass(0, [r_], set(ec)) for r_ in rets)
        else:
            loops2 = cfg2.loops()
            every = True
            for e in ec:
                for h, blk in loops2.items():
                    if e in blk:
                        backs = [a_ for a_, h2 in cfg2.back_edges() if h2 == h]
                        every = every and all(cfg2.all_paths_pass(h, [a_], set(ec)) for a_ in backs)
        ctx.check(every, rid, "Vec<T>#every-element@" + bb["id"].split("::")[-1], "an element of the array can be passed over without being read (a `continue`, an early return of the "
                  "mapping closure): the elements behind it move one position forward", bb["span"], detail="every element goes through T::from_primitive")
    ctx.floor(rid, nel, 1, "element reads in the Vec reader")
    # the Reference arm
    from tables import enum_switches, exclusive_regions
    sws = enum_switches(b, "primitive::Primitive", f)
    vs = {v["name"]: v["vi"] for v in f.adts["primitive::Primitive"]["variants"]}
    ok = False
    if sws:
        i, pl, arms, other = sws[0]
        cfg = CFG(b)
        regs = exclusive_regions(cfg, {k: tg for k, tg in arms.items()})
        if vs["Reference"] in arms:
            reg = regs.get(vs["Reference"], set()) | {arms[vs["Reference"]]}
            calls = [(r, b["blocks"][r]["term"]) for r in reg if b["blocks"][r]["term"]["k"] == "call"]
            res = [r for r, t in calls if t.get("callee") in ("object::Resolve::resolve", "object::Resolve::resolve_flags") or last_seg(F.callee_name(t)) == "resolve"]
            selfc = [r for r, t in calls if F.callee_name(t) == b["id"] or (t.get("resolved") or "") == b["id"]]
            elem = [r for r, t in calls if t.get("callee") == "object::Object::from_primitive" and (t.get("self_ty") or {}).get("k") == "param"]
            ok = bool(res) and bool(selfc) and not elem
    ctx.check(ok, rid, "Vec<T>#reference-arm", "a reference in place of an array is not resolved and read again as an array (or is offered to the element type first): an indirect "
              "/Kids or /Annots array whose element type accepts a reference is read as a single element", b["span"], detail="Reference(r) => Self::from_primitive(resolve(r)?)")


def rule_reference_parse(ctx, f):
    ctx.rule("C18-PARSE", "a reference is parsed whatever object number it names: `n g R` becomes Primitive::Reference without a test of n against a limit - whether the "
             "object exists is decided when (and if) the reference is followed, where a missing object reads as null")
    b = f.body("parser::_parse_with_lexer_ctx")
    if b is None:
        ctx.lost("C18-PARSE", "parser::_parse_with_lexer_ctx")
        return
    from cfg import ccp_reachable
    refs = [i for i, j, st in F.stmts(b) if st[0] == "assign" and st[2][0] == "aggregate" and st[2][1].get("adt") == "primitive::Primitive" and st[2][1].get("variant") == "Reference"]
    eqs = [(bi, t) for bi, t in F.calls(b) if last_seg(F.callee_name(t)) == "equals" and t.get("dest") and t.get("target") is not None and any(F.const_bytes(a) == "R" for a in t["args"])]
    if not ctx.floor("C18-PARSE", min(len(refs), len(eqs)), 1, "`R` test and Reference construction in the object parser"):
        return
    bi, t = eqs[0]
    yes = ccp_reachable(b, t["target"], init={t["dest"][0]: 1})
    no = ccp_reachable(b, t["target"], init={t["dest"][0]: 0})
    region = yes - no
    errs = sorted({st[2][1].get("variant") for r in region for st in b["blocks"][r]["stmts"] if st[0] == "assign" and st[2][0] == "aggregate" and st[2][1].get("adt") == "error::PdfError"} - {"Try"})
    cmps = [st for r in region for st in b["blocks"][r]["stmts"] if st[0] == "assign" and st[2][0] == "binop" and st[2][1] in ("Lt", "Le", "Gt", "Ge") and
            (F.const_int(st[2][2]) is not None or F.const_int(st[2][3]) is not None)]
    ctx.check(not errs and not cmps, "C18-PARSE", "_parse_with_lexer_ctx#reference-any-number", "the reference branch of the object parser can fail on its own (%s%s): a dictionary "
              "that merely mentions an object number beyond some limit cannot be read at all, instead of the entry reading as absent" % (", ".join(errs), " after a comparison with a constant" if cmps else ""),
              t["span"], detail="`n g R` -> Primitive::Reference, no range test")


def rule_size(ctx, f):
    ctx.rule("C18-SIZE", "reading never makes room in the cross-reference table: it has the /Size slots it was created with, the merge of a section stores "
             "through get_mut() only, and only create / promise append to it - so a number at or beyond /Size stays undefined and reads as absent")
    n = 0
    growers = {}
    for bid, b in f.bodies.items():
        fl = None
        for bi, t in F.calls(b):
            if last_seg(F.callee_name(t)) in GROW and "Vec<xref::XRef>" in (t.get("callee_full", "") + t.get("resolved_full", "") + " ".join(ty["s"] for ty in t["arg_tys"][:1])):
                # the table's own vector: any such call inside `impl XRefTable`, elsewhere a receiver reached through an XRefTable parameter
                mine = bid.startswith("xref::XRefTable::")
                if not mine:
                    fl = fl or Flow(b)
                    l = arg_local(t, 0)
                    mine = l is not None and any(a[0] == "arg" and "xref::XRefTable" in b["locals"][a[1]]["s"] for a in fl.origins(l, passthrough=("deref_mut", "deref", "as_mut", "borrow_mut")))
                if mine:
                    growers.setdefault(bid, []).append(t)
    for bid, ts in sorted(growers.items()):
        n += 1
        ok = bid in ("xref::XRefTable::new", "xref::XRefTable::push")
        ctx.check(ok, "C18-SIZE", bid + "#grows-table", "%s enlarges the cross-reference table (%s): entries of a section that lie beyond /Size become defined objects "
                  "instead of being dropped" % (bid, ", ".join(sorted({last_seg(F.callee_name(t)) for t in ts}))), ts[0]["span"], detail="only XRefTable::new / XRefTable::push size the table")
    for bid, b in f.bodies.items():
        for bi, t in F.calls(b):
            if F.callee_name(t) == "xref::XRefTable::push":
                n += 1
                im = b.get("impl") or {}
                ok = im.get("trait") == "object::Updater" and im.get("self", "").startswith("file::Storage<")
                ctx.check(ok, "C18-SIZE", bid + "#push", "%s appends to the cross-reference table outside create / promise" % bid, t["span"], detail="XRefTable::push from Updater::create / promise")
    ctx.floor("C18-SIZE", n, 4, "sites that size the table (new: push + resize, push; create, promise)")
    # on load the table gets /Size slots: the argument of XRefTable::new is the trailer's /Size and nothing else (not the highest number some
    # section happens to list)
    m = 0
    for bid, b in f.bodies.items():
        if bid.startswith("xref::"):
            continue
        for bi, t in F.calls(b):
            if F.callee_name(t) != "xref::XRefTable::new" or not t["args"]:
                continue
            fl = Flow(b)
            l = F.op_local(t["args"][0])
            ats = fl.origins(l) if l is not None else []
            keys = set()
            for a in ats:
                if a[0] == "call" and a[1].startswith("primitive::Dictionary::get") and len(a[3]["args"]) > 1:
                    k = F.const_str(a[3]["args"][1])
                    if k is None and F.op_local(a[3]["args"][1]) is not None:
                        ks = [x[1]["str"] for x in fl.origins(F.op_local(a[3]["args"][1])) if x[0] == "const" and isinstance(x[1], dict) and "str" in x[1]]
                        k = ks[0] if len(ks) == 1 else None
                    keys.add(k)
            names = {last_seg(a[1]) for a in ats if a[0] == "call"}
            plain = names <= {"get", "ok_or_else", "ok_or", "as_u32", "as_usize", "as_integer", "as_u64", "branch", "from_residual", "into", "from", "try_into", "try_from", "unwrap", "expect", "read_xref_and_trailer_at"}
            if l is None:
                continue        # a constant (an empty document)
            m += 1
            ctx.check(keys == {"Size"} and plain, "C18-SIZE", bid + "#sized-by-Size", "the table read from a file is sized by %s (through %s), not by the trailer's /Size alone: objects "
                      "numbered at or beyond /Size become defined" % (sorted(str(k) for k in keys) or "something else", sorted(names - {"get", "branch", "from_residual"})),
                      t["span"], detail="XRefTable::new(trailer[/Size])")
    ctx.floor("C18-SIZE", m, 1, "XRefTable::new with a computed size (the loader)")


def run(ctx):
    f = F.load("default")
    ctx.count("bodies", len(f.bodies))
    rule_err(ctx, f)
    rule_resolve_helper(ctx, f)
    rule_flatten(ctx, f)
    rule_absent(ctx, f)
    rule_required(ctx, f)
    rule_elements(ctx, f)
    rule_vec_reader(ctx, f, "C18-G2")
    rule_size(ctx, f)
    rule_reference_parse(ctx, f)
    return ctx.finish(
        "Static analysis of MIR facts: (ERR) the PdfError variants constructed where the lookup finds no object and the variants "
        "that wrap another PdfError are extracted from the program; the predicate the Option reader applies to a failed element "
        "read is summarised per variant by path enumeration (true / false / recurse into source) and must accept every origin "
        "variant through every wrapper, on a branch that does not depend on the parse options; (ABSENT) every derived field read "
        "falls back to reading Primitive::Null and reports MissingEntry, containers read Null as empty; (G1) derived readers "
        "name the failing field and contain no panic construct; (G2) container elements use the element reader. "
        "Not decided: per-field behaviour of hand-written readers, the values read.",
        ["rustc nightly MIR construction", "mirx exporter", "the reading that Try/Shared/FromPrimitive are the only wrappers is re-derived from the ADT on every run"])
