"""C02 — the newest cross-reference entry for an object always wins.

Decided (structure only, see DESIGN.md §4 C02): merge precedence table of the section merge,
walk order of the /Prev chain, trailer identity, type-byte agreement of xref-stream reader and
writer, lookup arms for free / invalid / out-of-table entries.
"""
import facts as F
from cfg import CFG, ccp_reachable
from flow import Flow, call_sites, arg_local, last_seg
from inline import inlined
from sym import PathSym, enum_paths, show, walk, strip, prefix_to, feasible

XREF = "xref::XRef"


def variants(f):
    adt = f.adts.get(XREF)
    if not adt:
        raise F.LostAnchor("enum xref::XRef")
    return {v["vi"]: v["name"] for v in adt["variants"]}


# ----------------------------------------------------------------------------- TABLE
def merge_body(f):
    """role: body with parameters (&mut XRefTable, XRefSection) that stores an XRef through a
    &mut XRef obtained from the table's `entries`"""
    cands = []
    for b in f.bodies.values():
        if b["kind"] == "Closure":
            continue
        tys = [b["locals"][i]["s"] for i in range(1, b["argc"] + 1)]
        if "&mut xref::XRefTable" in tys and "xref::XRefSection" in tys:
            cands.append(b)
    return cands


def rule_table(ctx, f):
    ctx.rule("C02-TABLE", "per variant of the EXISTING table entry, the merge may overwrite it only: "
             "Invalid -> always; Raw/Free -> never or iff incoming generation is strictly greater; "
             "Stream -> never; Promised -> never (sections are merged newest first)")
    cands = merge_body(f)
    if not ctx.floor("C02-TABLE", len(cands), 1, "merge body (&mut XRefTable, XRefSection)"):
        return
    vs = variants(f)
    for b in cands:
        cfg = CFG(b)
        # the switch on discriminant(*dst) with dst: &mut XRef
        sw = []
        for i, bb in enumerate(b["blocks"]):
            t = bb["term"]
            if t["k"] != "switch":
                continue
            for s in bb["stmts"]:
                if s[0] == "assign" and s[2][0] == "discr":
                    pl = s[2][1]
                    lt = b["locals"][pl[0]]
                    if lt["s"] in ("&mut xref::XRef",) and len(pl) == 2 and pl[1][0] == "deref" \
                            and F.op_local(t["discr"]) == s[1][0]:
                        sw.append((i, pl[0]))
        if not ctx.floor("C02-TABLE", len(sw), 1, "switch on the existing entry's variant in %s" % b["id"]):
            continue
        # stores through that &mut XRef
        for swbb, dst in sw:
            stores = set()
            for i, j, s in F.stmts(b):
                if s[0] == "assign" and s[1][0] == dst and len(s[1]) == 2 and s[1][1][0] == "deref":
                    stores.add(i)
            loops = cfg.loops()
            heads = [h for h, blk in loops.items() if swbb in blk]
            t = b["blocks"][swbb]["term"]
            arms = {a[0]: a[1] for a in t["arms"]}
            # every entry of the section gets to this decision: inside the merge loop the only way around the switch on the existing entry is
            # the `None` outcome of the bounded look-up of the slot (an entry beyond /Size).  A test of the INCOMING entry that skips some
            # entries (say, free ones) before the slot is looked at changes which revision wins
            for h in heads:
                body = loops[h]
                none_arms = set()
                for gi, gt in F.calls(b):
                    if gi in body and last_seg(F.callee_name(gt)) in ("get_mut", "get") and gt.get("target") is not None:
                        gsw = b["blocks"][gt["target"]]["term"]
                        if gsw["k"] == "switch":
                            none_arms |= {a[1] for a in gsw["arms"] if a[0] == 0}
                            if not [a for a in gsw["arms"] if a[0] == 0]:
                                none_arms.add(gsw.get("otherwise"))
                # the iterator's `Some` arm: successors of the switch in the header chain that stay in the loop
                backs = [a for a, hh in cfg.back_edges() if hh == h]
                seen = set()
                st = [h]
                bypass = False
                while st:
                    x = st.pop()
                    if x in seen or x == swbb or x in none_arms:
                        continue
                    seen.add(x)
                    if x in backs and x != h:
                        bypass = True
                        break
                    for y in cfg.succ[x]:
                        if y in body and y != h:
                            st.append(y)
                        elif y == h and x != h:
                            bypass = True
                ctx.check(not bypass, "C02-TABLE", "%s#every-entry-decided" % b["id"], "an iteration of the merge loop can go on to the next entry without reaching the "
                          "decision on the existing entry (and not because the slot lies beyond the table): some incoming entries - e.g. free ones - are "
                          "dropped before precedence is applied, so an older revision of the object shows through", b["blocks"][swbb]["term"]["span"],
                          detail="only `entries.get_mut(i) == None` skips an entry")
            for vi, vname in sorted(vs.items()):
                start = arms.get(vi, t["otherwise"])

                def stop(n, path):
                    return n in stores or n in heads or b["blocks"][n]["term"]["k"] == "return"
                paths = enum_paths(cfg, start, stop) if start not in stores else [[start]]
                outcomes = []
                pre = prefix_to(cfg, swbb)
                for p in paths:
                    full = pre + [swbb] + p
                    last = p[-1]
                    ps = PathSym(b, full)
                    if not feasible(ps):
                        continue
                    if last in stores:
                        conds = [c for c in ps.branch_conditions() if c[2] in p and c[0][0] != "const"]
                        outcomes.append(("store", conds))
                    elif b["blocks"][last]["term"]["k"] == "return":
                        outcomes.append(("return", []))
                    else:
                        outcomes.append(("skip", []))
                kinds = {o[0] for o in outcomes}
                key = "%s#existing=%s" % (b["id"], vname)
                where = b["blocks"][swbb]["term"]["span"]
                if vname == "Invalid":
                    good = kinds == {"store"} and all(not o[1] for o in outcomes)
                    ctx.check(good, "C02-TABLE", key,
                              "an unspecified (Invalid) slot must always take the incoming entry; paths: %s" % sorted(kinds), where,
                              detail="Invalid -> always overwritten")
                elif vname in ("Stream", "Promised"):
                    good = "store" not in kinds
                    ctx.check(good, "C02-TABLE", key,
                              "an existing %s entry (from a newer section) can be overwritten by an older section" % vname, where,
                              detail="%s -> never overwritten (%s)" % (vname, sorted(kinds)))
                else:  # Raw, Free
                    good = True
                    why = "never overwritten"
                    for o in outcomes:
                        if o[0] != "store":
                            continue
                        rel = [strict_greater(c, b) for c in o[1]]
                        if not any(r is True for r in rel):
                            good = False
                            why = "store reachable under %s" % (
                                "; ".join("%s is %s" % (show(c[0]), c[1]) for c in o[1]) or "no condition")
                        else:
                            why = "overwritten only if incoming generation > existing generation"
                    ctx.check(good, "C02-TABLE", key,
                              "existing %s entry overwritten without a strictly-greater generation test: %s" % (vname, why),
                              where, detail=why)


def _is_incoming_gen(e):
    """generation number of the INCOMING entry: get_gen_nr(...) of / gen_nr field read from a value
    that comes out of the section iterator"""
    for x in walk(e):
        if x[0] == "call" and last_seg(x[1]) == "next":
            return True
    return False


def _is_existing_gen(e):
    for x in walk(e):
        if x[0] == "call" and last_seg(x[1]) in ("get_mut", "index_mut", "get"):
            return True
    return False


def strict_greater(cond, body):
    """cond = (expr, taken, bb).  True iff the branch taken means incoming_gen > existing_gen"""
    e, taken, _ = cond
    if e[0] != "binop":
        return None
    op, a, b = e[1], e[2], e[3]
    truth = None
    if taken[0] == "eq":
        truth = taken[1] == [1]
    elif taken[0] == "not":
        truth = 0 in taken[1] and 1 not in taken[1]
        if taken[1] == [0]:
            truth = True
    if truth is None:
        return None
    ia, ib = _is_incoming_gen(a) and not _is_existing_gen(a), _is_incoming_gen(b) and not _is_existing_gen(b)
    ea, eb = _is_existing_gen(a), _is_existing_gen(b)
    gen = lambda x: any(y[0] == "field" and y[2] == "gen_nr" for y in walk(x)) or \
        any(y[0] == "call" and last_seg(y[1]) == "get_gen_nr" for y in walk(x))
    if not (gen(a) and gen(b)):
        return None
    if ia and eb:
        # incoming OP existing
        return (op == "Gt" and truth) or (op == "Le" and not truth)
    if ea and ib:
        return (op == "Lt" and truth) or (op == "Ge" and not truth)
    return None


# ----------------------------------------------------------------------------- G1 / G2
def rule_walk(ctx, f):
    ctx.rule("C02-G1", "the first section read is the one at startxref (+ header offset); every further section is "
             "read at the /Prev of a section read before it and merged after the first; all merges go into one table")
    ctx.rule("C02-G2", "the returned trailer dictionary is that of the first (newest) section only")
    readers = []
    for b in f.bodies.values():
        if not call_sites(b, lambda n, t: last_seg(n) == "read_xref_and_trailer_at"):
            continue
        b = inlined(f, b)       # e.g. the /Prev look-up moved into a private helper
        cs = call_sites(b, lambda n, t: last_seg(n) == "read_xref_and_trailer_at")
        ms = call_sites(b, lambda n, t: last_seg(n) == "add_entries_from")
        if cs and ms:
            readers.append((b, cs, ms))
    if not ctx.floor("C02-G1", len(readers), 1, "body that reads sections and merges them"):
        return
    for b, cs, ms in readers:
        cfg = CFG(b)
        fl = Flow(b)
        loops = cfg.loops()
        anyloop = lambda bb: any(bb in blk for blk in loops.values())
        first = [c for c in cs if not anyloop(c[0])]
        later = [c for c in cs if anyloop(c[0])]
        # "the /Prev loop" = loops that contain a later section read
        prevloops = [blk for blk in loops.values() if any(c[0] in blk for c in later)]
        inloop = lambda bb: any(bb in blk for blk in prevloops)
        where = b["span"]
        if not ctx.check(len(first) == 1 and len(later) >= 1, "C02-G1", b["id"] + "#shape",
                         "expected one section read before the /Prev loop and one inside it; found %d / %d"
                         % (len(first), len(later)), where, detail="1 read at startxref, %d in the /Prev loop" % len(later)):
            continue
        A = first[0]
        # (b) A's lexer: with_offset(read(pos..), pos), pos from locate_xref_offset + start_offset arg
        def lexer_offset_origins(call):
            lx = arg_local(call[1], 0)
            ats = fl.origins(lx)
            wo = [a for a in ats if a[0] == "call" and last_seg(a[1]) == "with_offset"]
            return wo, ats
        woA, atsA = lexer_offset_origins(A)
        okA = False
        if woA:
            off = arg_local(woA[0][3], 1)
            oa = fl.origins(off) if off is not None else []
            okA = any(a[0] == "call" and last_seg(a[1]) == "locate_xref_offset" for a in oa) and \
                any(a[0] == "arg" for a in oa) and \
                not any(a[0] == "call" and last_seg(a[1]) == "get" and a[1].startswith("primitive::Dictionary") for a in oa)
        ctx.check(okA, "C02-G1", b["id"] + "#first-at-startxref",
                  "the first section is not read at startxref + header offset", A[1]["span"],
                  detail="first section offset derives from locate_xref_offset() and the start_offset argument")
        # (c) later reads: offset from Dictionary::get(<trailer of A or later>, "Prev")
        for L in later:
            woL, _ = lexer_offset_origins(L)
            okL = False
            msg = "no Lexer::with_offset origin"
            if woL:
                off = arg_local(woL[0][3], 1)
                oa = fl.origins(off) if off is not None else []
                gets = [a for a in oa if a[0] == "call" and a[1] == "primitive::Dictionary::get"]
                keys = set()
                dict_ok = True
                srcs = set()
                for g in gets:
                    k = F.const_str(g[3]["args"][1])
                    if k is None:
                        kl = arg_local(g[3], 1)
                        for a in fl.origins(kl):
                            if a[0] == "const" and "str" in a[1]:
                                keys.add(a[1]["str"])
                    else:
                        keys.add(k)
                    dl = arg_local(g[3], 0)
                    dsrc = [a for a in fl.origins(dl) if a[0] == "call" and last_seg(a[1]) == "read_xref_and_trailer_at"]
                    if not dsrc:
                        dict_ok = False
                    srcs |= {a[2] for a in dsrc}
                # the chain is followed: the /Prev of the section read in one round is where the next round reads (the trailer of every
                # section read - the first one and each later one - feeds the offset)
                follows = {A[0]} | {x[0] for x in later} <= srcs
                okL = bool(gets) and keys == {"Prev"} and dict_ok and follows and any(a[0] == "arg" for a in oa) \
                    and not any(a[0] == "call" and last_seg(a[1]) == "locate_xref_offset" for a in oa)
                msg = "offset keys=%s dict_from_sections=%s every-section's-trailer-consulted=%s" % (sorted(keys), dict_ok, follows)
            ctx.check(okL, "C02-G1", b["id"] + "#later-at-prev",
                      "a later section is not read at the /Prev offset of a section read before: " + msg, L[1]["span"],
                      detail="later section offset derives from Dictionary::get(trailer, \"Prev\") + start_offset")
        # (d) merges
        tables = set()
        mA, mL = [], []
        for m in ms:
            sec = arg_local(m[1], 1)
            src = [a for a in fl.origins(sec) if a[0] == "call" and last_seg(a[1]) == "read_xref_and_trailer_at"]
            srcbbs = {a[2] for a in src}
            tl = arg_local(m[1], 0)
            for a in fl.origins(tl):
                if a[0] == "call" and a[1].endswith("XRefTable::new"):
                    tables.add(a[2])
            if srcbbs == {A[0]}:
                mA.append(m)
            elif srcbbs and srcbbs <= {l[0] for l in later}:
                mL.append(m)
            else:
                ctx.bad("C02-G1", b["id"] + "#merge-source", "a merge takes sections from %s reads (mixed or unknown origin)" % sorted(srcbbs), m[1]["span"])
        okm = len(mA) >= 1 and len(mL) >= 1 and all(cfg.dominates(A[0], l[0]) and not cfg.can_reach(l[0], a[0]) for a in mA for l in mL) \
            and all(inloop(l[0]) for l in mL) and not any(inloop(a[0]) for a in mA)
        ctx.check(okm, "C02-G1", b["id"] + "#merge-order",
                  "the newest section is not merged before the older ones", where,
                  detail="the startxref section is merged before the /Prev loop; no path leads from a later merge back to it")
        ctx.check(len(tables) == 1, "C02-G1", b["id"] + "#one-table",
                  "merges go into %d different tables" % len(tables), where, detail="all merges target the one XRefTable::new")
        # reads happen before their merge in the loop
        for l in mL:
            ctx.check(any(cfg.dominates(r[0], l[0]) for r in later), "C02-G1", b["id"] + "#read-before-merge",
                      "merge in the loop is not dominated by the section read", l[1]["span"], detail="loop: read dominates merge")
        # G2: returned Dictionary
        ret_ok = None
        for i, j, s in F.stmts(b):
            if s[0] == "assign" and s[1] == [0] and s[2][0] == "aggregate" and s[2][1].get("variant") == "Ok":
                src = F.op_local(s[2][2][0])
                ats = fl.origins(src)
                reads = {a[2] for a in ats if a[0] == "call" and last_seg(a[1]) == "read_xref_and_trailer_at"}
                ok = reads == {A[0]}
                ret_ok = ok if ret_ok is None else (ret_ok and ok)
                ctx.check(ok, "C02-G2", b["id"] + "#returned-trailer",
                          "the returned trailer derives from section reads %s, not only from the first (newest) one" % sorted(reads),
                          b["blocks"][i]["term"]["span"], detail="Ok((refs, trailer)): trailer from the first read only")
        if ret_ok is None:
            ctx.lost("C02-G2", "Ok(..) return in %s" % b["id"])


# ----------------------------------------------------------------------------- SIB
def rule_typebytes(ctx, f):
    ctx.rule("C02-SIB", "xref-stream reader maps type 0/1/2 to Free/Raw/Stream with (field2, field3) in spec order; "
             "missing type field defaults to 1; the writer emits the inverse mapping")
    vs = variants(f)
    # reader: body constructing XRef aggregates in arms of a switch on a u64
    rd = []
    for b in f.bodies.values():
        aggs = [(i, s) for i, j, s in F.stmts(b) if s[0] == "assign" and s[2][0] == "aggregate"
                and s[2][1].get("adt") == XREF]
        r64 = call_sites(b, lambda n, t: last_seg(n) == "read_u64_from_stream")
        if aggs and r64:
            rd.append((b, aggs, r64))
    if ctx.floor("C02-SIB", len(rd), 1, "xref-stream section reader (constructs XRef from read_u64_from_stream)"):
        for b, aggs, r64 in rd:
            cfg = CFG(b)
            # order the three field reads by dominance
            order = sorted(r64, key=lambda c: sum(1 for d in r64 if cfg.dominates(d[0], c[0])))
            if len(order) != 3:
                ctx.bad("C02-SIB", b["id"] + "#reads", "expected 3 field reads, found %d" % len(order), b["span"])
                continue
            idx = {c[0]: k for k, c in enumerate(order)}
            # field k is read with the k-th width of /W
            rfl = Flow(b)

            def width_index(op, depth=0):
                l = F.op_local(op)
                if l is None or depth > 5:
                    return None
                ds = rfl.defs.get(l, [])
                if len(ds) != 1 or ds[0][0] != "assign" or ds[0][2][0] != "use":
                    return None
                pl = F.op_place(ds[0][2][1])
                if pl is None:
                    return None
                ci = [e for e in pl[1:] if e[0] == "cindex"]
                if ci:
                    return ci[0][1]
                idxs = [e for e in pl[1:] if e[0] == "index"]
                if idxs:
                    return None
                return width_index(ds[0][2][1], depth + 1) if len(pl) == 1 else None
            for k, c in enumerate(order):
                wi = width_index(c[1]["args"][0])
                ctx.check(wi == k, "C02-SIB", b["id"] + "#width-%d" % k, "field %d of an xref-stream entry is read with width W[%s]: with unequal widths the field and "
                          "everything after it is cut at the wrong bytes" % (k + 1, wi), c[1]["span"], detail="field %d <- W[%d] bytes" % (k + 1, k))
            expect = {0: ("Free", ["next_obj_nr", "gen_nr"]), 1: ("Raw", ["pos", "gen_nr"]), 2: ("Stream", ["stream_id", "index"])}
            # switch whose arms lead to the aggregates
            found = {}
            for i, bb in enumerate(b["blocks"]):
                t = bb["term"]
                if t["k"] != "switch" or t["discr_ty"] != "u64":
                    continue
                for val, tgt in t["arms"]:
                    for p in enum_paths(cfg, tgt, lambda n, path: any(n == a[0] for a in aggs)) if not any(tgt == a[0] for a in aggs) else [[tgt]]:
                        last = p[-1]
                        for (ab, s) in aggs:
                            if ab == last:
                                ps = PathSym(b, [i] + p)
                                kd = s[2][1]
                                srcs = []
                                for o in s[2][2]:
                                    e = ps.expr_of_operand(o)
                                    which = None
                                    for x in walk(e):
                                        if x[0] == "call" and last_seg(x[1]) == "read_u64_from_stream":
                                            pass
                                    # identify by the defining call block through Flow
                                    l = F.op_local(o)
                                    bbs = {a[2] for a in Flow(b).origins(l) if a[0] == "call" and last_seg(a[1]) == "read_u64_from_stream"} if l is not None else set()
                                    srcs.append(sorted(idx[x] for x in bbs))
                                found[val] = (kd["variant"], kd["fields"], srcs)
                # default type when w0 == 0
                dfl = set()
                dl = F.op_local(t["discr"])
                if dl is not None:
                    for a in Flow(b).origins(dl):
                        if a[0] == "const" and "int" in a[1]:
                            dfl.add(a[1]["int"])
                if found:
                    ctx.check(dfl == {1}, "C02-SIB", b["id"] + "#default-type",
                              "absent type field must default to 1 (in use); found %s" % sorted(dfl), t["span"], detail="w0 == 0 -> type 1")
            for val, (vn, fields) in expect.items():
                got = found.get(val)
                ok = got is not None and got[0] == vn and got[1] == fields and got[2] == [[1], [2]]
                ctx.check(ok, "C02-SIB", b["id"] + "#type=%d" % val,
                          "xref stream entry type %d must build %s{%s} from (field 2, field 3); got %s" % (val, vn, ", ".join(fields), got),
                          b["span"], detail="type %d -> %s%s" % (val, vn, fields))
            ctx.check(set(found) == {0, 1, 2}, "C02-SIB", b["id"] + "#types",
                      "reader accepts entry types %s (spec: 0,1,2)" % sorted(found), b["span"], detail="types {0,1,2}")
    # writer: body that matches on XRef and pushes a type byte into a Vec<u8>
    wr = []
    for b in f.bodies.values():
        if b["kind"] == "Closure":
            continue
        has_sw = any(s[0] == "assign" and s[2][0] == "discr" and b["locals"][s[2][1][0]]["s"] == XREF
                     for i, j, s in F.stmts(b))
        pushes = call_sites(b, lambda n, t: n == "std::vec::Vec::<T, A>::push" and t["arg_tys"][1]["s"] == "u8")
        tb = call_sites(b, lambda n, t: last_seg(n) == "to_be_bytes")
        if has_sw and pushes and tb:
            wr.append((b, pushes))
    if ctx.floor("C02-SIB", len(wr), 1, "xref-stream writer (match on XRef, push type byte)"):
        for b, pushes in wr:
            cfg = CFG(b)
            tb_sites = call_sites(b, lambda n, t: last_seg(n) == "to_be_bytes")
            tb_sites = sorted(tb_sites, key=lambda c: sum(1 for d in tb_sites if cfg.dominates(d[0], c[0])))
            for i, bb in enumerate(b["blocks"]):
                t = bb["term"]
                if t["k"] != "switch":
                    continue
                dl = F.op_local(t["discr"])
                isd = any(s[0] == "assign" and s[1] == [dl] and s[2][0] == "discr" and b["locals"][s[2][1][0]]["s"] == XREF for s in bb["stmts"])
                if not isd:
                    continue
                expect = {"Free": (0, "next_obj_nr", "gen_nr"), "Raw": (1, "pos", "gen_nr"), "Stream": (2, "stream_id", "index")}
                got = {}
                for val, tgt in t["arms"]:
                    vn = vs.get(val)
                    stopbb = tb_sites[-1][0]
                    for p in enum_paths(cfg, tgt, lambda n, path: n == stopbb):
                        if p[-1] != stopbb:
                            continue
                        ps = PathSym(b, [i] + p)
                        # type byte
                        pe = None
                        for (pb, pt) in pushes:
                            if pb in p:
                                pe = ps.expr_of_operand(pt["args"][1], ps.position_after_block(([i] + p).index(pb)) - 1)
                        fa = ps.expr_of_operand(tb_sites[0][1]["args"][0], ps.position_after_block(([i] + p).index(tb_sites[0][0])) - 1)
                        fb = ps.expr_of_operand(tb_sites[1][1]["args"][0], ps.position_after_block(([i] + p).index(tb_sites[1][0])) - 1)
                        fn = lambda e: [x[2] for x in walk(e) if x[0] == "field" and x[2] in ("next_obj_nr", "gen_nr", "pos", "stream_id", "index")]
                        tbv = strip(pe)
                        got[vn] = (tbv[2] if tbv and tbv[0] == "const" else show(pe), (fn(fa) or [None])[0], (fn(fb) or [None])[0])
                for vn, ex in expect.items():
                    ctx.check(got.get(vn) == ex, "C02-SIB", b["id"] + "#write-" + vn,
                              "writer must emit %s as (type %d, %s, %s); got %s" % (vn, ex[0], ex[1], ex[2], got.get(vn)),
                              t["span"], detail="%s -> type %d, %s, %s" % (vn, ex[0], ex[1], ex[2]))
                extra = set(got) - set(expect)
                ctx.check(not extra, "C02-SIB", b["id"] + "#write-extra", "writer emits entries for %s" % sorted(extra), t["span"],
                          detail="Promised / Invalid are not written")


# ----------------------------------------------------------------------------- G3
def rule_lookup(ctx, f):
    ctx.rule("C02-G3", "lookup of a Free / Invalid entry constructs FreeObject / NullRef and never parses at an offset; "
             "an out-of-table number yields UnspecifiedXRefEntry")
    # resolve_ref role: body that switches on discriminant of an XRef obtained from XRefTable::get and calls parse_indirect_object
    cands = []
    for b in f.bodies.values():
        if call_sites(b, lambda n, t: n == "xref::XRefTable::get") and \
                call_sites(b, lambda n, t: last_seg(n) == "parse_indirect_object"):
            cands.append(b)
    if not ctx.floor("C02-G3", len(cands), 1, "lookup body (XRefTable::get + parse_indirect_object)"):
        return
    vs = variants(f)
    for b in cands:
        cfg = CFG(b)
        for i, bb in enumerate(b["blocks"]):
            t = bb["term"]
            if t["k"] != "switch":
                continue
            dl = F.op_local(t["discr"])
            isd = any(s[0] == "assign" and s[1] == [dl] and s[2][0] == "discr" and b["locals"][s[2][1][0]]["s"] == XREF for s in bb["stmts"])
            if not isd:
                continue
            arms = {a[0]: a[1] for a in t["arms"]}
            parse_bbs = {c[0] for c in call_sites(b, lambda n, t: last_seg(n) in ("parse_indirect_object", "parse", "parse_with_lexer", "read", "get_object_slice"))}
            for vi, vn in vs.items():
                if vn not in ("Free", "Invalid"):
                    continue
                start = arms.get(vi, t["otherwise"])
                region = cfg.reachable_from(start)
                want = {"Free": "FreeObject", "Invalid": "NullRef"}[vn]
                errs = set()
                for r in region:
                    for s in b["blocks"][r]["stmts"]:
                        if s[0] == "assign" and s[2][0] == "aggregate" and s[2][1].get("adt") == "error::PdfError":
                            errs.add(s[2][1]["variant"])
                other_arm_targets = [tg for v2, tg in arms.items() if v2 != vi]
                ok = want in errs and not (region & parse_bbs) and start not in other_arm_targets
                ctx.check(ok, "C02-G3", b["id"] + "#" + vn,
                          "a %s entry must resolve to PdfError::%s without reading the file (errors built: %s, reads parse: %s)"
                          % (vn, want, sorted(errs), bool(region & parse_bbs)), t["span"], detail="%s -> Err(%s)" % (vn, want))
    g = f.body("xref::XRefTable::get")
    if g is None:
        ctx.lost("C02-G3", "xref::XRefTable::get")
    else:
        errs = {s[2][1]["variant"] for i, j, s in F.stmts(g) if s[0] == "assign" and s[2][0] == "aggregate" and s[2][1].get("adt") == "error::PdfError"}
        idx = [t for i, t in F.calls(g) if last_seg(F.callee_name(t)) in ("index", "index_mut")]
        ctx.check(errs == {"UnspecifiedXRefEntry"} and not idx, "C02-G3", "xref::XRefTable::get#out-of-table",
                  "an object number beyond the table must yield UnspecifiedXRefEntry (errors: %s, indexing: %d)" % (sorted(errs), len(idx)),
                  g["span"], detail="out of table -> Err(UnspecifiedXRefEntry) via slice::get")


# ----------------------------------------------------------------------------- G4
def _root(b, fl, l, depth=0):
    """the local a borrow / reborrow chain starts from: `&mut *(&mut L)` -> L"""
    ds = fl.defs.get(l, [])
    if depth < 8 and len(ds) == 1 and ds[0][0] == "assign" and not (1 <= l <= b["argc"]):
        rv = ds[0][2]
        if rv[0] in ("ref", "rawptr"):
            return _root(b, fl, rv[1][0], depth + 1)
        if rv[0] == "use" and rv[1][0] in ("copy", "move") and len(rv[1][1]) == 1:
            return _root(b, fl, rv[1][1][0], depth + 1)
    return l


def writes_through(f, b, p, depth=0):
    """parameter p (a `&mut` to a slice cursor) is advanced: `*p = ..` here, or p (re-borrowed) is handed to a local
    callee that does"""
    fl = Flow(b)
    for i, j, st in F.stmts(b):
        if st[0] == "assign" and len(st[1]) > 1 and st[1][1][0] == "deref" and _root(b, fl, st[1][0]) == p:
            return True
    if depth > 3:
        return False
    for bi, t in F.calls(b):
        cb = f.bodies.get(t.get("resolved") or t.get("callee"))
        if cb is None:
            continue
        for k, a in enumerate(t["args"]):
            l = F.op_local(a)
            if l is not None and t["arg_tys"][k]["k"] == "refmut" and _root(b, fl, l) == p and writes_through(f, cb, k + 1, depth + 1):
                return True
    return False


def rule_cursor(ctx, f):
    ctx.rule("C02-G4", "xref-stream reader: the entries of the /Index subsections are consecutive in the stream data - the data cursor lives "
             "outside the subsection loop and every field read advances it (through `&mut`), or the loop re-assigns it")
    is_read = lambda nm, t: last_seg(nm) == "read_u64_from_stream"
    rdr = [b for b in f.bodies.values() if call_sites(b, is_read)
           and any(s[0] == "assign" and s[2][0] == "aggregate" and s[2][1].get("adt") == XREF for i, j, s in F.stmts(b))]
    if not ctx.floor("C02-G4", len(rdr), 1, "xref-stream section reader"):
        return
    n = 0
    for rb in rdr:
        fl = Flow(rb)
        rcfg = CFG(rb)
        reads = call_sites(rb, is_read)
        roots = []
        for bi, t in reads:
            ks = [k for k, ty in enumerate(t["arg_tys"]) if ty["k"] == "refmut"]
            l = F.op_local(t["args"][ks[0]]) if ks else None
            roots.append(_root(rb, fl, l) if l is not None else None)
        # callers: the call sits in a loop; its cursor argument is a &mut to a local that the loop does not re-initialise and that
        # every field read of the reader advances, or a slice value whose local is re-assigned inside the loop
        for cb in f.bodies.values():
            for bi, t in call_sites(cb, lambda nm, t: (t.get("resolved") or nm) == rb["id"] or nm == rb["id"]):
                cfg = CFG(cb)
                loops = [(h, body) for h, body in cfg.loops().items() if bi in body]
                if not loops:
                    continue
                cfl = Flow(cb)
                ok = False
                why = "no slice cursor argument"
                for k, ty in enumerate(t["arg_tys"]):
                    if "[u8]" not in ty["s"]:
                        continue
                    l = F.op_local(t["args"][k])
                    if l is None:
                        continue
                    root = _root(cb, cfl, l)
                    inloop = [d for d in cfl.defs.get(root, []) if d[0] in ("assign", "call") and any(d[1] in body for h, body in loops)]
                    if ty["k"] == "refmut":
                        if inloop:
                            why = "the cursor is re-initialised inside the subsection loop"
                        elif not writes_through(f, rb, k + 1):
                            why = "the reader never advances the cursor it is given"
                        elif any(r != k + 1 for r in roots):
                            why = "a field read of the reader consumes a private copy of the data, not the cursor it is given"
                        else:
                            ok = True
                    else:
                        if inloop and len(cfl.defs.get(root, [])) > len(inloop):
                            ok = True
                        else:
                            why = "the data is passed by value and the loop never re-assigns it: every subsection is read from the start of the data"
                n += 1
                ctx.check(ok, "C02-G4", cb["id"] + "#subsection-cursor", "xref stream with several /Index subsections: " + why, t["span"],
                          detail="cursor outside the loop, advanced by every read")
                # /Index is a list of pairs (first object number, number of entries): the reader gets them in that order
                def const_of(body, bfl, loc):
                    ds = bfl.defs.get(loc, [])
                    return F.const_int(ds[0][2][1]) if len(ds) == 1 and ds[0][0] == "assign" and ds[0][2][0] == "use" else None

                def element(body, bfl, op):
                    """which element of the /Index pair the operand is: 0, 1 or None"""
                    pl_ = F.op_place(op)
                    if pl_ is None:
                        return None
                    r_ = bfl.resolve(pl_)
                    idx = [e for e in r_[1:] if e[0] == "index"]
                    if idx:
                        return const_of(body, bfl, idx[-1][1])
                    flds = [e[1] for e in r_[1:] if e[0] == "field"]
                    if not flds:
                        return None
                    k_ = flds[-1]
                    # the pair was made by a closure of this body (`.map(|c| (c[0], c[1]))`)
                    for cl_ in f.closures_of(body["id"]):
                        clf = Flow(cl_)
                        for i_, j_, s_ in F.stmts(cl_):
                            if s_[0] == "assign" and s_[1] == [0] and s_[2][0] == "aggregate" and s_[2][1].get("k") == "tuple" and len(s_[2][2]) == 2:
                                return element(cl_, clf, s_[2][2][k_]) if k_ < 2 else None
                    return None
                if len(t["args"]) >= 2:
                    e0, e1 = element(cb, cfl, t["args"][0]), element(cb, cfl, t["args"][1])
                    ctx.check((e0, e1) == (0, 1), "C02-G4", cb["id"] + "#index-pair", "the reader of an /Index subsection is given (element %s, element %s) of the pair as (first "
                              "object number, count): every subsection is stored under the wrong numbers" % (e0, e1), t["span"], detail="(first, count) = (pair[0], pair[1])")
        # inlined form (the reader holds the subsection loop itself): the cursor is a local that lives outside every loop around the read
        for (bi, t), root in zip(reads, roots):
            lps = [body for body in rcfg.loops().values() if bi in body]
            if root is None or (1 <= root <= rb["argc"]) or len(lps) < 2:
                continue
            ds = fl.defs.get(root, [])
            ok = not any(d[1] in body for d in ds if d[0] in ("assign", "call") for body in lps)
            n += 1
            ctx.check(ok, "C02-G4", rb["id"] + "#own-cursor", "the data cursor is re-initialised inside the subsection loop: every subsection is read from the "
                      "start of the data", t["span"], detail="cursor defined outside the loops")
    ctx.floor("C02-G4", n, 1, "subsection loops with a data cursor")


# ----------------------------------------------------------------------------- G5
def rule_columns(ctx, f):
    ctx.rule("C02-SIB-table", "classic table reader: of the three tokens of an entry the first is the offset (in use) / next free number (free), the "
             "second the generation, for both kinds of entry; the newest trailer is not touched up with entries of older ones")
    rd = [b for b in f.bodies.values() if call_sites(b, lambda n, t: last_seg(n) in ("add_free_entry", "add_inuse_entry"))
          and call_sites(b, lambda n, t: last_seg(n) == "next" and "Lexer" in n)]
    if not ctx.floor("C02-SIB-table", len(rd), 1, "classic xref table reader (add_free_entry / add_inuse_entry)"):
        return
    n = 0
    for b in rd:
        cfg = CFG(b)
        fl = Flow(b)
        for bi, t in call_sites(b, lambda nm, t: last_seg(nm) in ("add_free_entry", "add_inuse_entry")):
            n += 1
            srcs = []
            for k in (1, 2):
                l = arg_local(t, k)
                srcs.append(sorted({a[2] for a in fl.origins(l) if a[0] == "call" and last_seg(a[1]) == "next" and "Lexer" in a[1]}) if l is not None else [])
            ok = len(srcs[0]) == 1 and len(srcs[1]) == 1 and srcs[0] != srcs[1] and cfg.dominates(srcs[0][0], srcs[1][0])
            ctx.check(ok, "C02-SIB-table", "%s#%s-columns" % (b["id"], last_seg(F.callee_name(t))), "the arguments of %s are not (first token, second token) of the entry: "
                      "the generation and the offset / next-free number trade places, and precedence between revisions is decided on the wrong number"
                      % last_seg(F.callee_name(t)), t["span"], detail="(token 1, token 2 = generation)")
            # the third token says which kind: `f` a free entry, `n` one in use
            want_kw = "f" if last_seg(F.callee_name(t)) == "add_free_entry" else "n"
            govern = set()
            for ebi, et in F.calls(b):
                if last_seg(F.callee_name(et)) in ("eq", "ne") and et.get("dest") and et.get("target") is not None and cfg.dominates(ebi, bi):
                    kws = [F.const_str(a_) for a_ in et["args"] if F.const_str(a_) is not None]
                    for a_ in et["args"]:
                        if F.const_str(a_) is None and F.op_local(a_) is not None:
                            kws += [x[1]["str"] for x in fl.origins(F.op_local(a_), passthrough=()) if x[0] == "const" and isinstance(x[1], dict) and "str" in x[1]]
                    if len(kws) != 1:
                        continue
                    yes = 0 if last_seg(F.callee_name(et)) == "ne" else 1
                    if bi in ccp_reachable(b, et["target"], init={et["dest"][0]: yes}, avoid={ebi}) and \
                            bi not in ccp_reachable(b, et["target"], init={et["dest"][0]: 1 - yes}, avoid={ebi}):
                        govern.add(kws[0])
            ctx.check(govern == {want_kw}, "C02-SIB-table", "%s#%s-keyword" % (b["id"], last_seg(F.callee_name(t))), "%s is reached when the third token of an entry equals %s "
                      "(7.5.4: `%s`): objects in use read as free and free ones as objects" % (last_seg(F.callee_name(t)), sorted(govern) or "?", want_kw), t["span"],
                      detail="`%s` -> %s" % (want_kw, last_seg(F.callee_name(t))))
    ctx.floor("C02-SIB-table", n, 2, "entry constructions of the classic reader")
    # the trailer that is handed back is the newest section's, untouched: nothing in the /Prev walk writes into it
    for b in f.bodies.values():
        reads = call_sites(b, lambda nm, t: last_seg(nm) == "read_xref_and_trailer_at")
        if len(reads) < 2:
            continue
        cfg = CFG(b)
        fl = Flow(b)
        loops = cfg.loops()
        first = [c for c in reads if not any(c[0] in blk for blk in loops.values())]
        if not first:
            continue
        muts = []
        for bi, t in F.calls(b):
            if last_seg(F.callee_name(t)) in ("insert", "extend", "append", "remove", "clear", "retain", "entry") and t["arg_tys"] and t["arg_tys"][0]["k"] == "refmut" and \
                    "Dictionary" in t["arg_tys"][0]["s"]:
                l = arg_local(t, 0)
                if l is not None and any(a[0] == "call" and a[2] == first[0][0] for a in fl.origins(l)):
                    muts.append(t)
        ctx.check(not muts, "C02-SIB-table", b["id"] + "#trailer-untouched", "the trailer of the newest section is modified while older sections are read (%s): entries an "
                  "update removed by leaving them out (say /Info) come back from an older revision" % ", ".join(sorted({last_seg(F.callee_name(t)) for t in muts})),
                  muts[0]["span"] if muts else b["span"], detail="no insert / extend / remove on the first trailer")


def rule_startxref(ctx, f):
    ctx.rule("C02-G5", "the newest section is found from the LAST `startxref` of the file: the backward search for the keyword starts at the end of the buffer and nothing "
             "moves the cursor in between (a search for another marker first can land in front of the newest revision's `startxref`)")
    b = f.body("backend::Backend::locate_xref_offset")
    if b is None:
        ctx.lost("C02-G5", "backend::Backend::locate_xref_offset")
        return
    cfg = CFG(b)
    moves = [(bi, t) for bi, t in F.calls(b) if "Lexer" in F.callee_name(t) and t["arg_tys"] and t["arg_tys"][0]["s"].startswith("&mut") and last_seg(F.callee_name(t)) != "new"]
    bfl = Flow(b)

    def needle(t):
        out = set()
        for a in t["args"][1:]:
            if F.const_bytes(a):
                out.add(F.const_bytes(a))
            elif F.op_local(a) is not None:
                out |= {F.const_bytes(["const", x[1]]) for x in bfl.origins(F.op_local(a)) if x[0] == "const" and isinstance(x[1], dict) and F.const_bytes(["const", x[1]]) is not None}
        return out
    sx = [(bi, t) for bi, t in moves if last_seg(F.callee_name(t)) == "seek_substr_back" and "startxref" in needle(t)]
    if not ctx.floor("C02-G5", len(sx), 1, "backward search for `startxref`"):
        return
    before = sorted({last_seg(F.callee_name(t)) for bi, t in moves if cfg.dominates(bi, sx[0][0]) and bi != sx[0][0]})
    ends = [t for bi, t in moves if last_seg(F.callee_name(t)) == "set_pos_from_end" and F.const_int(t["args"][1]) == 0] if moves else []
    ctx.check(before == ["set_pos_from_end"] and bool(ends), "C02-G5", "locate_xref_offset#from-the-end", "before the search for `startxref` the cursor is moved by %s (expected: "
              "set_pos_from_end(0) only): the search may stop at the `startxref` of an older revision" % before, sx[0][1]["span"], detail="set_pos_from_end(0); seek_substr_back(b\"startxref\")")


def rule_initial(ctx, f):
    ctx.rule("C02-TABLE-init", "a new table consists of Invalid slots - the one kind every section entry may overwrite (C02-TABLE); a slot that starts as Free or Raw "
             "would win against entries of the same generation")
    b = f.body("xref::XRefTable::new")
    if b is None:
        ctx.lost("C02-TABLE-init", "xref::XRefTable::new")
        return
    fl = Flow(b)
    fills = [(bi, t) for bi, t in F.calls(b) if last_seg(F.callee_name(t)) in ("resize", "from_elem", "resize_with", "extend") and len(t["args"]) >= 2]
    ctx.floor("C02-TABLE-init", len(fills), 1, "fill of the new table")
    for bi, t in fills:
        vs = set()
        for a in t["args"][1:]:
            l = F.op_local(a)
            for x in fl.origins(l, passthrough=()) if l is not None else []:
                if x[0] == "agg" and x[1].get("adt") == XREF:
                    vs.add(x[1].get("variant"))
        ctx.check(vs == {"Invalid"}, "C02-TABLE-init", "XRefTable::new#slots", "the slots of a new table are %s, not Invalid: entries of the file with the same generation lose against "
                  "the placeholder and every object reads as free / wrong" % sorted(vs), t["span"], detail="entries.resize(n, XRef::Invalid)")


def run(ctx):
    f = F.load("default")
    ctx.count("bodies", len(f.bodies))
    ctx.count("config", 1)
    rule_table(ctx, f)
    rule_initial(ctx, f)
    rule_startxref(ctx, f)
    rule_walk(ctx, f)
    rule_typebytes(ctx, f)
    rule_lookup(ctx, f)
    rule_cursor(ctx, f)
    rule_columns(ctx, f)
    return ctx.finish(
        "Static analysis of MIR facts (mirx) of crate pdf: merge-precedence table extracted by enumerating the CFG paths of one "
        "merge iteration per variant of the existing entry and compared with the newest-first rule; provenance of section "
        "offsets, merge order (dominance) and returned trailer; type-byte tables of xref-stream reader and writer compared "
        "with ISO 32000-1 7.5.8.3; lookup arms for free/invalid/out-of-table.  Decides the structure only: offsets inside "
        "sections, subsection arithmetic and hybrid files are not decided.",
        ["rustc nightly MIR construction and Instance::try_resolve", "mirx exporter", "ISO 32000-1 table 18 (type bytes) as transcribed in the rule"])
